import os, sys, tempfile
os.environ["PANOPTICA_CITATION_REMINDER"] = "false"
from panoptica.utils.label_group import LabelGroup
d = tempfile.mkdtemp()
g = LabelGroup([7, 15])
p1, p2 = os.path.join(d, "a.yaml"), os.path.join(d, "b.yaml")
g.save_to_config(p1)
g2 = LabelGroup.load_from_config(p1)
g2.save_to_config(p2)
t1, t2 = open(p1).read(), open(p2).read()
print("original :", g.value_labels)
print("loaded   :", g2.value_labels)
print(t1); print(t2)
if t1 != t2 or g.value_labels != g2.value_labels:
    print("FAIL: re-saving the loaded object does not reproduce the file / settings differ")
    sys.exit(1)
print("PASS")
