"""D17 (known finding, C16/C17): a subject name with a carriage return but no line feed is written
unquoted by csv.writer(lineterminator="\n") (Python < 3.13 quotes only the characters of the
lineterminator) and read back as two rows.  The subject is then not recognised as finished / in
process: resubmitting it - in the same run or after a restart - evaluates it again and the output
file gets a second row for it.

run:  cd /repo && PYTHONPATH=/repo /venv/bin/python /verif/findings/D17_lone_carriage_return_subject_demo.py
exit 1 = defect shown, exit 0 = not present"""
import os, sys, tempfile
import numpy as np

os.environ["PANOPTICA_CITATION_REMINDER"] = "false"
from panoptica import InputType, Panoptica_Aggregator, Panoptica_Evaluator
from panoptica import ConnectedComponentsInstanceApproximator, NaiveThresholdMatching

d = tempfile.mkdtemp()
out = os.path.join(d, "out.tsv")


def aggregator():
    ev = Panoptica_Evaluator(
        expected_input=InputType.SEMANTIC,
        instance_approximator=ConnectedComponentsInstanceApproximator(),
        instance_matcher=NaiveThresholdMatching(),
        verbose=False,
    )
    return Panoptica_Aggregator(ev, out)


a = np.zeros((8, 8), dtype=np.uint8)
a[1:4, 1:4] = 1
name = "mac\rbreak"
agg = aggregator()
agg.evaluate(a, a, name)
agg.evaluate(a, a, name)  # same subject again in the same run
del agg
try:
    agg2 = aggregator()  # a new run continuing the file
    agg2.evaluate(a, a, name)
except Exception as e:  # noqa: BLE001
    print("continuing the file raises:", type(e).__name__, e)
rows = open(out, newline="").read().split("\n")
n = sum(1 for r in rows if r.startswith("mac"))
print(f"rows starting with the subject's name: {n} (expected 1)")
sys.exit(1 if n != 1 else 0)
