#!/bin/bash
# usage: try_patch.sh <patch> <prop> [tier]   -- applies patch in a scratch worktree and runs the check there
set -u
PATCH=$1; PROP=$2; TIER=${3:-quick}
WT=/tmp/wt_try
if [ ! -d $WT ]; then git -C /repo worktree add -q --detach $WT HEAD; fi
git -C $WT checkout -q --detach ${BASE:-$(git -C /repo rev-parse HEAD)} 2>/dev/null
git -C $WT checkout -q -- . ; git -C $WT clean -fdq
git -C $WT apply "$PATCH" || { echo "PATCH DOES NOT APPLY"; exit 9; }
cd /verif && VERIF_REPO=$WT /venv/bin/python -m pstat check $PROP --tier $TIER | sed "s#^#[$PROP] #"
rc=${PIPESTATUS[0]}
git -C $WT checkout -q -- . ; git -C $WT clean -fdq
# restore evidence from the real repo later
exit $rc
