#!/venv/bin/python
"""Regenerate MANIFEST.json from the rule modules that exist (claimed) and NOT_APPLICABLE below."""
import importlib, json, os, sys
sys.path.insert(0, os.path.dirname(os.path.dirname(os.path.abspath(__file__))))
V = os.path.dirname(os.path.dirname(os.path.abspath(__file__)))
props = [json.loads(l) for l in open(os.path.join(V, "properties.jsonl"))]
NOT_YET = "check under construction in this round (see DESIGN.md section 4); not yet claimed"
checks, na, served = [], [], []
for p in props:
    pid = p["id"]
    try:
        mod = importlib.import_module(f"pstat.rules.{pid.lower()}")
    except ModuleNotFoundError:
        na.append({"property_id": pid, "reason": NOT_YET})
        continue
    info = getattr(mod, "INFO", {})
    if info.get("not_applicable"):
        na.append({"property_id": pid, "reason": info["not_applicable"]})
        continue
    served.append(pid)
    checks.append({
        "property_id": pid,
        "quick_cmd": f"/venv/bin/python -m pstat check {pid} --tier quick",
        "thorough_cmd": f"/venv/bin/python -m pstat check {pid} --tier thorough",
        "evidence_file": f"/verif/evidence/{pid}.json",
        "replay_cmd_template": "/venv/bin/python -m pstat replay {path}",
        "engine": "pstat",
        "level_claimed": {"category": "other", "text": "Static analysis of /repo's current source (no execution of panoptica): " + info.get("explanation", "") + " NOT decided (argued only): " + "; ".join(info.get("not_decided", [])), "design_ref": f"DESIGN.md section 4 ({pid})"},
        "level_note": "Trusted base: " + "; ".join(info.get("trusted_base", [])) + ". Assumptions: " + "; ".join(info.get("assumptions", [])),
        "technique": info.get("technique", "static analysis: ast-based abstract interpretation (finite-domain truth tables, path conditions, exact polynomial domain) over a resolved program model"),
    })
m = {
 "version": 1,
 "setup_cmd": "/venv/bin/python -m pstat --self-check",
 "hooks": {"guard": "PANOPTICA_VERIF", "enable": "none: static analysis reads /repo sources only; no hooks or instrumentation were added to /repo", "baseline_off_cmd": "cd /repo && /venv/bin/python -m pytest -ra -q -p no:cacheprovider --timeout=900 --continue-on-collection-errors", "source_commits": [], "add_only": True},
 "engines": [{"name": "pstat", "path": "/verif/pstat", "serves_properties": served, "kind_free_text": "repository-specific static analyser (stdlib ast): program model + call resolution, path conditions, finite-domain abstract evaluation, exact polynomial (Venn/symbolic-integer) domains, role/alias/lockset/typestate dataflow; variant corpus (mutants/twins) for rule liveness"}],
 "checks": checks,
 "notes": "Static analysis only. Exit codes: 0 holds, 1 violation (VIOLATION line + replay file), 2 undecided/analysis error (ANALYSIS-ERROR line, never on the unchanged tree). 16 genuine defects are repaired in /repo by 'fix:' commits (listed in known_findings.json as fixed); one (D17, C16/C17: a subject name with a lone carriage return) is recorded as a known finding and printed as KNOWN-FINDING.",
 "not_applicable": na,
}
json.dump(m, open(os.path.join(V, "MANIFEST.json"), "w"), indent=1)
print("claimed:", served, "not applicable:", [x["property_id"] for x in na])
