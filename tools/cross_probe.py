#!/venv/bin/python
"""Cross probe (measurement, not a check): is a seeded breaking change still reported when the tree
has been refactored first?

For every seeded change S (seeded/<id>/patch.diff) and every behaviour-preserving refactoring T of the
corpus (pstat/corpus/twins/*.diff) that touches a file S touches, apply T and then S (hunks of S are
located by content, so line shifts do not matter; a combination whose hunks no longer match is skipped)
and run the check of S's property on the result, in memory.  Expected: exit-1-equivalent (a violation);
"undecided" and "silent" are printed for triage.

usage: cross_probe.py [--per-seed N] [--seeds C03,C14a] [--twins P] [--jobs 16] [--out file]
"""
import argparse, json, os, random, re, sys, time, traceback

V = os.path.dirname(os.path.dirname(os.path.abspath(__file__)))
sys.path.insert(0, V)
from pstat import variants  # noqa: E402
from pstat.model import AnchorMissing, Program, Undecided  # noqa: E402


def parse_diff(text):
    """-> {path: [(old_start, [(tag, line)])]} for files under panoptica/."""
    files, cur, hunk = {}, None, None
    it = text.splitlines(keepends=True)
    i = 0
    while i < len(it):
        ln = it[i]
        if ln.startswith("--- ") and i + 1 < len(it) and it[i + 1].startswith("+++ "):
            path = it[i + 1][4:].strip()
            path = path[2:] if path.startswith("b/") else path
            cur = files.setdefault(path, []) if path.startswith("panoptica/") else None
            hunk = None
            i += 2
            continue
        if ln.startswith("@@") and cur is not None:
            hunk = (int(ln.split()[1].split(",")[0][1:]), [])
            cur.append(hunk)
        elif hunk is not None and cur is not None and ln[:1] in (" ", "-", "+") and not ln.startswith(("--- ", "+++ ")):
            hunk[1].append((ln[:1], ln[1:]))
        elif ln.startswith("diff --git"):
            hunk = None
        i += 1
    return files


def apply_fuzzy(src, text):
    """Apply hunks by content; returns False if a hunk cannot be located uniquely."""
    for path, hunks in parse_diff(text).items():
        lines = src.get(path, "").splitlines(keepends=True)
        delta = 0
        for start, body in hunks:
            old = [l.rstrip("\n") for t, l in body if t in (" ", "-")]
            new = [l for t, l in body if t in (" ", "+")]
            cands = [k for k in range(0, len(lines) - len(old) + 1) if [x.rstrip("\n") for x in lines[k : k + len(old)]] == old]
            if not cands:
                return False
            want = start - 1 + delta
            k = min(cands, key=lambda c: abs(c - want))
            if len(cands) > 1 and sum(1 for c in cands if abs(c - want) == abs(k - want)) > 1:
                return False
            lines[k : k + len(old)] = new
            delta += len(new) - len(old)
        src[path] = "".join(lines)
    return True


def job(args):
    sid, prop, sdiff, tname, tdiff = args
    from pstat.__main__ import analyse
    import ast as _ast

    t0 = time.time()
    try:
        src = variants.base_sources()
        variants.apply_unified_diff(src, open(tdiff).read(), tname)
        if not apply_fuzzy(src, open(sdiff).read()):
            return (sid, tname, "skip", "seed hunks do not match the refactored tree", 0)
        for p, t in src.items():
            if p.endswith(".py"):
                _ast.parse(t)
        prog = Program(src, root=f"<cross:{sid}+{tname}>")
        ctx = analyse(prog, prop, "quick")
        if ctx.new_violations:
            return (sid, tname, "caught", ctx.new_violations[0].rule, round(time.time() - t0, 1))
        if ctx.undecideds:
            o = ctx.undecideds[0]
            return (sid, tname, "undecided", f"{o.rule} {o.construct}: {o.desc}"[:300], round(time.time() - t0, 1))
        return (sid, tname, "silent", "", round(time.time() - t0, 1))
    except (AnchorMissing, Undecided) as e:
        return (sid, tname, "undecided", f"{type(e).__name__}: {e}"[:300], round(time.time() - t0, 1))
    except SyntaxError as e:
        return (sid, tname, "skip", f"composition does not parse: {e}", 0)
    except Exception as e:
        return (sid, tname, "error", "".join(traceback.format_exception_only(type(e), e)).strip()[:300], round(time.time() - t0, 1))


def main():
    ap = argparse.ArgumentParser()
    ap.add_argument("--per-seed", type=int, default=6)
    ap.add_argument("--seeds", default="")
    ap.add_argument("--twins", default="")
    ap.add_argument("--jobs", type=int, default=16)
    ap.add_argument("--out", default="/tmp/cross_probe.json")
    ap.add_argument("--seed", type=int, default=1)
    a = ap.parse_args()
    rnd = random.Random(a.seed)
    twins = {}
    for fn in sorted(os.listdir(variants.TWINS)):
        if fn.endswith(".diff") and a.twins in fn:
            p = os.path.join(variants.TWINS, fn)
            twins[fn[:-5]] = (p, set(parse_diff(open(p).read())))
    jobs = []
    sroot = os.path.join(V, "seeded")
    for sid in sorted(os.listdir(sroot)):
        pd = os.path.join(sroot, sid, "patch.diff")
        if not os.path.isfile(pd) or (a.seeds and not any(sid.startswith(x) for x in a.seeds.split(","))):
            continue
        prop = re.match(r"C\d\d", sid).group(0)
        sfiles = set(parse_diff(open(pd).read()))
        rel = [t for t, (_, tf) in twins.items() if tf & sfiles]
        rnd.shuffle(rel)
        for t in rel[: a.per_seed]:
            jobs.append((sid, prop, pd, t, twins[t][0]))
    print(f"[cross] {len(jobs)} compositions", flush=True)
    import multiprocessing as mp

    res = []
    with mp.get_context("fork").Pool(a.jobs) as pool:
        for r in pool.imap_unordered(job, jobs):
            res.append(r)
            if r[2] not in ("caught", "skip"):
                print(f"{r[2].upper():9s} {r[0]:8s} + {r[1]:12s} {r[3]}  {r[4]}s", flush=True)
    cnt = {}
    for r in res:
        cnt[r[2]] = cnt.get(r[2], 0) + 1
    print(f"[cross] {cnt}")
    json.dump(sorted(res), open(a.out, "w"), indent=1)


if __name__ == "__main__":
    main()
