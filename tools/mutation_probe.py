#!/venv/bin/python
"""Mutation probe of the checks (a measurement tool, not a check).

Stage 1: classic first-order mutants of the frozen base corpus (comparison boundaries, and/or,
dropped `not`, 0/1 constants, +/-, dropped .copy(), dropped continue/break, flipped boolean
keyword) are analysed in memory by every property's check (quick tier).
Stage 2 (--tests): the mutants that no check reports are run against the unit-test suite in a
scratch copy under /tmp; the ones the suite also passes are printed for triage: each is either
equivalent with respect to the 20 properties or a gap of the rules.
usage: mutation_probe.py [--files substr] [--tests] [--out FILE]"""
import argparse, ast, json, multiprocessing as mp, os, shutil, subprocess, sys, tempfile

V = os.path.dirname(os.path.dirname(os.path.abspath(__file__)))
sys.path.insert(0, V)
from pstat import variants  # noqa
from pstat.__main__ import PROPS, run_variant  # noqa

SKIP_FILES = ("citation_reminder", "parallel_processing", "__init__", "configs/")
DTYPE_SWAP = {"uint64": "uint32", "uint32": "uint16", "uint16": "uint8", "uint8": "uint16", "int32": "int16", "int64": "int32", "float64": "float32"}
FUNC_SWAP = {"min": "max", "max": "min", "sum": "mean", "mean": "median", "average": "median", "std": "var", "logical_or": "logical_and", "logical_and": "logical_or", "any": "all", "all": "any", "unique": "sort", "zeros": "ones", "ones": "zeros", "floor": "ceil", "ceil": "floor", "sqrt": "abs"}
CMP = {ast.Lt: "<=", ast.LtE: "<", ast.Gt: ">=", ast.GtE: ">", ast.Eq: "!=", ast.NotEq: "==", ast.Is: "is not", ast.IsNot: "is", ast.In: "not in", ast.NotIn: "in"}


def mutants():
    out = []
    for path, text in sorted(variants.base_sources().items()):
        if not path.endswith(".py") or any(s in path for s in SKIP_FILES):
            continue
        tree = ast.parse(text)
        lines = text.splitlines(keepends=True)
        offs = [0]
        for ln in lines:
            offs.append(offs[-1] + len(ln.encode()))
        b = text.encode()

        def span(n):
            return offs[n.lineno - 1] + n.col_offset, offs[n.end_lineno - 1] + n.end_col_offset

        def emit(n, new_src, what):
            s, e = span(n)
            new = (b[:s] + new_src.encode() + b[e:]).decode()
            try:
                ast.parse(new)
            except SyntaxError:
                return
            out.append({"path": path, "line": n.lineno, "what": what, "old": text, "new": new})

        docstrings = set()
        for n in ast.walk(tree):
            if isinstance(n, (ast.FunctionDef, ast.ClassDef, ast.Module)) and n.body and isinstance(n.body[0], ast.Expr) and isinstance(n.body[0].value, ast.Constant):
                docstrings.add(id(n.body[0].value))
        skip_nodes = set()
        for n in ast.walk(tree):
            # no mutation inside prints, asserts' messages, raise messages, main guards
            if isinstance(n, ast.Call) and isinstance(n.func, ast.Name) and n.func.id in ("print", "warnings", "warn"):
                for x in ast.walk(n):
                    skip_nodes.add(id(x))
            if isinstance(n, ast.If) and isinstance(n.test, ast.Compare) and isinstance(n.test.left, ast.Name) and n.test.left.id == "__name__":
                for x in ast.walk(n):
                    skip_nodes.add(id(x))
            if isinstance(n, ast.Raise):
                for x in ast.walk(n):
                    skip_nodes.add(id(x))
            if isinstance(n, ast.FunctionDef) and n.name in ("__str__", "__repr__", "print_summary", "get_summary_figure", "plot_box", "make_curve_over_setups", "make_autc_plots", "autc"):
                for x in ast.walk(n):
                    skip_nodes.add(id(x))
        for n in ast.walk(tree):
            if id(n) in skip_nodes:
                continue
            seg = lambda x: ast.get_source_segment(text, x)
            if isinstance(n, ast.Compare) and len(n.ops) == 1 and type(n.ops[0]) in CMP:
                l, r = seg(n.left), seg(n.comparators[0])
                if l and r:
                    emit(n, f"{l} {CMP[type(n.ops[0])]} {r}", f"cmp {type(n.ops[0]).__name__}")
            elif isinstance(n, ast.BoolOp) and len(n.values) == 2:
                l, r = seg(n.values[0]), seg(n.values[1])
                if l and r:
                    emit(n, f"({l}) {'or' if isinstance(n.op, ast.And) else 'and'} ({r})", "and/or")
            elif isinstance(n, ast.UnaryOp) and isinstance(n.op, ast.Not):
                o = seg(n.operand)
                if o:
                    emit(n, f"({o})", "drop not")
            elif isinstance(n, ast.Constant) and type(n.value) is int and n.value in (0, 1) and id(n) not in docstrings:
                emit(n, str(1 - n.value), f"const {n.value}")
            elif isinstance(n, ast.Constant) and type(n.value) is bool:
                emit(n, str(not n.value), f"bool {n.value}")
            elif isinstance(n, ast.BinOp) and isinstance(n.op, (ast.Add, ast.Sub)):
                l, r = seg(n.left), seg(n.right)
                if l and r:
                    emit(n, f"{l} {'-' if isinstance(n.op, ast.Add) else '+'} {r}", "+/-")
            elif isinstance(n, ast.Call) and isinstance(n.func, ast.Attribute) and n.func.attr == "copy" and not n.args:
                o = seg(n.func.value)
                if o:
                    emit(n, o, "drop .copy()")
            elif isinstance(n, (ast.Continue, ast.Break)):
                emit(n, "pass", "drop " + type(n).__name__.lower())
            # ---- second operator set (numpy / dtype / statements) ---------------------------
            if isinstance(n, ast.Attribute) and isinstance(n.value, ast.Name) and n.value.id == "np" and n.attr in DTYPE_SWAP:
                emit(n, "np." + DTYPE_SWAP[n.attr], "2:dtype " + n.attr)
            if isinstance(n, ast.Attribute) and isinstance(n.value, ast.Name) and n.value.id == "np" and n.attr in FUNC_SWAP and isinstance(getattr(n, "ctx", None), ast.Load):
                emit(n, "np." + FUNC_SWAP[n.attr], "2:func np." + n.attr)
            if isinstance(n, ast.Call) and isinstance(n.func, ast.Name) and n.func.id in ("min", "max") and n.args:
                s0 = seg(n)
                if s0 and s0.startswith(n.func.id + "("):
                    emit(n, ("max" if n.func.id == "min" else "min") + s0[3:], "2:min/max")
            if isinstance(n, ast.Call) and isinstance(n.func, ast.Attribute) and n.func.attr == "astype" and len(n.args) == 1:
                o = seg(n.func.value)
                if o:
                    emit(n, o, "2:drop .astype()")
            if isinstance(n, ast.BinOp) and isinstance(n.op, (ast.FloorDiv, ast.Mod)):
                l, r = seg(n.left), seg(n.right)
                if l and r:
                    emit(n, f"{l} {'%' if isinstance(n.op, ast.FloorDiv) else '//'} {r}", "2://%")
            if isinstance(n, ast.BinOp) and isinstance(n.op, (ast.Mult, ast.Div)):
                l, r = seg(n.left), seg(n.right)
                if l and r:
                    emit(n, f"{l} {'/' if isinstance(n.op, ast.Mult) else '*'} {r}", "2:*/")
            if isinstance(n, ast.keyword) and n.arg == "axis" and isinstance(n.value, ast.Constant) and isinstance(n.value.value, int):
                emit(n.value, str(-1 if n.value.value == 0 else 0), "2:axis")
            if isinstance(n, ast.Expr) and isinstance(n.value, ast.Call) and id(n.value) not in skip_nodes and not (isinstance(n.value.func, ast.Name) and n.value.func.id in ("print",)):
                emit(n, "pass", "2:drop call stmt")
            if isinstance(n, (ast.Assign, ast.AugAssign)) and any(isinstance(t, (ast.Subscript, ast.Attribute)) for t in (n.targets if isinstance(n, ast.Assign) else [n.target])):
                emit(n, "pass", "2:drop store stmt")
            if isinstance(n, ast.AugAssign) and isinstance(n.op, (ast.Add, ast.Sub)):
                t, v = seg(n.target), seg(n.value)
                if t and v:
                    emit(n, f"{t} {'-=' if isinstance(n.op, ast.Add) else '+='} {v}", "2:+=/-=")
            if isinstance(n, ast.Return) and n.value is not None and isinstance(n.value, ast.Tuple) and len(n.value.elts) == 2:
                a_, b_ = seg(n.value.elts[0]), seg(n.value.elts[1])
                if a_ and b_:
                    emit(n, f"return {b_}, {a_}", "2:swap returned pair")
    return out


MUTS = mutants()


def job(args):
    i, prop = args
    m = MUTS[i]
    v = variants.Variant(f"{prop}-mut-{i}", "", "mutant", [(m["path"], m["old"], m["new"])])
    r = run_variant(prop, v, "quick")
    return i, prop, [x.split()[0] for x in (r.get("violations") or [])][:3], bool(r.get("undecided") or r.get("error"))


def run_tests(i):
    m = MUTS[i]
    d = tempfile.mkdtemp(prefix=f"mut_{i}_", dir="/tmp")
    try:
        for sub in ("panoptica", "unit_tests", "examples"):
            if os.path.isdir(os.path.join("/repo", sub)):
                shutil.copytree(os.path.join("/repo", sub), os.path.join(d, sub), ignore=shutil.ignore_patterns("__pycache__"))
        cur = open(os.path.join(d, m["path"])).read()
        if cur != m["old"]:
            return i, "skipped (repo differs from base)"
        open(os.path.join(d, m["path"]), "w").write(m["new"])
        env = dict(os.environ, PYTHONPATH=d, PANOPTICA_CITATION_REMINDER="false")
        try:
            r = subprocess.run(["/venv/bin/python", "-m", "pytest", "-q", "-x", "-p", "no:cacheprovider", "--timeout=300", "unit_tests", "-k", "not Test_Example_Scripts"], cwd=d, env=env, capture_output=True, text=True, timeout=900)
            tail = (r.stdout.strip().splitlines() or ["?"])[-1]
        except subprocess.TimeoutExpired:
            tail = "timeout"
        return i, tail
    finally:
        shutil.rmtree(d, ignore_errors=True)


if __name__ == "__main__":
    ap = argparse.ArgumentParser()
    ap.add_argument("--files", default="")
    ap.add_argument("--ops", default="", help="only mutants whose operator label starts with this prefix (the second set is labelled '2:')")
    ap.add_argument("--tests", action="store_true")
    ap.add_argument("--out", default="/tmp/mutation_probe.json")
    ap.add_argument("--resume", default="", help="reuse stage 1 of an earlier output file")
    a = ap.parse_args()
    idx = [i for i, m in enumerate(MUTS) if a.files in m["path"] and m["what"].startswith(a.ops)]
    print(f"{len(idx)} mutants", flush=True)
    by = {i: {"viol": {}, "und": []} for i in idx}
    if a.resume:
        for r in json.load(open(a.resume)):
            if r["i"] in by and MUTS[r["i"]]["line"] == r["line"] and MUTS[r["i"]]["what"] == r["what"]:
                by[r["i"]] = {"viol": r["caught_by"], "und": r["undecided"]}
    else:
        jobs = [(i, p) for i in idx for p in PROPS]
        with mp.get_context("fork").Pool(16) as pool:
            res = pool.map(job, jobs, chunksize=2)
        for i, prop, viol, und in res:
            if viol:
                by[i]["viol"][prop] = viol
            elif und:
                by[i]["und"].append(prop)
    missed = [i for i in idx if not by[i]["viol"]]
    tests = {}
    if a.tests and missed:
        with mp.get_context("fork").Pool(8) as pool:
            for i, tail in pool.imap_unordered(run_tests, missed):
                tests[i] = tail
    rows = []
    for i in idx:
        m = MUTS[i]
        line = m["new"].splitlines()[m["line"] - 1].strip()[:100]
        rows.append({"i": i, "path": m["path"], "line": m["line"], "what": m["what"], "src": line, "caught_by": by[i]["viol"], "undecided": by[i]["und"], "tests": tests.get(i)})
    json.dump(rows, open(a.out, "w"), indent=1)
    n_c = sum(1 for r in rows if r["caught_by"])
    n_u = sum(1 for r in rows if not r["caught_by"] and r["undecided"])
    print(f"caught {n_c}, undecided-only {n_u}, silent {len(rows) - n_c - n_u}")
    for r in rows:
        if not r["caught_by"] and (not a.tests or (r["tests"] and " passed" in r["tests"] and "failed" not in r["tests"])):
            print(f"{'UNDEC ' if r['undecided'] else 'SILENT'} {r['path']}:{r['line']} [{r['what']}] {r['src']}   tests={r['tests']} und={','.join(r['undecided'])}")
