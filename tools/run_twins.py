#!/venv/bin/python
"""Apply behaviour-preserving refactorings (twins/<set>/<name>/patch.diff or a directory of *.diff)
in scratch worktrees and run ALL claimed checks on each: every check must exit 0.
usage: run_twins.py <dir with .diff files> [<dir> ...]"""
import json, os, subprocess, sys, tempfile, shutil, glob
from concurrent.futures import ThreadPoolExecutor
V = os.path.dirname(os.path.dirname(os.path.abspath(__file__)))
claimed = [c["property_id"] for c in json.load(open(os.path.join(V, "MANIFEST.json")))["checks"]]
BASE = os.environ.get("BASE") or subprocess.run(["git", "-C", "/repo", "rev-parse", "HEAD"], capture_output=True, text=True).stdout.strip()

def run(patch):
    tag = os.path.basename(os.path.dirname(patch)) + "_" + os.path.basename(patch)[:-5]
    wt = tempfile.mkdtemp(prefix=f"wt_twin_{tag}_", dir="/tmp"); os.rmdir(wt)
    ev = tempfile.mkdtemp(prefix=f"ev_twin_{tag}_", dir="/tmp")
    res = {"twin": tag, "patch": patch, "bad": {}}
    try:
        subprocess.run(["git", "-C", "/repo", "worktree", "add", "-q", "--detach", wt, BASE], check=True, capture_output=True)
        ap = subprocess.run(["git", "-C", wt, "apply", patch], capture_output=True, text=True)
        if ap.returncode != 0:
            res["error"] = "patch does not apply: " + ap.stderr[:200]; return res
        env = dict(os.environ, VERIF_REPO=wt, VERIF_EVIDENCE_DIR=ev, VERIF_OUT_DIR=ev)
        for p in claimed:
            r = subprocess.run(["/venv/bin/python", "-m", "pstat", "check", p, "--tier", "quick"], cwd=V, env=env, capture_output=True, text=True)
            if r.returncode != 0:
                lines = [l for l in r.stdout.splitlines() if l.startswith(("VIOLATION", "ANALYSIS-ERROR", "  "))][:4]
                res["bad"][p] = {"exit": r.returncode, "lines": [l[:400] for l in lines]}
    finally:
        subprocess.run(["git", "-C", "/repo", "worktree", "remove", "--force", wt], capture_output=True)
        shutil.rmtree(ev, ignore_errors=True)
    return res

patches = []
for d in sys.argv[1:]:
    patches += sorted(glob.glob(os.path.join(d, "*.diff")))
with ThreadPoolExecutor(6) as ex:
    out = list(ex.map(run, patches))
for r in out:
    st = "SILENT" if not r["bad"] and "error" not in r else "ALARM"
    print(f"{st} {r['twin']} {r.get('error','')}")
    for p, b in r["bad"].items():
        print(f"    {p} exit={b['exit']}")
        for l in b["lines"]:
            print("       " + l)
json.dump(out, open("/tmp/twins/RESULTS.json", "w"), indent=1)
