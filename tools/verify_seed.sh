#!/bin/bash
# usage: verify_seed.sh <PROP> <a|b>  -- confirms a sub-agent's seeded change in a scratch worktree
PROP=$1; V=$2
S=${SEEDROOT:-/tmp/seeds}/$PROP
WT=/tmp/wt_verify_$PROP$V
rm -rf $WT; git -C /repo worktree prune; git -C /repo worktree add -q --detach $WT HEAD || exit 9
export PYTHONPATH=$WT PANOPTICA_CITATION_REMINDER=false
cd $WT
timeout 900 /venv/bin/python $S/demo_$V.py > $S/verify_${V}_clean.out 2>&1; rc_clean=$?
git apply $S/patch_$V.diff || { echo "$PROP $V APPLY-FAIL"; git -C /repo worktree remove --force $WT; exit 8; }
/venv/bin/python -m pytest -q -p no:cacheprovider --timeout=900 unit_tests 2>&1 | tail -1 > $S/verify_${V}_suite.out
timeout 900 /venv/bin/python $S/demo_$V.py > $S/verify_${V}_patched.out 2>&1; rc_patched=$?
suite=$(cat $S/verify_${V}_suite.out)
echo "$PROP $V demo_clean_rc=$rc_clean demo_patched_rc=$rc_patched suite='$suite'"
cd /; git -C /repo worktree remove --force $WT
