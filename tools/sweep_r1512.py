"""R15.12 false-alarm sweep: the rule applied to EVERY class of the clean tree, every twin and every right-done seed version (scratch copies under /tmp, removed); expected: 0 hits.  Usage: /venv/bin/python tools/sweep_r1512.py"""
import os, sys, subprocess, tempfile, shutil, glob
from multiprocessing import Pool
sys.path.insert(0,'/verif')
from pstat.model import Program
from pstat.rules import c15
def run(d):
    tmp=tempfile.mkdtemp(prefix='r1512_',dir='/tmp')
    try:
        subprocess.run(['git','-C','/repo','archive','--format=tar','-o',tmp+'/a.tar','HEAD','panoptica'],check=True)
        subprocess.run(['tar','-xf',tmp+'/a.tar','-C',tmp],check=True)
        if d:
            r=subprocess.run(['git','apply','--directory',tmp, '--unsafe-paths', d],cwd=tmp,capture_output=True,text=True)
            if r.returncode: 
                r=subprocess.run(['patch','-p1','-s','-i',d],cwd=tmp,capture_output=True,text=True)
                if r.returncode: return (d,'APPLY-FAIL')
        prog=Program.from_dir(tmp)
        tr=[]
        hits=c15.unbound_private_attrs(prog,list(prog.classes.values()),tr)
        return (d, sorted({(c.qual,x.attr) for c,_m,x in hits}), len(prog.classes), tr[:2])
    finally:
        shutil.rmtree(tmp,ignore_errors=True)
if __name__=='__main__':
    ds=[None]+sorted(glob.glob('/verif/pstat/corpus/twins/*.diff'))+sorted(glob.glob('/verif/seeded/*/patch_ok.diff'))
    with Pool(16) as p:
        res=p.map(run,ds)
    bad=[r for r in res if r[1]]
    print(len(res),'trees;',len(bad),'with hits or apply failures')
    for r in bad[:40]: print(r)
    print('clean:',res[0])
