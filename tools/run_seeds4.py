#!/venv/bin/python
"""Round-4 deliveries (a commit in an OK and a BAD version): run the checks on both, in memory.
  OK  version: every property's check must be silent (no violation, nothing undecided)
  BAD version: the check of the delivery's own property must report a violation
usage: run_seeds4.py [--root /tmp/seeds4] [C05 C07 ...] [--all-props-on-bad]
"""
import json, os, sys, time, traceback

V = os.path.dirname(os.path.dirname(os.path.abspath(__file__)))
sys.path.insert(0, V)
from pstat import variants  # noqa: E402
from pstat.model import AnchorMissing, Program, Undecided  # noqa: E402

PROPS = [f"C{i:02d}" for i in range(1, 21)]


def job(a):
    tag, diff, prop = a
    from pstat.__main__ import analyse
    import ast as _ast

    t0 = time.time()
    try:
        src = variants.base_sources()
        variants.apply_unified_diff(src, open(diff).read(), tag)
        for p, t in src.items():
            if p.endswith(".py"):
                _ast.parse(t)
        ctx = analyse(Program(src, root=f"<{tag}>"), prop, "quick")
        if ctx.new_violations:
            o = ctx.new_violations[0]
            return (tag, prop, "violation", f"{o.rule} {o.construct}: {o.desc} {json.dumps(o.witness, default=str)[:300] if o.witness else ''}"[:700], round(time.time() - t0, 1))
        if ctx.undecideds:
            o = ctx.undecideds[0]
            return (tag, prop, "undecided", f"{o.rule} {o.construct}: {o.desc}"[:500], round(time.time() - t0, 1))
        return (tag, prop, "silent", "", round(time.time() - t0, 1))
    except (AnchorMissing, Undecided) as e:
        return (tag, prop, "undecided", f"{type(e).__name__}: {e}"[:500], round(time.time() - t0, 1))
    except Exception as e:
        return (tag, prop, "error", "".join(traceback.format_exception_only(type(e), e)).strip()[:300] + " | " + traceback.format_exc()[-600:].replace("\n", " / "), round(time.time() - t0, 1))


def main():
    args = sys.argv[1:]
    root = "/tmp/seeds4"
    if "--root" in args:
        i = args.index("--root")
        root = args[i + 1]
        del args[i : i + 2]
    allbad = "--all-props-on-bad" in args
    args = [a for a in args if not a.startswith("--")]
    jobs = []
    for pid in sorted(os.listdir(root)):
        d = os.path.join(root, pid)
        if not os.path.isdir(d) or not pid.startswith("C") or (args and pid not in args):
            continue
        for v in "ab":
            ok, bad = os.path.join(d, f"patch_{v}_ok.diff"), os.path.join(d, f"patch_{v}_bad.diff")
            if os.path.isfile(ok):
                jobs += [(f"{pid}{v}:ok", ok, p) for p in PROPS]
            if os.path.isfile(bad):
                jobs += [(f"{pid}{v}:bad", bad, p) for p in (PROPS if allbad else [pid])]
    import multiprocessing as mp

    res = []
    with mp.get_context("fork").Pool(int(os.environ.get("JOBS", "12"))) as pool:
        for r in pool.imap_unordered(job, jobs):
            res.append(r)
    res.sort()
    n_ok_silent = sum(1 for r in res if r[0].endswith(":ok") and r[2] == "silent")
    n_ok = sum(1 for r in res if r[0].endswith(":ok"))
    print(f"OK versions: {n_ok_silent}/{n_ok} runs silent")
    for r in res:
        if r[0].endswith(":ok") and r[2] != "silent":
            print(f"  NOISE {r[0]} {r[1]} {r[2]}: {r[3]}")
    print("BAD versions (own property):")
    for r in res:
        if r[0].endswith(":bad") and r[1] == r[0][:3]:
            print(f"  {r[0]} {r[2].upper()} {r[3][:400]}")
    if allbad:
        print("BAD versions (other properties reporting):")
        for r in res:
            if r[0].endswith(":bad") and r[1] != r[0][:3] and r[2] != "silent":
                print(f"  {r[0]} {r[1]} {r[2]} {r[3][:200]}")
    json.dump(res, open(os.path.join(root, "RESULTS_checks.json"), "w"), indent=1)


if __name__ == "__main__":
    main()
