#!/venv/bin/python
"""debug helper: run one property's check on base corpus + diff, print every obligation that is not ok
usage: dbg_seed.py <diff> <prop> [--tb]"""
import os, sys, traceback
V = os.path.dirname(os.path.dirname(os.path.abspath(__file__)))
sys.path.insert(0, V)
from pstat import variants
from pstat.model import Program
from pstat.__main__ import analyse

diff, prop = sys.argv[1], sys.argv[2]
src = variants.base_sources()
variants.apply_unified_diff(src, open(diff).read(), "dbg")
try:
    ctx = analyse(Program(src, root="<dbg>"), prop, "quick")
except Exception:
    traceback.print_exc()
    sys.exit(2)
for o in ctx.new_violations:
    print("VIOL", o.rule, o.where, o.construct, o.desc, str(o.witness)[:600])
for o in ctx.undecideds:
    print("UNDEC", o.rule, o.where, o.construct, o.desc, str(o.witness)[:600])
print(len(ctx.obligations), "obligations")
