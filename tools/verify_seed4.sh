#!/bin/bash
# usage: verify_seed4.sh <PROP> <a|b>
# Confirms a round-4 delivery (a commit in an OK and a BAD version) in a scratch worktree:
#   demo exits 0 on clean and OK, non-zero on BAD; suite summary for OK and BAD; equiv digest clean == OK.
PROP=$1; V=$2
S=${SEEDROOT:-/tmp/seeds4}/$PROP
WT=/tmp/wt_verify4_$PROP$V
rm -rf $WT; git -C /repo worktree prune; git -C /repo worktree add -q --detach $WT ${BASE:-3b7fff9} || exit 9
export PYTHONPATH=$WT PANOPTICA_CITATION_REMINDER=false
cd $WT
timeout 1800 /venv/bin/python $S/demo_$V.py > $S/verify_${V}_clean.out 2>&1; rc_clean=$?
timeout 1800 /venv/bin/python $S/equiv_$V.py > $S/verify_${V}_equiv_clean.out 2>/dev/null
git apply $S/patch_${V}_ok.diff || { echo "$PROP $V OK-APPLY-FAIL"; cd /; git -C /repo worktree remove --force $WT; exit 8; }
git add -A -N . 2>/dev/null
/venv/bin/python -m pytest -q -p no:cacheprovider --timeout=900 unit_tests 2>&1 | tail -1 > $S/verify_${V}_suite_ok.out
timeout 1800 /venv/bin/python $S/demo_$V.py > $S/verify_${V}_ok.out 2>&1; rc_ok=$?
timeout 1800 /venv/bin/python $S/equiv_$V.py > $S/verify_${V}_equiv_ok.out 2>/dev/null
if cmp -s $S/verify_${V}_equiv_clean.out $S/verify_${V}_equiv_ok.out; then eq=same; else eq=DIFFERENT; fi
eqsize=$(wc -c < $S/verify_${V}_equiv_clean.out)
git reset -q; git checkout -q -- .; git clean -fdq
git apply $S/patch_${V}_bad.diff || { echo "$PROP $V BAD-APPLY-FAIL"; cd /; git -C /repo worktree remove --force $WT; exit 8; }
/venv/bin/python -m pytest -q -p no:cacheprovider --timeout=900 unit_tests 2>&1 | tail -1 > $S/verify_${V}_suite_bad.out
timeout 1800 /venv/bin/python $S/demo_$V.py > $S/verify_${V}_bad.out 2>&1; rc_bad=$?
echo "$PROP $V demo clean=$rc_clean ok=$rc_ok bad=$rc_bad equiv=$eq($eqsize bytes) suite_ok='$(cat $S/verify_${V}_suite_ok.out)' suite_bad='$(cat $S/verify_${V}_suite_bad.out)'"
cd /; git -C /repo worktree remove --force $WT
