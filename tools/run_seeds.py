#!/venv/bin/python
"""Apply every seeded change (seeded/<id>/patch.diff) in its own scratch worktree of /repo at the
seed's base commit and run the check of its property there.  Nothing in /repo is modified.
usage: run_seeds.py [ids...]   ->  seeded/RESULTS.json + table on stdout"""
import json, os, subprocess, sys, tempfile, shutil
from concurrent.futures import ThreadPoolExecutor
V = os.path.dirname(os.path.dirname(os.path.abspath(__file__)))
claimed = {c["property_id"] for c in json.load(open(os.path.join(V, "MANIFEST.json")))["checks"]}

def run(sid):
    d = os.path.join(V, "seeded", sid)
    meta = json.load(open(os.path.join(d, "meta.json")))
    prop = meta["property"]
    wt = tempfile.mkdtemp(prefix=f"wt_seed_{sid}_", dir="/tmp")
    os.rmdir(wt)
    ev = tempfile.mkdtemp(prefix=f"ev_seed_{sid}_", dir="/tmp")
    res = {"id": sid, "property": prop}
    try:
        subprocess.run(["git", "-C", "/repo", "worktree", "add", "-q", "--detach", wt, meta["base_commit"]], check=True, capture_output=True)
        ap = subprocess.run(["git", "-C", wt, "apply", os.path.join(d, "patch.diff")], capture_output=True, text=True)
        if ap.returncode != 0:
            res["error"] = "patch does not apply: " + ap.stderr[:200]
            return res
        env = dict(os.environ, VERIF_REPO=wt, VERIF_EVIDENCE_DIR=ev, VERIF_OUT_DIR=ev)
        props = [prop] if prop in claimed else []
        extra = [p for p in meta.get("also_check", []) if p in claimed]
        for p in props + extra:
            r = subprocess.run(["/venv/bin/python", "-m", "pstat", "check", p, "--tier", "quick"], cwd=V, env=env, capture_output=True, text=True)
            rules = sorted({ln.split("rule=")[1].split()[0] for ln in r.stdout.splitlines() if "rule=" in ln and not ln.startswith("ANALYSIS")})
            res[p] = {"exit": r.returncode, "rules": rules[:8]}
        if not props:
            res["note"] = "property not claimed"
    finally:
        subprocess.run(["git", "-C", "/repo", "worktree", "remove", "--force", wt], capture_output=True)
        shutil.rmtree(ev, ignore_errors=True)
    return res

ids = sys.argv[1:] or sorted(x for x in os.listdir(os.path.join(V, "seeded")) if os.path.isdir(os.path.join(V, "seeded", x)))
with ThreadPoolExecutor(8) as ex:
    out = list(ex.map(run, ids))
json.dump(out, open(os.path.join(V, "seeded", "RESULTS.json"), "w"), indent=1)
for r in out:
    p = r["property"]
    st = r.get(p, {})
    print(f"{r['id']:6s} {p} exit={st.get('exit', '-')} rules={','.join(st.get('rules', []))} {r.get('error', r.get('note', ''))}")
