#!/venv/bin/python
"""Systematic probe: for every call in the package that passes a prediction-side and a
reference-side argument, build the variant with the two swapped (in memory, on the frozen base
corpus) and run every property's check on it.  Prints the variants no check reports; those are
either equivalent (symmetric callee) or a gap of the rules.
usage: swap_probe.py [substring-of-file]"""
import ast, os, sys, json, multiprocessing as mp

V = os.path.dirname(os.path.dirname(os.path.abspath(__file__)))
sys.path.insert(0, V)
from pstat import variants  # noqa
from pstat.__main__ import PROPS, run_variant  # noqa


def side(e):
    t = ast.unparse(e).lower()
    p = "pred" in t or "result" in t
    r = "ref" in t
    if p and not r:
        return "P"
    if r and not p:
        return "R"
    return None


def sites():
    out = []
    for path, text in sorted(variants.base_sources().items()):
        if not path.endswith(".py"):
            continue
        tree = ast.parse(text)
        lines = text.splitlines(keepends=True)
        offs = [0]
        for ln in lines:
            offs.append(offs[-1] + len(ln.encode()))
        btext = text.encode()

        def span(n):
            return offs[n.lineno - 1] + n.col_offset, offs[n.end_lineno - 1] + n.end_col_offset

        for c in ast.walk(tree):
            if not isinstance(c, ast.Call):
                continue
            vals = [a for a in c.args if not isinstance(a, ast.Starred)] + [k.value for k in c.keywords if k.arg]
            ps = [v for v in vals if side(v) == "P"]
            rs = [v for v in vals if side(v) == "R"]
            if len(ps) >= 1 and len(rs) >= 1:
                a, b = ps[0], rs[0]
                (s1, e1), (s2, e2) = sorted([span(a), span(b)])
                if e1 > s2:
                    continue
                new = btext[:s1] + btext[s2:e2] + btext[e1:s2] + btext[s1:e1] + btext[e2:]
                out.append((path, c.lineno, ast.unparse(c)[:90], text, new.decode()))
    return out


def job(args):
    i, prop = args
    path, ln, txt, old, new = SITES[i]
    v = variants.Variant(f"{prop}-swap-{i}", "", "mutant", [(path, old, new)])
    r = run_variant(prop, v, "quick")
    return i, prop, bool(r.get("violations")), bool(r.get("undecided") or r.get("error"))


SITES = sites()
if __name__ == "__main__":
    flt = sys.argv[1] if len(sys.argv) > 1 else ""
    idx = [i for i, s in enumerate(SITES) if flt in s[0]]
    jobs = [(i, p) for i in idx for p in PROPS]
    with mp.get_context("fork").Pool(16) as pool:
        res = pool.map(job, jobs, chunksize=4)
    by = {}
    for i, prop, viol, und in res:
        d = by.setdefault(i, {"viol": [], "und": []})
        if viol:
            d["viol"].append(prop)
        elif und:
            d["und"].append(prop)
    for i in idx:
        path, ln, txt, _, _ = SITES[i]
        d = by[i]
        tag = "CAUGHT" if d["viol"] else ("UNDECIDED" if d["und"] else "MISSED")
        print(f"{tag:9s} {path}:{ln}  {txt}   viol={','.join(d['viol'])} und={','.join(d['und'])}")
