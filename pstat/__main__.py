"""Driver:  python -m pstat check <id> --tier quick|thorough
            python -m pstat replay <path>
            python -m pstat selftest [<id> ...]
            python -m pstat --self-check

Exit codes: 0 property holds on everything analysed (known findings are printed),
            1 violation (a line `VIOLATION property=<id> replay=<path>` per finding),
            2 undecided / analysis error (`ANALYSIS-ERROR property=<id> ...`).
"""

from __future__ import annotations

import argparse
import importlib
import json
import os
import sys
import time
import traceback

from . import variants
from .model import AnchorMissing, Program, Undecided
from .report import VERIF_DIR, Ctx, load_known_findings, write_replay

PROPS = [f"C{i:02d}" for i in range(1, 21)]


def rule_module(prop: str):
    return importlib.import_module(f"pstat.rules.{prop.lower()}")


def analyse(prog: Program, prop: str, tier: str) -> Ctx:
    ctx = Ctx(prog, prop, tier)
    if prog.parse_errors:
        raise AnchorMissing("syntax errors: " + "; ".join(prog.parse_errors))
    rule_module(prop).check(ctx)
    if not any(r.startswith("R15.7") for r in ctx.instances):
        # frame condition of every abstract run: the interpreter starts each run from the module-level
        # state the source declares, which is only right if nothing observable is carried between calls there
        from .rules import c03, c15

        c03._guarded(ctx, "R15.7", c15.check_globals)
    if not any(r.startswith("R15.11") for r in ctx.instances):
        # ... and the function / alias tables the rules read off the source bind what they appear to bind
        from .rules import c03, c15

        c03._guarded(ctx, "R15.11", c15.check_late_binding)
    if ctx.undecideds and not ctx.violations:
        # a run that could not be modelled because the code cannot run (an attribute nothing binds) is a violation
        from .rules import c15

        try:
            c15.diagnose_undecided(ctx)
        except Exception:  # the diagnosis is an extra: without it the check stays undecided
            pass
    return ctx


def run_variant(prop: str, v: "variants.Variant", tier: str) -> dict:
    """Apply a variant to the frozen base corpus in memory and analyse it."""
    t0 = time.time()
    try:
        src = variants.apply(v)
        prog = Program(src, root="<corpus:" + v.vid + ">")
        # variants show that a rule is alive / not brittle: the quick configuration set suffices
        ctx = analyse(prog, prop, "quick")
        viol = [o for o in ctx.new_violations]
        und = ctx.undecideds
        res = {
            "id": v.vid,
            "kind": v.kind,
            "expect": v.rule,
            "violations": [f"{o.rule} {o.construct}" for o in viol],
            "undecided": [f"{o.rule} {o.construct}: {o.desc}" for o in und],
        }
        if v.kind == "mutant":
            hit = [o for o in viol if o.rule.startswith(v.rule)]
            res["ok"] = bool(hit)
        elif v.kind == "mutant-undecided":
            res["ok"] = bool(und) or bool(viol)
        else:  # twin
            res["ok"] = not viol and not und
    except (AnchorMissing, Undecided) as e:
        res = {"id": v.vid, "kind": v.kind, "expect": v.rule, "ok": v.kind == "mutant-undecided", "error": f"{type(e).__name__}: {e}"}
    except Exception as e:  # checker bug
        res = {"id": v.vid, "kind": v.kind, "expect": v.rule, "ok": False, "error": "".join(traceback.format_exception_only(type(e), e)).strip(), "trace": traceback.format_exc()}
    res["wall_s"] = round(time.time() - t0, 3)
    return res


def _variant_job(args):
    prop, vid, tier = args
    v = variants.by_id(vid)
    return run_variant(prop, v, tier)


def run_variants(prop: str, tier: str, only_controls: bool) -> list[dict]:
    vs = [v for v in variants.for_property(prop) if (v.control or not only_controls)]
    if not vs:
        return []
    jobs = [(prop, v.vid, tier) for v in vs]
    if len(jobs) > 6:
        import multiprocessing as mp

        with mp.get_context("fork").Pool(min(16, len(jobs))) as pool:
            return pool.map(_variant_job, jobs)
    return [_variant_job(j) for j in jobs]


def cmd_check(prop: str, tier: str) -> int:
    t0 = time.time()
    repo = os.environ.get("VERIF_REPO", "/repo")
    seed = int(os.environ.get("VERIF_SEED", "0") or 0)
    evid_path = os.path.join(os.environ.get("VERIF_EVIDENCE_DIR") or os.path.join(VERIF_DIR, "evidence"), f"{prop}.json")
    os.makedirs(os.path.dirname(evid_path), exist_ok=True)
    mod = rule_module(prop)
    status = 0
    lines: list[str] = []
    err = None
    ctx = None
    try:
        extra = ["examples", "benchmark"] if tier == "thorough" else []
        extra = [d for d in extra if os.path.isdir(os.path.join(repo, d))]
        prog = Program.from_dir(repo, extra)
        ctx = analyse(prog, prop, tier)
    except (AnchorMissing, Undecided) as e:
        err = f"{type(e).__name__}: {e}"
    except Exception as e:
        err = "checker exception: " + "".join(traceback.format_exception_only(type(e), e)).strip()
        traceback.print_exc(file=sys.stderr)

    known = load_known_findings()
    known_keys = {k["key"]: k for k in known.get("known", []) if k.get("property") == prop}
    n_viol = 0
    n_known = 0
    if ctx is not None:
        for ob in ctx.violations:
            if ob.key in known_keys:
                n_known += 1
                lines.append(f"KNOWN-FINDING: property={prop} {ob.construct}: {known_keys[ob.key].get('what_fails', ob.desc)}")
            else:
                n_viol += 1
                if n_viol <= 25:
                    path = write_replay(prop, ob, repo)
                    lines.append(f"VIOLATION property={prop} replay={path}")
                    lines.append("  " + ob.line())
        if n_viol > 25:
            lines.append(f"  ... and {n_viol - 25} further violations of {prop} (see evidence file)")
        if n_viol:
            status = 1
        elif ctx.undecideds:
            status = 2
            for ob in ctx.undecideds:
                lines.append(f"ANALYSIS-ERROR property={prop} undecided: " + ob.line())
    if err is not None and status == 0:
        status = 2
        lines.append(f"ANALYSIS-ERROR property={prop} {err}")

    # liveness of the rules: controls (quick) / full variant corpus (thorough)
    vres = run_variants(prop, tier, only_controls=(tier != "thorough"))
    bad = [r for r in vres if not r["ok"]]
    if bad and status == 0:
        status = 2
    for r in bad:
        lines.append(f"ANALYSIS-ERROR property={prop} self-test variant {r['id']} ({r['kind']}, expects {r['expect']}) gave violations={r.get('violations')} undecided={r.get('undecided')} error={r.get('error')}")

    # evidence
    obs = ctx.obligations if ctx is not None else []
    discharged = [o for o in obs if o.status == "ok"]
    nontrivial = {o.key for o in obs if o.nontrivial}
    samples = [o.as_sample() for o in obs if o.status != "ok"][:10]
    seen_rules = set()
    for o in obs:
        if o.rule not in seen_rules and o.nontrivial:
            seen_rules.add(o.rule)
            samples.append(o.as_sample())
        if len(samples) >= 40:
            break
    info = getattr(mod, "INFO", {})
    evidence = {
        "property_id": prop,
        "tier": tier,
        "seed": seed,
        "level": "other",
        "coverage": {
            "explanation": info.get("explanation", "static analysis of /repo sources"),
            "rule": "one obligation per (rule, construct, clause); non-trivial = its verdict needed a derivation (truth table, path condition, polynomial identity, dataflow fact), distinct = distinct (rule, construct, clause) key",
            "evaluations": len(obs) + len(vres),
            "distinct_nontrivial": len(nontrivial),
            "obligations": len(obs),
            "discharged": len(discharged),
            "undecided": len(obs) - len(discharged) - len([o for o in obs if o.status == "violated"]),
            "violated": len([o for o in obs if o.status == "violated"]),
            "known_findings": n_known,
            "rule_instances": dict(sorted(ctx.instances.items())) if ctx else {},
            "functions_analysed": sorted(ctx.analysed_functions) if ctx else [],
            "unrecognised": ctx.unrecognised[:50] if ctx else [],
            "selftest_variants": {"run": len(vres), "mutants_detected": len([r for r in vres if r["kind"].startswith("mutant") and r["ok"]]), "twins_silent": len([r for r in vres if r["kind"] == "twin" and r["ok"]]), "failed": [r["id"] for r in bad]},
            "samples": samples if samples else [{"note": "no obligations produced", "error": err}],
            "exhaustive": bool(ctx is not None and not ctx.undecideds and err is None),
            "checker_cmd": f"/venv/bin/python -m pstat check {prop} --tier {tier}",
            "trusted_base": info.get("trusted_base", []),
            "repo": repo,
            "not_decided": info.get("not_decided", []),
        },
        "assumptions": info.get("assumptions", []),
        "wall_s": round(time.time() - t0, 3),
        "violations": n_viol,
    }
    if err:
        evidence["coverage"]["analysis_error"] = err
    with open(evid_path, "w", encoding="utf8") as fh:
        json.dump(evidence, fh, indent=1, default=str)
    for ln in lines:
        print(ln)
    nobs = len(obs)
    print(f"[pstat] {prop} tier={tier} obligations={nobs} discharged={len(discharged)} violations={n_viol} known={n_known} variants={len(vres)} (failed {len(bad)}) exit={status} wall={evidence['wall_s']}s")
    return status


def cmd_replay(path: str) -> int:
    with open(path, "r", encoding="utf8") as fh:
        rp = json.load(fh)
    prop = rp["property"]
    repo = os.environ.get("VERIF_REPO", rp.get("repo", "/repo"))
    try:
        prog = Program.from_dir(repo)
        ctx = analyse(prog, prop, "quick")
    except (AnchorMissing, Undecided) as e:
        print(f"ANALYSIS-ERROR property={prop} {type(e).__name__}: {e}")
        return 2
    for ob in ctx.violations:
        if ob.key == rp["key"]:
            print(f"VIOLATION property={prop} replay={path}")
            print("  " + ob.line())
            return 1
    print(f"[pstat] replay: finding {rp['rule']} {rp['construct']} no longer reported on {repo}")
    return 0


def cmd_selftest(props: list[str]) -> int:
    bad_total = 0
    for prop in props or PROPS:
        try:
            rule_module(prop)
        except ModuleNotFoundError:
            continue
        # base must be silent
        try:
            base = Program(variants.base_sources(), root="<corpus:base>")
            ctx = analyse(base, prop, "thorough")
            if ctx.new_violations or ctx.undecideds:
                bad_total += 1
                print(f"{prop} BASE not silent: " + "; ".join(o.line() for o in ctx.new_violations + ctx.undecideds))
        except Exception as e:
            bad_total += 1
            print(f"{prop} BASE error {type(e).__name__}: {e}")
        res = run_variants(prop, "thorough", only_controls=False)
        for r in res:
            tag = "ok " if r["ok"] else "BAD"
            if not r["ok"]:
                bad_total += 1
            print(f"{prop} {tag} {r['kind']:7s} {r['id']:40s} expect={r['expect']} got={r.get('violations')} und={r.get('undecided')} {r.get('error', '')} {r['wall_s']}s")
            if not r["ok"] and r.get("trace"):
                print(r["trace"])
    print(f"[pstat] selftest failures: {bad_total}")
    return 0 if bad_total == 0 else 2


def cmd_self_check() -> int:
    import pstat.absval, pstat.flow, pstat.model, pstat.poly  # noqa

    n = 0
    for p in PROPS:
        try:
            rule_module(p)
            n += 1
        except ModuleNotFoundError:
            pass
    base = variants.base_sources()
    Program(base)
    print(f"[pstat] self-check ok: {n} rule modules, base corpus {len(base)} files")
    return 0


def main(argv=None) -> int:
    ap = argparse.ArgumentParser(prog="pstat")
    ap.add_argument("--self-check", action="store_true")
    sub = ap.add_subparsers(dest="cmd")
    c = sub.add_parser("check")
    c.add_argument("prop")
    c.add_argument("--tier", default=os.environ.get("VERIF_TIER", "quick"), choices=["quick", "thorough"])
    r = sub.add_parser("replay")
    r.add_argument("path")
    s = sub.add_parser("selftest")
    s.add_argument("props", nargs="*")
    vv = sub.add_parser("variant")
    vv.add_argument("vids", nargs="+")
    tw = sub.add_parser("twins", help="run every property's check on the independent refactorings whose name contains PATTERN")
    tw.add_argument("pattern", nargs="?", default="")
    a = ap.parse_args(argv)
    try:
        if a.self_check:
            return cmd_self_check()
        if a.cmd == "check":
            return cmd_check(a.prop, a.tier)
        if a.cmd == "replay":
            return cmd_replay(a.path)
        if a.cmd == "selftest":
            return cmd_selftest(a.props)
        if a.cmd == "twins":
            import multiprocessing as mp

            jobs = []
            for prop in PROPS:
                for v in variants.for_property(prop):
                    if (v.diff and a.pattern in v.diff) or (v.rename and a.pattern.startswith("rename") and "-r-" in v.vid and a.pattern[7:] in v.rename[0]) or (v.rename and a.pattern.startswith("attr") and "-a-" in v.vid and a.pattern[5:] in v.rename[0]):
                        jobs.append((prop, v.vid, "thorough"))
            with mp.get_context("fork").Pool(16) as pool:
                res = pool.map(_variant_job, jobs)
            bad = [r for r in res if not r["ok"]]
            for r in bad:
                print(f"BAD {r['id']} got={r.get('violations')} und={(r.get('undecided') or [])[:3]} {r.get('error', '')}"[:700])
            print(f"[pstat] twins: {len(res)} runs, {len(bad)} not silent")
            return 0 if not bad else 2
        if a.cmd == "variant":
            rc = 0
            for vid in a.vids:
                r = run_variant(vid.split("-")[0], variants.by_id(vid), "thorough")
                print(json.dumps({k: v for k, v in r.items() if k != "trace"}, indent=1))
                if r.get("trace"):
                    print(r["trace"])
                rc = rc or (0 if r["ok"] else 2)
            return rc
        ap.print_help()
        return 2
    except SystemExit:
        raise
    except Exception as e:
        traceback.print_exc(file=sys.stderr)
        print(f"ANALYSIS-ERROR property={getattr(a, 'prop', '?')} driver exception {type(e).__name__}: {e}")
        return 2


if __name__ == "__main__":
    sys.exit(main())
