"""SYMINT: sign reasoning on polynomials over non-negative integer unknowns.

A fact about symbolic integers (labels, counters, indices) is decided by rewriting every
unknown as  lower bound + fresh non-negative variable  and applying the sign test:
a polynomial whose coefficients are all >= 0 with a positive constant term is > 0 for every
valuation; all <= 0 with constant <= 0 is <= 0; etc.  A refutation is only reported with a
concrete witness valuation (searched over a small grid), so both verdicts are exact; anything
else is undecided.
"""

from __future__ import annotations

import itertools
from fractions import Fraction
from typing import Optional

from .poly import Poly, to_poly


def sign_definitely_positive(p: Poly) -> bool:
    p = to_poly(p)
    return p.nonneg_coeffs() and p.const_value() > 0


def sign_definitely_nonneg(p: Poly) -> bool:
    return to_poly(p).nonneg_coeffs()


def sign_definitely_negative(p: Poly) -> bool:
    return sign_definitely_positive(-to_poly(p))


def sign_definitely_nonpos(p: Poly) -> bool:
    return sign_definitely_nonneg(-to_poly(p))


def evaluate(p: Poly, val: dict[str, int]) -> Fraction:
    total = Fraction(0)
    for m, c in p.terms.items():
        t = c
        for v, e in m:
            t *= Fraction(val.get(v, 0)) ** e
        total += t
    return total


def find_witness(pred, variables: list[str], grid=(0, 1, 2, 3, 7)) -> Optional[dict[str, int]]:
    """Search a small grid of non-negative valuations for one satisfying pred(valuation)."""
    vs = sorted(variables)
    if len(vs) > 6:
        grid = (0, 1, 2)
    for vals in itertools.product(grid, repeat=len(vs)):
        val = dict(zip(vs, vals))
        try:
            if pred(val):
                return val
        except ZeroDivisionError:
            continue
    return None


def decide_cmp(op: str, lhs: Poly, rhs: Poly, want: bool):
    """Decide whether `lhs op rhs` has truth value `want` for every non-negative valuation.
    Returns (True, None) proven, (False, witness) refuted, (None, None) undecided."""
    d = to_poly(lhs) - to_poly(rhs)
    proven = {
        ">": sign_definitely_positive(d),
        ">=": sign_definitely_nonneg(d),
        "<": sign_definitely_negative(d),
        "<=": sign_definitely_nonpos(d),
        "==": d.is_zero(),
        "!=": sign_definitely_positive(d) or sign_definitely_negative(d),
    }
    neg = {">": "<=", ">=": "<", "<": ">=", "<=": ">", "==": "!=", "!=": "=="}
    target = op if want else neg[op]
    if proven[target]:
        return True, None

    def holds(val, o=target):
        x = evaluate(d, val)
        return {">": x > 0, ">=": x >= 0, "<": x < 0, "<=": x <= 0, "==": x == 0, "!=": x != 0}[o]

    w = find_witness(lambda v: not holds(v), sorted(d.variables()))
    if w is not None:
        return False, w
    return None, None


def divide(code: Poly, modulus: Poly, var: str) -> Optional[tuple[Poly, Poly]]:
    """Polynomial division of `code` by `modulus` in the variable `var`; modulus must be
    monic and linear in var (var + c).  Returns (quotient, remainder) with remainder free of
    var, or None."""
    # modulus = var + c
    lin = Poly({m: c for m, c in modulus.terms.items() if m == ((var, 1),)})
    rest = modulus - lin
    if lin != Poly.var(var) or var in rest.variables():
        return None
    # code = sum_k a_k var^k ;  Horner division by (var + rest)
    coeffs: dict[int, Poly] = {}
    for m, c in code.terms.items():
        k = 0
        other = []
        for v, e in m:
            if v == var:
                k = e
            else:
                other.append((v, e))
        coeffs[k] = coeffs.get(k, Poly()) + Poly({tuple(other): c})
    deg = max(coeffs) if coeffs else 0
    q_coeffs: dict[int, Poly] = {}
    carry = Poly()
    for k in range(deg, 0, -1):
        cur = coeffs.get(k, Poly()) + carry
        q_coeffs[k - 1] = cur
        carry = -(cur * rest)
    rem = coeffs.get(0, Poly()) + carry
    quo = Poly()
    for k, c in q_coeffs.items():
        term = c
        for _ in range(k):
            term = term * Poly.var(var)
        quo = quo + term
    if (quo * modulus + rem - code).is_zero():
        return quo, rem
    return None
