"""Obligations, findings, evidence and known-findings handling."""

from __future__ import annotations

import ast
import hashlib
import json
import os
from dataclasses import dataclass, field
from typing import Any, Optional

from .model import AnchorMissing, Func, Program, Undecided, norm

VERIF_DIR = os.path.dirname(os.path.dirname(os.path.abspath(__file__)))


@dataclass
class Obligation:
    rule: str
    where: str  # file:line qualified-function
    construct: str  # stable identification (no line numbers)
    desc: str
    status: str  # ok | violated | undecided
    witness: Any = None
    nontrivial: bool = True

    @property
    def key(self) -> str:
        h = hashlib.sha1(f"{self.rule}|{self.construct}|{self.desc}".encode()).hexdigest()
        return h[:12]

    def line(self) -> str:
        w = f" witness={json.dumps(self.witness, default=str, sort_keys=True)}" if self.witness is not None else ""
        return f"{self.where} rule={self.rule} construct={self.construct} obligation=\"{self.desc}\"{w}"

    def as_sample(self) -> dict:
        d = {"rule": self.rule, "where": self.where, "construct": self.construct, "obligation": self.desc, "verdict": self.status}
        if self.witness is not None:
            d["witness"] = json.loads(json.dumps(self.witness, default=str))
        return d


class Ctx:
    """Collects obligations for one property on one Program."""

    def __init__(self, prog: Program, prop: str, tier: str = "quick"):
        self.prog = prog
        self.prop = prop
        self.tier = tier
        self.obligations: list[Obligation] = []
        self.unrecognised: list[str] = []
        self.analysed_functions: set[str] = set()
        self.call_sites: int = 0
        self.notes: list[str] = []
        self.instances: dict[str, int] = {}

    # -- recording ----------------------------------------------------------------------
    def where(self, f: Optional[Func], node: Optional[ast.AST] = None) -> str:
        if f is None:
            return "<package>"
        self.analysed_functions.add(f.qual)
        return f"{f.loc(node)} {f.qual}"

    def add(self, rule: str, f: Optional[Func], node: Optional[ast.AST], construct: str, desc: str, status: str, witness=None, nontrivial=True) -> Obligation:
        ob = Obligation(rule, self.where(f, node), construct, desc, status, witness, nontrivial)
        self.obligations.append(ob)
        self.instances[rule] = self.instances.get(rule, 0) + 1
        return ob

    def ok(self, rule, f, node, construct, desc, witness=None, nontrivial=True):
        return self.add(rule, f, node, construct, desc, "ok", witness, nontrivial)

    def violated(self, rule, f, node, construct, desc, witness=None):
        # a verdict that rests on a value the analysis could not model is not a verdict: the
        # witness shows an Unknown(...) where a modelled value was expected -> undecided
        if witness is not None and "Unknown(" in repr(witness):
            return self.add(rule, f, node, construct, desc + " [not decided: the compared value contains an unmodelled part]", "undecided", witness, True)
        return self.add(rule, f, node, construct, desc, "violated", witness, True)

    def undecided(self, rule, f, node, construct, desc, witness=None):
        return self.add(rule, f, node, construct, desc, "undecided", witness, True)

    def decide(self, rule, f, node, construct, desc, verdict: Optional[bool], witness=None, nontrivial=True):
        """verdict True -> ok, False -> violated, None -> undecided."""
        if verdict is True:
            return self.ok(rule, f, node, construct, desc, witness if witness is not None else None, nontrivial)
        if verdict is False:
            return self.violated(rule, f, node, construct, desc, witness)
        return self.undecided(rule, f, node, construct, desc, witness)

    def floor(self, rule: str, minimum: int, what: str):
        """Instance floor: a rule that matches fewer sites than confirmed by hand is an
        analysis error, never a silent pass."""
        n = self.instances.get(rule, 0)
        if n < minimum:
            self.undecided(rule + ".floor", None, None, f"floor:{rule}", f"rule matched {n} {what}, confirmed floor is {minimum}")

    def note_unrecognised(self, text: str):
        self.unrecognised.append(text)

    # -- summary ------------------------------------------------------------------------
    @property
    def violations(self) -> list[Obligation]:
        return [o for o in self.obligations if o.status == "violated"]

    @property
    def new_violations(self) -> list[Obligation]:
        """violations that are not listed as known findings of this property"""
        known = {k["key"] for k in load_known_findings().get("known", []) if k.get("property") == self.prop}
        return [o for o in self.violations if o.key not in known]

    @property
    def undecideds(self) -> list[Obligation]:
        return [o for o in self.obligations if o.status == "undecided"]


def load_known_findings() -> dict:
    p = os.path.join(VERIF_DIR, "known_findings.json")
    if not os.path.exists(p):
        return {"known": [], "fixed": []}
    with open(p, "r", encoding="utf8") as fh:
        return json.load(fh)


def write_replay(prop: str, ob: Obligation, repo: str) -> str:
    d = os.path.join(os.environ.get("VERIF_OUT_DIR") or os.path.join(VERIF_DIR, "out"), "replay")
    os.makedirs(d, exist_ok=True)
    path = os.path.join(d, f"{prop}-{ob.rule}-{ob.key}.json")
    with open(path, "w", encoding="utf8") as fh:
        json.dump(
            {
                "property": prop,
                "rule": ob.rule,
                "key": ob.key,
                "where": ob.where,
                "construct": ob.construct,
                "obligation": ob.desc,
                "witness": json.loads(json.dumps(ob.witness, default=str)),
                "repo": repo,
                "redecide": f"cd {VERIF_DIR} && VERIF_REPO={repo} /venv/bin/python -m pstat replay {path}",
            },
            fh,
            indent=1,
        )
    return path
