"""Scalar replacement of local helper objects (a behaviour-preserving normalisation of the parsed trees).

A function that creates an object of a small module-level helper class, keeps it in one local
variable and only talks to it through its methods (`x.m(..)`, `k in x`, `x.field`) computes the same
as the function with the object's fields as local variables and the method bodies written out at the
call sites.  The rules that read a matcher loop (path conditions, score dictionary, mirror index ...)
are written for the latter form; this pass brings the former into it, so that moving bookkeeping
into a private class is not a reason to lose (or to raise) a verdict.

The pass is applied only when it is obviously sound:
  * the class is defined at module level in the same module, has no bases (other than object), no
    decorators, no class attributes other than __slots__/docstring/annotations without value;
  * __init__ (if any) takes only self and consists of  self.f = <expr> / self.f: T = <expr>  with
    <expr> not mentioning self;  every other method is undecorated, takes only positional-or-keyword
    parameters without defaults, mentions `self` only as `self.f`, assigns no local names, has no
    control flow, and is  <simple statements>* [return <expr>];
  * the local is bound exactly once in the function (`x = C()`), is not used in nested functions,
    and every other use is a method call with plain names/constants as arguments, a membership test
    (class has __contains__), or a field read;
  * a method used in expression position consists of a single return.
Anything else leaves the function untouched.
"""

from __future__ import annotations

import ast
import copy
from typing import Optional

_SIMPLE_STMT = (ast.Expr, ast.Assign, ast.AugAssign, ast.AnnAssign)


def _doc_stripped(body):
    if body and isinstance(body[0], ast.Expr) and isinstance(body[0].value, ast.Constant) and isinstance(body[0].value.value, str):
        return body[1:]
    return body


def _only_self_fields(node: ast.AST, self_name: str) -> bool:
    """`self` occurs only as self.<field>"""
    parents = {}
    for p in ast.walk(node):
        for c in ast.iter_child_nodes(p):
            parents[id(c)] = p
    for n in ast.walk(node):
        if isinstance(n, ast.Name) and n.id == self_name:
            p = parents.get(id(n))
            if not (isinstance(p, ast.Attribute) and p.value is n):
                return False
    return True


class _HelperClass:
    def __init__(self, node: ast.ClassDef):
        self.node = node
        self.name = node.name
        self.ok = False
        self.fields: list[tuple[str, ast.expr]] = []
        self.methods: dict[str, tuple[list[str], list[ast.stmt], Optional[ast.expr]]] = {}
        self._analyse()

    def _analyse(self):
        c = self.node
        if c.decorator_list or c.keywords or any(not (isinstance(b, ast.Name) and b.id == "object") for b in c.bases):
            return
        for st in _doc_stripped(c.body):
            if isinstance(st, ast.FunctionDef):
                if not self._method(st):
                    return
            elif isinstance(st, ast.Assign) and len(st.targets) == 1 and isinstance(st.targets[0], ast.Name) and st.targets[0].id == "__slots__":
                continue
            elif isinstance(st, ast.AnnAssign) and st.value is None:
                continue
            elif isinstance(st, ast.Pass):
                continue
            else:
                return
        self.ok = True

    def _method(self, f: ast.FunctionDef) -> bool:
        a = f.args
        if f.decorator_list or a.vararg or a.kwarg or a.kwonlyargs or a.posonlyargs or a.defaults or not a.args:
            return False
        self_name = a.args[0].arg
        params = [x.arg for x in a.args[1:]]
        body = _doc_stripped(f.body)
        if not _only_self_fields(f, self_name):
            return False
        for n in ast.walk(f):
            if isinstance(n, (ast.FunctionDef, ast.Lambda, ast.AsyncFunctionDef, ast.Yield, ast.YieldFrom, ast.Await, ast.Global, ast.Nonlocal, ast.NamedExpr, ast.ListComp, ast.SetComp, ast.DictComp, ast.GeneratorExp)) and n is not f:
                return False
            if isinstance(n, ast.Name) and isinstance(n.ctx, (ast.Store, ast.Del)):
                return False  # no method-local names
        if f.name == "__init__":
            if params:
                return False
            for st in body:
                tgt = st.targets[0] if isinstance(st, ast.Assign) and len(st.targets) == 1 else st.target if isinstance(st, ast.AnnAssign) and st.value is not None else None
                if not (isinstance(tgt, ast.Attribute) and isinstance(tgt.value, ast.Name) and tgt.value.id == self_name):
                    return False
                if any(isinstance(n, ast.Name) and n.id == self_name for n in ast.walk(st.value)):
                    return False
                self.fields.append((tgt.attr, st.value))
            self.methods["__init__"] = ([], [], None)
            self._self = self_name
            return True
        ret = None
        stmts = list(body)
        if stmts and isinstance(stmts[-1], ast.Return):
            ret = stmts[-1].value
            stmts = stmts[:-1]
        if any(not isinstance(s, _SIMPLE_STMT) for s in stmts):
            return False
        self.methods[f.name] = (params, stmts, ret, self_name)
        return True


class _Subst(ast.NodeTransformer):
    def __init__(self, self_name, local, binding):
        self.self_name, self.local, self.binding = self_name, local, binding

    def visit_Attribute(self, n):
        if isinstance(n.value, ast.Name) and n.value.id == self.self_name:
            return ast.copy_location(ast.Name(id=_field(self.local, n.attr), ctx=n.ctx), n)
        return self.generic_visit(n)

    def visit_Name(self, n):
        if n.id in self.binding and isinstance(n.ctx, ast.Load):
            return copy.deepcopy(self.binding[n.id])
        return n


def _field(local: str, attr: str) -> str:
    return f"{local}__{attr.lstrip('_')}"


def _plain(e: ast.expr) -> bool:
    return isinstance(e, (ast.Name, ast.Constant)) or (isinstance(e, ast.Attribute) and _plain(e.value))


def _relocate(node, at):
    for n in ast.walk(node):
        if hasattr(n, "lineno") or isinstance(n, (ast.expr, ast.stmt)):
            n.lineno, n.col_offset = at.lineno, at.col_offset
            n.end_lineno, n.end_col_offset = getattr(at, "end_lineno", at.lineno), getattr(at, "end_col_offset", at.col_offset)
    return node


def _rewrite_function(f: ast.FunctionDef, helpers: dict[str, _HelperClass]) -> int:
    # candidate locals:  x = C()
    cands = {}
    for n in ast.walk(f):
        if isinstance(n, ast.Assign) and len(n.targets) == 1 and isinstance(n.targets[0], ast.Name) and isinstance(n.value, ast.Call) and isinstance(n.value.func, ast.Name) and n.value.func.id in helpers and not n.value.args and not n.value.keywords:
            cands.setdefault(n.targets[0].id, []).append(n)
        elif isinstance(n, ast.AnnAssign) and isinstance(n.target, ast.Name) and isinstance(n.value, ast.Call) and isinstance(n.value.func, ast.Name) and n.value.func.id in helpers and not n.value.args and not n.value.keywords:
            cands.setdefault(n.target.id, []).append(n)
    done = 0
    for local, defs in cands.items():
        if len(defs) != 1:
            continue
        hc = helpers[defs[0].value.func.id]
        if _try_replace(f, local, defs[0], hc):
            done += 1
    return done


def _try_replace(f, local, definition, hc: _HelperClass) -> bool:
    parents = {}
    for p in ast.walk(f):
        for c in ast.iter_child_nodes(p):
            parents[id(c)] = p
    # the name must not be a parameter, not be stored elsewhere, not be used in nested scopes
    if any(a.arg == local for a in f.args.args + f.args.kwonlyargs + f.args.posonlyargs):
        return False
    uses = []
    for n in ast.walk(f):
        if isinstance(n, ast.Name) and n.id == local:
            if n is getattr(definition, "target", None) or n in getattr(definition, "targets", []):
                continue
            if not isinstance(n.ctx, ast.Load):
                return False
            q = n
            while id(q) in parents and parents[id(q)] is not f:
                q = parents[id(q)]
                if isinstance(q, (ast.FunctionDef, ast.Lambda, ast.AsyncFunctionDef, ast.ClassDef)):
                    return False
            uses.append(n)
    plans = []  # (kind, node, ...)
    for n in uses:
        p = parents.get(id(n))
        if isinstance(p, ast.Attribute) and p.value is n:
            gp = parents.get(id(p))
            if isinstance(gp, ast.Call) and gp.func is p:
                m = hc.methods.get(p.attr)
                if m is None or p.attr == "__init__":
                    return False
                params, stmts, ret, self_name = m
                if any(isinstance(a, ast.Starred) for a in gp.args) or any(k.arg is None for k in gp.keywords):
                    return False
                binding = dict(zip(params, gp.args))
                for k in gp.keywords:
                    if k.arg not in params or k.arg in binding:
                        return False
                    binding[k.arg] = k.value
                if set(binding) != set(params) or not all(_plain(v) for v in binding.values()):
                    return False
                ggp = parents.get(id(gp))
                if isinstance(ggp, ast.Expr) and ggp.value is gp:
                    plans.append(("stmt", ggp, stmts, ret, self_name, binding))
                elif isinstance(ggp, ast.Assign) and ggp.value is gp and stmts:
                    if ret is None:
                        return False
                    plans.append(("assign", ggp, stmts, ret, self_name, binding))
                else:
                    if stmts or ret is None:
                        return False
                    plans.append(("expr", gp, ret, self_name, binding))
            elif any(p.attr == fl for fl, _ in hc.fields) and isinstance(p.ctx, ast.Load):
                plans.append(("field", p))
            else:
                return False
        elif isinstance(p, ast.Compare) and len(p.ops) == 1 and isinstance(p.ops[0], (ast.In, ast.NotIn)) and p.comparators[0] is n:
            m = hc.methods.get("__contains__")
            if m is None:
                return False
            params, stmts, ret, self_name = m
            if stmts or ret is None or len(params) != 1 or not _plain(p.left):
                return False
            plans.append(("contains", p, ret, self_name, {params[0]: p.left}))
        else:
            return False
    # all uses are replaceable: rewrite
    repl_expr: dict[int, ast.expr] = {}
    repl_stmt: dict[int, list[ast.stmt]] = {}
    for pl in plans:
        kind = pl[0]
        if kind == "expr":
            _, call, ret, self_name, binding = pl
            repl_expr[id(call)] = _relocate(_Subst(self_name, local, binding).visit(copy.deepcopy(ret)), call)
        elif kind == "contains":
            _, cmp_, ret, self_name, binding = pl
            e = _relocate(_Subst(self_name, local, binding).visit(copy.deepcopy(ret)), cmp_)
            if isinstance(cmp_.ops[0], ast.NotIn):
                e = ast.copy_location(ast.UnaryOp(op=ast.Not(), operand=e), cmp_)
            repl_expr[id(cmp_)] = e
        elif kind == "field":
            _, attr = pl
            repl_expr[id(attr)] = ast.copy_location(ast.Name(id=_field(local, attr.attr), ctx=ast.Load()), attr)
        elif kind in ("stmt", "assign"):
            _, st, stmts, ret, self_name, binding = pl
            new = [_relocate(_Subst(self_name, local, binding).visit(copy.deepcopy(s)), st) for s in stmts]
            if kind == "assign":
                a = copy.copy(st)
                a.value = _relocate(_Subst(self_name, local, binding).visit(copy.deepcopy(ret)), st)
                new.append(a)
            elif ret is not None and not isinstance(ret, (ast.Name, ast.Constant)):
                new.append(_relocate(ast.Expr(value=_Subst(self_name, local, binding).visit(copy.deepcopy(ret))), st))
            repl_stmt[id(st)] = new or [ast.copy_location(ast.Pass(), st)]
    init = [_relocate(ast.Assign(targets=[ast.Name(id=_field(local, fl), ctx=ast.Store())], value=copy.deepcopy(v), type_comment=None), definition) for fl, v in hc.fields]
    repl_stmt[id(definition)] = init or [ast.copy_location(ast.Pass(), definition)]

    class _Apply(ast.NodeTransformer):
        def visit(self, node):
            if id(node) in repl_expr:
                return repl_expr[id(node)]
            if id(node) in repl_stmt:
                return repl_stmt[id(node)]
            return super().visit(node)

    _Apply().visit(f)
    ast.fix_missing_locations(f)
    return True


def scalar_replace(tree: ast.Module) -> int:
    """Rewrite the functions of one module in place; returns the number of replaced locals."""
    helpers = {}
    for st in tree.body:
        if isinstance(st, ast.ClassDef):
            hc = _HelperClass(st)
            if hc.ok and len(hc.methods) > 0:
                helpers[hc.name] = hc
    if not helpers:
        return 0
    n = 0
    for node in ast.walk(tree):
        if isinstance(node, (ast.FunctionDef, ast.AsyncFunctionDef)):
            if any(node is m for hc in helpers.values() for m in hc.node.body):
                continue
            n += _rewrite_function(node, helpers)
    return n
