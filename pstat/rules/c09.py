"""C09 - results do not depend on label values, label order or integer dtype
(decided: no label arithmetic can wrap within the property's stated domain)."""

from __future__ import annotations

import ast
import itertools

from ..absval import Unknown, enumerate_paths
from ..model import AnchorMissing, Func, Undecided, dotted, norm, walk_no_nested
from ..pointwise import PV, LabelSeq, Pointwise
from ..poly import Poly
from ..report import Ctx
from ..symint import evaluate
from ..variants import Variant
from . import c04, c05
from .labelrun import CAP, LBLMAX

INFO = {
    "explanation": "Delegated (round 4): R03.2/R03.4 - candidates are ranked by score and consumed by the record layout the generator produces, so label values never decide the matching. WIDTH domain, input dtype enumerated over uint8/16/32/64 with labels up to the dtype maximum (uint8/16) or < 2^24: (R09.1) every arithmetic result of the pair encoding in _calc_overlapping_labels (pointwise symbolic run) is bounded at the vertices of the label domain and fits the container numpy gives it; (R09.2) the whole-pair crop performs no wrapping arithmetic on label arrays; (R09.3) relabelling containers (delegated to the R04 rules: lookup tables, casts, fresh labels); (R09.4) the dtype selector holds its argument and the post-approximation dtype is sized from the component ids (delegated R05.3/R05.4); (R09.5) no other arithmetic on label arrays exists in the package (labels are otherwise compared, looked up, or passed to unique/isin). Also delegated: R05.6 (dtype of the semantic arrays before labelling fits both label ranges). Further: R09.6 (label enumeration helpers on a domain of sets of present values), float64-exactness of uint64-scalar arithmetic (R09.1); delegated R13.1 (global masks binarised before any narrowing cast), R15.8. Round 6: R09.6 covers signed label arrays: negative values are labels too (`> 0` and `!= 0` differ). Round 8: R03.1 is delegated for every helper of the encoder signature (pair codes are taken apart with a radix above every reference label - label sets with gaps); np.unique(..., return_counts=True) and zip over its results are interpreted pointwise. Round 9: (R09.6) label enumeration piece by piece: a package generator verified to hand out its array in consecutive slices along the first axis, every row once, gives the enumeration domain two generic pieces; tests on a piece are input classes that narrow what it may hold; the result is exact iff every piece is collected whole or known to hold zeros only (negative labels of signed maps are labels too).",
    "trusted_base": ["numpy 1.x promotion rules (DESIGN appendix A.4; pyproject pins numpy ^1.20)", "np.unique / np.isin / equality are label-value agnostic"],
    "assumptions": ["labels lie in the property's domain [1, 2^24) (or up to the dtype maximum for uint8/uint16)"],
    "not_decided": ["invariance of cc3d / scipy kernels under relabelling", "tie-breaking between equal scores (excluded by the property)"],
}


def _vertex_max(p: Poly, label_polys: list[Poly], L: int) -> int:
    """Maximum of a polynomial with non-negative coefficients over the polytope
    {vars >= 0, every label polynomial <= L} (vertices: each var in {0, L-1})."""
    vs = sorted(set().union(p.variables(), *[q.variables() for q in label_polys]))
    best = 0
    for vals in itertools.product((0, L - 1), repeat=len(vs)):
        val = dict(zip(vs, vals))
        if all(evaluate(q, val) <= L for q in label_polys):
            best = max(best, int(evaluate(p, val)))
    return best


def pair_encoders(prog) -> list:
    """functions that take (prediction array, reference array, reference labels): the anchor encoder and
    whatever further helper of that signature the package has (contingency tables, ...)"""
    out = [prog.func("_functionals:_calc_overlapping_labels")]
    for f in prog.package_functions():
        if f.cls is not None or f.parent is not None or f in out:
            continue
        roles = set()
        for p in f.call_params:
            lp = p.name.lower()
            roles.add("pred_arr" if lp.startswith(("pred", "prediction")) and "label" not in lp else "ref_labels" if lp.startswith("ref") and "label" in lp else "ref_arr" if lp.startswith(("ref", "reference")) else "other:" + lp)
        if roles == {"pred_arr", "ref_arr", "ref_labels"} and len(f.call_params) == 3:
            out.append(f)
    return out


def check_codec_width(ctx: Ctx):
    for f in pair_encoders(ctx.prog):
        _check_codec_width(ctx, f)


def _check_codec_width(ctx: Ctx, f):
    prog = ctx.prog
    role = {}
    for p in f.params:
        lp = p.name.lower()
        if lp.startswith(("pred", "prediction")):
            role[p.name] = "pred_arr"
        elif lp.startswith("ref") and "label" in lp:
            role[p.name] = "ref_labels"
        elif lp.startswith(("ref", "reference")):
            role[p.name] = "ref_arr"
    if sorted(role.values()) != ["pred_arr", "ref_arr", "ref_labels"]:
        raise AnchorMissing(f"{f.qual}: parameters not recognised")
    P = Poly.const(1) + Poly.var("p")
    R = Poly.const(1) + Poly.var("r")
    m = R + Poly.var("s")
    n_ev = 0
    for IN in ("u8", "u16", "u32", "u64"):
        L = LBLMAX[IN]
        args = {}
        for pn, ro in role.items():
            args[pn] = PV(P, IN, "arr", "pred") if ro == "pred_arr" else PV(R, IN, "arr", "ref") if ro == "ref_arr" else LabelSeq(PV(m, IN, "nps", "ref"))
        its = []

        def make(prefix, args=args):
            it = Pointwise(prog, f, dict(args), {"p", "r", "s"}, prefix=prefix)
            its.append(it)
            return it

        try:
            outs = enumerate_paths(make)
        except Undecided as e:
            ctx.undecided("R09.1", f, f.node, f"{f.qual}:dtype={IN}", f"pair encoding not evaluable: {e}")
            continue
        seen = set()
        from ..linarith import constraint_slack, decide_leq
        from .c04 import infeasible

        for out_, it in zip(outs, its):
            # constraints of this path on the label values (e.g. the tests of a 'smallest fitting
            # dtype' computation); facts about dtypes/shapes do not constrain values
            path_slacks = []
            for _nd, v_, d_ in out_.decisions:
                pv_ = getattr(v_, "pv", None)
                if isinstance(pv_, tuple) and len(pv_) == 3 and isinstance(pv_[0], str) and pv_[0] in ("<", "<=", ">", ">=", "==", "!="):
                    path_slacks += constraint_slack(pv_[0], pv_[1], pv_[2], d_)
            dom = [Poly.const(L) - q for q in [P, R, m] + list(getattr(it.root, "max_polys", []))]
            if path_slacks and infeasible(dom + path_slacks):
                continue
            ptxt = "; ".join(f"{norm(nd) if isinstance(nd, ast.AST) else '?'}={d}" for nd, v_, d in out_.decisions if getattr(v_, "pv", None) is not None and len(getattr(v_, "pv")) == 3)[:200]
            for evn in it.root.events:
                key = (evn.op, repr(evn.result), evn.cont, ptxt)
                if key in seen:
                    continue
                seen.add(key)
                if path_slacks and evn.cont in CAP and evn.cont not in ("py", "nps-valuebased") and evn.result.nonneg_coeffs():
                    construct = f"{f.qual}:dtype={IN}:{evn.op}:{norm(evn.node) if isinstance(evn.node, ast.AST) else ''}"[:160] + f"[{ptxt}]"
                    ok_, w_ = decide_leq(evn.result, CAP[evn.cont], dom + path_slacks)
                    n_ev += 1
                    ctx.decide("R09.1", f, evn.node, construct, f"{evn.result!r} fits container {evn.cont} (max {CAP[evn.cont]}) under the path's own tests", ok_, {"valuation": w_, "container": evn.cont, "labels_up_to": L, "path": ptxt} if ok_ is not True else None)
                    continue
                if evn.cont in ("py", "nps-valuebased"):
                    continue
                # f64: a numpy uint64 scalar combined with a Python int is computed in float64
                # (numpy 1.x promotion); integers are exact there only up to 2**53
                cap = CAP.get(evn.cont)
                construct = f"{f.qual}:dtype={IN}:{evn.op}:{norm(evn.node) if isinstance(evn.node, ast.AST) else ''}"[:200]
                if cap is None:
                    ctx.undecided("R09.1", f, evn.node, construct, f"container {evn.cont} not modelled")
                    continue
                if not evn.result.nonneg_coeffs():
                    ctx.decide("R09.1", f, evn.node, construct, "label arithmetic can become negative in an unsigned container", False if evn.cont.startswith("u") else None, {"value": repr(evn.result)})
                    continue
                mx = _vertex_max(evn.result, [P, R, m], L)
                n_ev += 1
                ctx.decide("R09.1", f, evn.node, construct, f"largest value {mx} of {evn.result!r} fits container {evn.cont} (max {cap})", mx <= cap, {"max_value": mx, "container": evn.cont, "labels_up_to": L})
    ctx.__dict__["_r091_events"] = n_ev
    if n_ev < 8:
        ctx.undecided("R09.1.floor", f, f.node, "floor:R09.1", f"{n_ev} arithmetic/cast events of the pair encoding inspected, confirmed floor is 8")


def check_codec_width_relational(ctx: Ctx):
    """R09.1b: the same obligation with the container chosen by code (e.g. a 'smallest fitting'
    dtype computed from the data): the largest pair code max(pred)*(max(ref)+k)+max(ref) must be
    provably within the container on every path, under the path's own constraints."""
    from ..linarith import constraint_slack, decide_leq
    from .c04 import infeasible, _show
    from .labelrun import LV, RelabelInterp, VoxelArr, chains

    prog = ctx.prog
    f = prog.func("_functionals:_calc_overlapping_labels")
    role = {}
    for p in f.params:
        lp = p.name.lower()
        role[p.name] = "pred" if lp.startswith(("pred", "prediction")) else ("labels" if "label" in lp else "ref")
    n = 0
    for IN in ("u8", "u16", "u32", "u64"):
        refs, preds = chains(3, 5)
        m, pmax = refs[-1], preds[-1]
        L = LBLMAX[IN]
        domain = [Poly.const(L) - m, Poly.const(L) - pmax]
        holder = []

        def make(prefix):
            args = {}
            for pn, ro in role.items():
                if ro == "pred":
                    args[pn] = VoxelArr("PRED", pmax, IN, pmax)
                elif ro == "ref":
                    args[pn] = VoxelArr("REF", m, IN, m)
                else:
                    args[pn] = tuple(LV(r, IN, "nps") for r in refs)
            it = RelabelInterp(prog, f, args, prefix=prefix)
            it.root.domain_slacks = domain
            it.root.no_inline = set()
            holder.append(it)
            return it

        work = [[]]
        seen = set()
        runs = []
        while work and len(runs) < 64:
            prefix = work.pop()
            if tuple(prefix) in seen:
                continue
            seen.add(tuple(prefix))
            it = make(prefix)
            try:
                it.run()
            except Undecided:
                pass
            taken = [d for (_, _, d) in it.root.taken]
            runs.append(it)
            for i in range(len(prefix), len(taken)):
                work.append(taken[:i] + [not taken[i]])
        for it in runs:
            slacks = list(domain)
            for node, v, d in it.root.taken:
                pv = getattr(v, "pv", None)
                if pv and len(pv) == 3:
                    slacks += constraint_slack(pv[0], pv[1], pv[2], d)
            if infeasible(slacks):
                continue
            dtxt = "; ".join(f"{norm(nd) if isinstance(nd, ast.AST) else '?'}={d}" for nd, v, d in it.root.taken)
            seen_ev = set()
            for evn in it.root.events:
                key = (evn.what, repr(evn.value), evn.cont)
                if key in seen_ev or evn.cont not in CAP or evn.cont in ("py", "f64"):
                    continue
                seen_ev.add(key)
                if not evn.value.nonneg_coeffs():
                    continue
                n += 1
                ok, w = decide_leq(evn.value, CAP[evn.cont], slacks)
                c2 = f"{f.qual}:dtype={IN}:{evn.what}:{evn.cont}"
                if ok is True:
                    ctx.ok("R09.1", f, evn.node, c2, f"{evn.what}: largest value {evn.value!r} fits {evn.cont}", None)
                elif ok is False:
                    ctx.violated("R09.1", f, evn.node, c2, f"{evn.what}: value {evn.value!r} can exceed the container {evn.cont} (max {CAP[evn.cont]}) and wraps around: candidate pairs are lost or corrupted", {"valuation": _show(w, refs, preds), "path": dtxt})
                else:
                    ctx.undecided("R09.1", f, evn.node, c2, f"could not decide whether {evn.value!r} <= {CAP[evn.cont]}", {"path": dtxt})
    if n < 8 and ctx.__dict__.get("_r091_events", 0) < 8:
        # (the voxel-wise run decides the same obligations under the paths' own value tests; this
        # second view is required only when that one did not cover them)
        ctx.undecided("R09.1.floor", f, None, "floor:R09.1b", f"{n} container obligations of the pair encoding decided, confirmed floor is 8")


class CropPointwise(Pointwise):
    def should_inline(self, f: Func) -> bool:
        return f.name != self.prog.anchor_name("utils.numpy_utils:_get_bbox_nd")

    def external_call(self, name, args, kwargs, node):
        if self.prog.is_anchor(name, "utils.numpy_utils:_get_bbox_nd"):
            return Unknown("bbox")
        return super().external_call(name, args, kwargs, node)

    def attr_hook(self, base, attr, node):
        if isinstance(base, PV) and attr in ("shape", "ndim"):
            from ..absval import Sym

            return Sym("shape")
        return super().attr_hook(base, attr, node)


def check_crop_width(ctx: Ctx):
    prog = ctx.prog
    f = prog.func("_functionals:_get_paired_crop")
    P = Poly.const(1) + Poly.var("p")
    R = Poly.const(1) + Poly.var("r")
    n = 0
    for IN in ("u8", "u16", "u32", "u64"):
        L = LBLMAX[IN]
        args = {}
        for p in f.call_params:
            lp = p.name.lower()
            if lp.startswith("pred"):
                args[p.name] = PV(P, IN, "arr", "pred")
            elif lp.startswith("ref"):
                args[p.name] = PV(R, IN, "arr", "ref")
        if len(args) != 2:
            raise AnchorMissing(f"{f.qual}: array parameters not recognised")
        its = []

        def make(prefix, args=args):
            it = CropPointwise(prog, f, dict(args), {"p", "r"}, prefix=prefix)
            its.append(it)
            return it

        try:
            enumerate_paths(make, max_paths=64)
        except Undecided as e:
            ctx.undecided("R09.2", f, f.node, f"{f.qual}:dtype={IN}", f"crop not evaluable: {e}")
            continue
        seen = set()
        for it in its:
            for evn in it.root.events:
                key = (evn.op, repr(evn.result), evn.cont)
                if key in seen or evn.cont in ("py", "nps-valuebased", "f64") or evn.op == "astype" and evn.cont == "bool":
                    continue
                seen.add(key)
                cap = CAP.get(evn.cont)
                construct = f"{f.qual}:dtype={IN}:{evn.op}:{norm(evn.node) if isinstance(evn.node, ast.AST) else ''}"[:200]
                if cap is None or not evn.result.nonneg_coeffs():
                    ctx.undecided("R09.2", f, evn.node, construct, f"container {evn.cont} / value {evn.result!r} not modelled")
                    continue
                mx = _vertex_max(evn.result, [P, R], L)
                n += 1
                ctx.decide("R09.2", f, evn.node, construct, f"largest value {mx} of {evn.result!r} fits container {evn.cont} (max {cap})", mx <= cap, {"max_value": mx, "container": evn.cont, "labels_up_to": L, "why": "a wrapped sum drops voxels out of the bounding box"})
    if n == 0:
        ctx.ok("R09.2", f, f.node, f"{f.qual}:no-arithmetic", "the paired crop performs no integer arithmetic on label arrays", None, nontrivial=False)


ARR_NAME = ("prediction_arr", "reference_arr", "pred_arr", "ref_arr", "_prediction_arr", "_reference_arr")
COVERED = {"_functionals:_calc_overlapping_labels", "_functionals:_get_paired_crop"}


def check_other_arithmetic(ctx: Ctx):
    """R09.5: arithmetic whose operand is (syntactically) a label array, outside the functions
    analysed pointwise.  Metric kernels work on boolean masks and are excluded by module."""
    prog = ctx.prog
    n_sites = 0
    covered = {prog.func(q).qual for q in COVERED} | {g.qual for g in pair_encoders(prog)}
    # helpers the covered functions call are inlined by the pointwise runs (R09.1 / R09.2), so
    # their arithmetic is analysed there
    work = [prog.func(q) for q in COVERED] + [g for g in pair_encoders(prog)]
    for _ in range(3):
        nxt = []
        for g in work:
            for c in prog.calls_in(g):
                for h in prog.resolve_call(g, c):
                    if isinstance(h, Func) and h.qual not in covered:
                        covered.add(h.qual)
                        nxt.append(h)
        work = nxt
    for f in prog.package_functions():
        if f.qual in covered or f.module.rel.startswith("metrics") or f.module.rel.startswith("panoptica_statistics"):
            continue
        for node in walk_no_nested(f.node):
            ops = None
            if isinstance(node, ast.BinOp) and isinstance(node.op, (ast.Add, ast.Sub, ast.Mult, ast.LShift, ast.Pow)):
                ops = [node.left, node.right]
            elif isinstance(node, ast.AugAssign) and isinstance(node.op, (ast.Add, ast.Sub, ast.Mult, ast.LShift, ast.Pow)):
                ops = [node.target, node.value]
            if not ops:
                continue
            lab = []
            for o in ops:
                d = dotted(o)
                if d and d.split(".")[-1] in ARR_NAME:
                    lab.append(d)
            if not lab:
                continue
            n_sites += 1
            both = len(lab) == 2
            ctx.decide("R09.5", f, node, f"{f.qual}:{norm(node)[:80]}", "arithmetic on label arrays in the caller's dtype", False if both else None, {"expr": norm(node), "why": "labels near the dtype maximum wrap around" if both else "label array combined with a scalar: wraps for labels at the dtype maximum unless widened"})
    if n_sites == 0:
        ctx.ok("R09.5", None, None, "package:no-other-label-arithmetic", "no arithmetic on label arrays outside the analysed encoders", None, nontrivial=False)


def _run_rule(ctx, name, fn):
    """a sub-rule that cannot be evaluated is recorded as undecided; the remaining rules still run"""
    try:
        return fn(ctx)
    except (Undecided, AnchorMissing) as e:
        ctx.undecided(name, None, None, f"{name}:analysis", f"{type(e).__name__}: {e}")
        return 0


def check(ctx: Ctx):
    from .labelenum import check_label_enumeration

    try:
        check_label_enumeration(ctx)
    except (Undecided, AnchorMissing) as e:
        ctx.undecided("R09.6", None, None, "R09.6:check_label_enumeration", f"{type(e).__name__}: {e}")
    _run_rule(ctx, "check_codec_width", check_codec_width)
    _run_rule(ctx, "check_codec_width_relational", check_codec_width_relational)
    _run_rule(ctx, "check_crop_width", check_crop_width)
    _run_rule(ctx, "check_other_arithmetic", check_other_arithmetic)
    # delegated rule sets (same engines, same verdicts as in C04 / C05)
    _run_rule(ctx, "check_chained_replacement", c04.check_chained_replacement)
    _run_rule(ctx, "check_relabel", c04.check_relabel)
    c05.fitting_uint_table(ctx, rule="R09.4")
    _run_rule(ctx, "check_dispatch", c05.check_dispatch)
    try:
        c05.check_semantic_dtype(ctx)
    except (Undecided, AnchorMissing) as e:
        ctx.undecided("R05.6", None, None, "R05.6:check_semantic_dtype", f"{type(e).__name__}: {e}")
    # the global binary metrics are part of "every reported metric": the foregrounds they are
    # computed on must not depend on the label values (binarise before any narrowing cast, R13.1)
    from . import c13

    try:
        c13.check_global(ctx)
    except (Undecided, AnchorMissing) as e:
        ctx.undecided("R13.1", None, None, "R13.1:check", f"{type(e).__name__}: {e}")
    # results of later evaluations (another group, a flipped copy, the exchanged pair, a second
    # threshold) are only meaningful if no step writes into the caller's arrays (R15.8)
    from . import c15 as _c15
    from . import c03 as _c03

    _c03._guarded(ctx, "R15.8", _c15.check_param_aliasing)
    # "independent of the label values and of their order": candidates are ranked by their score (not
    # by a label that happens to sit in the same record position) and taken apart by the record's layout
    _c03._guarded(ctx, "R03.2", _c03.check_candidates)
    _c03._guarded(ctx, "R03.4", _c03.check_naive)
    # pair codes are taken apart with a radix above every reference label, for label sets with gaps too
    # (every helper of the encoder signature, R03.1)
    _c03._guarded(ctx, "R03.1", _c03.check_codec)


_F = "panoptica/_functionals.py"
_M = "panoptica/instance_matcher.py"

_NU = "panoptica/utils/numpy_utils.py"

VARIANTS = [
    Variant("C09-m-unique-histogram-drops-max", "R09.6", "mutant", [(_NU, "    return np.unique(arr[arr != 0])\n\n\ndef _count_unique_without_zeros", "    if arr.dtype in (np.uint8, np.uint16):\n        n_values = np.iinfo(arr.dtype).max\n        counts = np.bincount(arr.ravel(), minlength=n_values)\n        return (np.flatnonzero(counts[1:n_values]) + 1).astype(arr.dtype)\n\n    return np.unique(arr[arr != 0])\n\n\ndef _count_unique_without_zeros")], control=True),
    Variant("C09-m-unique-keeps-zero", "R09.6", "mutant", [(_NU, "    return np.unique(arr[arr != 0])\n\n\ndef _count_unique_without_zeros", "    return np.unique(arr)\n\n\ndef _count_unique_without_zeros")]),
    Variant("C09-m-count-minus-one", "R09.6", "mutant-undecided", [(_NU, "    return len(_unique_without_zeros(arr))", "    return len(np.unique(arr)) - 1")]),
    Variant("C09-t-unique-histogram", "R09.6", "twin", [(_NU, "    return np.unique(arr[arr != 0])\n\n\ndef _count_unique_without_zeros", "    if arr.dtype in (np.uint8, np.uint16):\n        counts = np.bincount(arr.ravel())\n        return (np.flatnonzero(counts[1:]) + 1).astype(arr.dtype)\n\n    return np.unique(arr[arr != 0])\n\n\ndef _count_unique_without_zeros")]),
    Variant("C09-t-unique-filter-after", "R09.6", "twin", [(_NU, "    return np.unique(arr[arr != 0])\n\n\ndef _count_unique_without_zeros", "    values = np.unique(arr)\n    return values[values != 0]\n\n\ndef _count_unique_without_zeros")]),
    Variant("C09-m-d4", "R09.1", "mutant", [(_F, "    overlap_arr = prediction_arr.astype(np.uint64)", "    overlap_arr = prediction_arr.astype(np.uint32)")], control=True, note="defect D4 of the original tree"),
    Variant("C09-m-codec-uint16", "R09.1", "mutant", [(_F, "    overlap_arr = prediction_arr.astype(np.uint64)", "    overlap_arr = prediction_arr.astype(np.uint16)")]),
    Variant("C09-m-codec-no-widen", "R09.1", "mutant", [(_F, "    overlap_arr = prediction_arr.astype(np.uint64)", "    overlap_arr = prediction_arr.copy()")]),
    Variant("C09-m-d6", "R09.2", "mutant", [(_F, "    combined = np.logical_or(prediction_arr != 0, reference_arr != 0)\n    if not combined.any():\n        combined[...] = True\n", "    combined = prediction_arr + reference_arr\n    if combined.sum() == 0:\n        combined += 1\n")], control=True, note="defect D6 of the original tree"),
    Variant("C09-m-d5", "R04.4", "mutant", c04.VARIANTS[0].edits, note="defect D5 of the original tree (delegated rule)"),
    Variant("C09-m-other-arith", "R09.5", "mutant", [("panoptica/utils/processing_pair.py", "            self.crop = _get_paired_crop(\n                self._prediction_arr,\n                self._reference_arr,\n            )", "            self.crop = _get_paired_crop(\n                self._prediction_arr + self._reference_arr,\n                self._reference_arr,\n            )")]),
    Variant("C09-t-codec-int64", "R09.1", "twin", [(_F, "    overlap_arr = prediction_arr.astype(np.uint64)", "    overlap_arr = prediction_arr.astype(np.int64)")]),
    Variant("C09-t-crop-bool-or", "R09.2", "twin", [(_F, "    combined = np.logical_or(prediction_arr != 0, reference_arr != 0)", "    combined = (prediction_arr != 0) | (reference_arr != 0)")]),
]
