"""Abstract sessions of Panoptica_Aggregator on the abstract file system."""

from __future__ import annotations

import ast
from typing import Any, Optional

from ..absval import BoundMethod, Obj, Outcome, RaiseSignal, Sym, Unknown, enumerate_paths
from ..model import AnchorMissing, Program, Undecided, norm
from .fsrun import FS, FSInterp, PathV

GROUPS = ["g1", "left-lung"]
KEYS = ["tp", "sq", "global_bin_dsc"]


class AggInterp(FSInterp):
    def __init__(self, *a, ev_keys=None, values=None, **kw):
        super().__init__(*a, **kw)
        r = self.root
        r.ev_keys = ev_keys if ev_keys is not None else list(KEYS)
        r.values = values or {}
        r.eval_calls = []

    def external_call(self, name, args, kwargs, node):
        r = self.root
        short = name.split(":")[-1]
        if short == "Panoptica_Evaluator.segmentation_class_groups_names":
            return list(GROUPS)
        if short == "Panoptica_Evaluator.resulting_metric_keys":
            return r.ev_keys
        if short == "Panoptica_Evaluator.evaluate":
            r.eval_calls.append((self.held(), list(args), dict(kwargs), node, len(r.fs.log)))
            self.fslog("evaluate", "<evaluator>", None)
            rcls = self.prog.cls("panoptica_result:PanopticaResult")
            subj = getattr(r, "current_subject", "?")
            return {g: (Obj(rcls, {"computation_time": r.values.get(("time", subj, g)), "_g": g, "_s": subj}), Sym("steps")) for g in GROUPS}
        if short == "PanopticaResult.to_dict":
            o = r.last_receiver
            g, s = o.attrs.get("_g"), o.attrs.get("_s")
            d = {}
            for k in KEYS:
                v = r.values.get((s, g, k), Sym(f"v[{s},{g},{k}]"))
                if v != "MISSING":
                    d[k] = v
            return d
        return super().external_call(name, args, kwargs, node)


def no_inline_set(prog: Program) -> set:
    ev = prog.cls("panoptica_evaluator:Panoptica_Evaluator")
    res = prog.cls("panoptica_result:PanopticaResult")
    out = set()
    for n in ("segmentation_class_groups_names", "resulting_metric_keys", "evaluate"):
        m = ev.lookup(n)
        if m is None:
            raise AnchorMissing(f"Panoptica_Evaluator.{n}")
        out.add(m.qual)
    out.add(res.lookup("to_dict").qual)
    return out


def agg_class(prog: Program):
    return prog.cls("panoptica_aggregator:Panoptica_Aggregator")


def new_session(prog: Program, fs: FS, output_file, log_times=False, continue_file=None, ev_keys=None, values=None, root_state=None, extra_args=None):
    """Run the constructor.  Returns (aggregator Obj or None, outcome, interp)."""
    cls = agg_class(prog)
    init = cls.lookup("__init__")
    names = [p.name for p in init.call_params]
    for need in ("panoptica_evaluator", "output_file"):
        if need not in names:
            raise AnchorMissing(f"Panoptica_Aggregator.__init__ has no parameter {need}")
    ev = Obj(prog.cls("panoptica_evaluator:Panoptica_Evaluator"), {"_tag": "EVALUATOR"})
    o = Obj(cls, {})
    args = {"panoptica_evaluator": ev, "output_file": output_file}
    if "log_times" in names:
        args["log_times"] = log_times
    if continue_file is not None and "continue_file" in names:
        args["continue_file"] = continue_file
    args.update(extra_args or {})
    it = AggInterp(prog, init, args, self_obj=o, fs=fs, ev_keys=ev_keys, values=values)
    it.root.no_inline = no_inline_set(prog)
    if root_state:
        it.root.lock_objs = root_state
    out = it.run()
    return (o if out.kind in ("end", "return") and not out.decisions else None), out, it


def key_selection_options(prog: Program) -> list:
    """constructor options of the aggregator, beyond the ones every session sets, that take a list of names and
    default to None (a selection of result keys, ...): candidates for a run with a selection in another order"""
    import ast

    init = agg_class(prog).lookup("__init__")
    out = []
    for p in init.call_params:
        if p.name in ("panoptica_evaluator", "output_file", "log_times", "continue_file"):
            continue
        ann = ast.unparse(p.annotation) if getattr(p, "annotation", None) is not None else ""
        dflt = getattr(p, "default", None)
        if "list[str]" in ann.replace(" ", "") and isinstance(dflt, ast.Constant) and dflt.value is None:
            out.append(p.name)
    return out


def call(prog: Program, agg: Obj, method: str, args: dict, fs: FS, subject=None, ev_keys=None, values=None, lock_objs=None):
    f = agg.cls.lookup(method)
    if f is None:
        raise AnchorMissing(f"Panoptica_Aggregator.{method}")
    it = AggInterp(prog, f, dict(args), self_obj=agg, fs=fs, ev_keys=ev_keys, values=values)
    it.root.no_inline = no_inline_set(prog)
    it.root.current_subject = subject
    if lock_objs is not None:
        it.root.lock_objs = lock_objs
    out = it.run()
    return out, it


def evaluate_subject(prog, agg, fs, subject: str, **kw):
    f = agg.cls.lookup("evaluate")
    names = [p.name for p in f.call_params]
    args = {}
    for n in names:
        l = n.lower()
        if l.startswith("pred"):
            args[n] = Sym("PRED_ARR")
        elif l.startswith("ref"):
            args[n] = Sym("REF_ARR")
        elif "subject" in l or "name" in l:
            args[n] = subject
    return call(prog, agg, "evaluate", args, fs, subject=subject, **kw)


def header_row(keys=None, log_times=False):
    ks = list(keys or KEYS) + (["computation_time"] if log_times else [])
    return ["subject_name"] + [f"{g}-{m}" for g in GROUPS for m in ks]


def agg_paths(agg) -> tuple:
    """(output file, claim file) of an aggregator object as strings, found among the paths the object keeps
    (directly or inside an object it owns), not by attribute name: the claim file is the one whose name is
    derived from the output file's by a suffix; the output file is the other *.tsv path."""
    from .fsrun import PathV

    found = []

    def walk(v, depth):
        if isinstance(v, PathV):
            found.append(v.s)
        elif isinstance(v, str) and v.endswith(".tsv"):
            found.append(v)
        elif isinstance(v, Obj) and depth < 3 and v.cls.name not in ("Panoptica_Evaluator",):
            for x in v.attrs.values():
                walk(x, depth + 1)
        elif isinstance(v, (list, tuple)) and depth < 3 and len(v) <= 4:
            for x in v:
                walk(x, depth + 1)

    if agg is None:
        return None, None
    for x in agg.attrs.values():
        walk(x, 0)
    paths = []
    for x in found:
        if x not in paths:
            paths.append(x)
    if len(paths) == 1:
        return paths[0], None
    if len(paths) >= 2:
        # the claim file's name extends the stem of the output file's name
        import posixpath

        for o in paths:
            stem = posixpath.basename(o)
            stem = stem[: stem.rindex(".")] if "." in stem[1:] else stem
            for b in paths:
                if b != o and posixpath.dirname(b) == posixpath.dirname(o) and posixpath.basename(b).startswith(stem.split(".")[0]) and len(posixpath.basename(b)) > len(posixpath.basename(o)):
                    return o, b
        return paths[0], paths[1]
    return None, None
