"""C13 - global binary metrics depend only on the two foregrounds."""

from __future__ import annotations

import ast

from ..absval import Obj, Sym, Unknown, enumerate_paths
from ..model import AnchorMissing, Undecided, norm
from ..report import Ctx
from ..variants import Variant
from .arrdom import AArr, ArrInterp
from .resultrun import Tagged, build_edge_case_handler, metric_objs

INFO = {
    "explanation": "Delegated (round 4): R08.4/R01.2 - on the zero-instance shortcut and through the result stage the prediction/reference arrays and counts reach the result uncrossed (the global metrics' empty-side handling depends on which side is which). PanopticaResult.__init__ and _calc_global_bin_metric are run abstractly with abstract label arrays, symbolic per-metric edge-case handlers and split emptiness tests (4 combinations of empty prediction / empty reference): (R13.1) the metric kernel receives the !=0-binarised *copies* of the full reference and prediction arrays in their own parameter slots, without narrowing casts, independent of tp/lists; (R13.2) empty prediction / empty reference / both empty yield the handler's EMPTY_PRED / EMPTY_REF / NO_INSTANCES value of that metric; (R13.3) a metric not requested is not computed; requested ones are stored under global_bin_<name>. Further: R13.2 also with a handler that prescribes None; delegated R05.4/R05.6 (dtype before labelling), R10.1/R10.3 (cropped once, crop covers both), R15.8. Round 8: R15.8 kernel purity is delegated (a new metric member's kernel must not write into the masks it is given, neither directly nor in a function it calls).",
    "trusted_base": ["Python semantics of the modelled AST subset", "numpy: copy/astype create new arrays, x[x!=0]=1 binarises in place, sum()/any()/count_nonzero decide emptiness of a non-negative array"],
    "assumptions": ["label arrays are non-negative integer arrays (checked by the pair classes)"],
    "not_decided": ["the metric values themselves (C06/C07)"],
}

EXPECT = {(True, False): "EMPTY_PRED", (False, True): "EMPTY_REF", (True, True): "NO_INSTANCES"}


def _emptiness(out, pred: AArr, ref: AArr, arrs):
    """Read the split decisions: which abstract arrays were decided empty."""
    pe = re_ = None
    for node, v, d in out.decisions:
        if isinstance(v, Unknown) and v.tag.startswith("empty:"):
            side = v.tag[6:]
            if side == "PRED":
                if pe is not None and pe != d:
                    return None
                pe = d
            elif side == "REF":
                if re_ is not None and re_ != d:
                    return None
                re_ = d
        elif isinstance(v, Unknown) and v.tag.startswith("dtype-fact"):
            continue  # a fast path selected by the input's dtype: an input class, checked like any other
        else:
            return None
    return pe, re_


def run_constructor(ctx: Ctx, metrics, ech, gm, tp, lists, n_pred=3, n_ref=5):
    prog = ctx.prog
    rcls = prog.cls("panoptica_result:PanopticaResult")
    init = rcls.lookup("__init__")
    holder = {}

    def make(prefix):
        o = Obj(rcls, {})
        pred, ref = AArr("PRED", fresh=False), AArr("REF", fresh=False)
        args = {"reference_arr": ref, "prediction_arr": pred, "num_pred_instances": n_pred, "num_ref_instances": n_ref, "tp": tp, "list_metrics": lists, "edge_case_handler": ech, "global_metrics": gm}
        it = ArrInterp(prog, init, args, metrics=metrics, self_obj=o, prefix=prefix)
        holder[len(holder)] = (o, pred, ref, it)
        return it

    outs = enumerate_paths(make)
    return [(out,) + holder[i] for i, out in enumerate(outs)]


def _run_rule(ctx, name, fn):
    """a sub-rule that cannot be evaluated is recorded as undecided; the remaining rules still run"""
    try:
        return fn(ctx)
    except (Undecided, AnchorMissing) as e:
        ctx.undecided(name, None, None, f"{name}:analysis", f"{type(e).__name__}: {e}")
        return 0


def check(ctx: Ctx):
    _run_rule(ctx, "check_global", check_global)
    # semantic input: the foreground reaching the result is the input's foreground only if the
    # dtype chosen before labelling holds every label (R05.4, R05.6)
    from . import c03, c05

    c03._guarded(ctx, "R05.4", c05.fitting_uint_table)
    c03._guarded(ctx, "R05.6", c05.check_semantic_dtype)
    # the foregrounds reaching the result are the input's: the pair is cropped exactly once with a
    # crop that covers both (R10.1, R10.3)
    from . import c10

    c03._guarded(ctx, "R10.1", c10.check_crop_data)
    # the global metrics are computed one after the other on ONE binarised pair: no kernel may change it (R15.8)
    from . import c15 as _c15k

    c03._guarded(ctx, "R15.8", _c15k.check_kernel_purity)
    c03._guarded(ctx, "R10.3", c10.check_crop_mask)
    # results of later evaluations (another group, a flipped copy, the exchanged pair, a second
    # threshold) are only meaningful if no step writes into the caller's arrays (R15.8)
    from . import c15 as _c15
    from . import c03 as _c03

    _c03._guarded(ctx, "R15.8", _c15.check_param_aliasing)
    # "prediction empty / reference empty": the arrays (and counts) reach the result uncrossed also on
    # the zero-instance shortcut and through the pipeline's result stage (R08.4, R01.2)
    from . import c01 as _c01
    from . import c08 as _c08

    _c03._guarded(ctx, "R08.4", _c08.check_zero_helper)
    _c03._guarded(ctx, "R08.4", _c08.check_pipeline_typestate)
    _c03._guarded(ctx, "R01.2", _c01.check_pipeline)


def check_global(ctx: Ctx):
    prog = ctx.prog
    metrics = metric_objs(prog)
    ech, handlers = build_edge_case_handler(prog, metrics)
    rcls = prog.cls("panoptica_result:PanopticaResult")
    init = rcls.lookup("__init__")
    calc = prog.method(rcls, "_calc_global_bin_metric")
    if calc is None:
        raise AnchorMissing("PanopticaResult._calc_global_bin_metric")
    rows = 0
    results_by_tp = {}
    for m in metrics:
        name = m.attrs["_name_"]
        attr = f"global_bin_{name.lower()}"
        for tp, lists, npred, nref in ((0, {}, 3, 5), (2, {metrics[0]: [Sym("v1"), Sym("v2")]}, 3, 5), (1, {metrics[0]: [Sym("v1")]}, 1, 1)):
            runs = run_constructor(ctx, metrics, ech, [m], tp, lists, npred, nref)
            for out, o, pred, ref, it in runs:
                em = _emptiness(out, pred, ref, None)
                construct = f"{init.qual}:metric={name}"
                if out.kind == "raise":
                    ctx.violated("R13.1", init, out.node, construct, f"result constructor raises {out.exc} while computing the global metric", {"decisions": [(getattr(v, 'tag', '?'), d) for _, v, d in out.decisions]})
                    continue
                if em is None or em[0] is None or em[1] is None:
                    # the emptiness of a side was never tested on this path
                    if em is None:
                        ctx.undecided("R13.2", init, init.node, construct, "global metric computation splits on an unmodelled condition", {"decisions": [norm(n) for n, _, _ in out.decisions if isinstance(n, ast.AST)][:4]})
                        continue
                pe, re_ = em
                got = o.attrs.get(attr)
                rows += 1
                key = (name, pe, re_)
                results_by_tp.setdefault(key, {})[tp] = repr(got)
                cls_txt = f"pred_empty={pe},ref_empty={re_}"
                if (pe, re_) in EXPECT:
                    want = Sym(f"H_{name}.{EXPECT[(pe, re_)]}.value")
                    ctx.decide("R13.2", init, init.node, f"{construct}:{cls_txt}", f"value is the handler's {EXPECT[(pe, re_)]} result for metric {name}", got == want, {"got": repr(got), "want": repr(want), "tp": tp})
                    continue
                if pe is None or re_ is None:
                    # only one side tested and found non-empty/empty in a way that skipped the other
                    if pe is True or re_ is True:
                        ctx.violated("R13.2", init, init.node, f"{construct}:{cls_txt}", "an empty side is handled without looking at the other side (both-empty cannot be distinguished)", {"got": repr(got)})
                        continue
                    if it.root.kernel_calls:
                        side = "prediction" if pe is None else "reference"
                        ctx.violated("R13.2", init, init.node, f"{construct}:{cls_txt}", f"the metric is evaluated without testing whether the {side} foreground is empty (the handler's value is required then)", {"got": repr(got)})
                        continue
                # both non-empty: kernel on binarised copies, uncrossed
                kc = [k for k in it.root.kernel_calls if k[0] == f"kernel:{m.attrs['value'].attrs['name']}"]
                if not kc:
                    ctx.violated("R13.1", init, init.node, f"{construct}:{cls_txt}", "requested global metric is not computed for non-empty foregrounds", {"got": repr(got)})
                    continue
                kname, kargs, kkw, knode = kc[-1]
                a_ref = kargs[0] if len(kargs) > 0 else kkw.get("reference_arr")
                a_pred = kargs[1] if len(kargs) > 1 else kkw.get("prediction_arr")
                ok_val = isinstance(got, Tagged) and got.name == kname
                ctx.decide("R13.1", init, init.node, f"{construct}:{cls_txt}:value", f"global_bin_{name.lower()} is the value of metric {name}", ok_val, {"got": repr(got)})
                for slot, a, side in (("reference", a_ref, "REF"), ("prediction", a_pred, "PRED")):
                    c2 = f"{construct}:{cls_txt}:{slot}"
                    if not isinstance(a, AArr):
                        ctx.undecided("R13.1", init, knode, c2, f"kernel {slot} argument is not an abstract array: {a!r}")
                        continue
                    ctx.decide("R13.1", init, knode, c2 + ":side", f"{slot} slot of the metric receives the {side.lower()} foreground", a.side == side, {"got": a.describe()})
                    ctx.decide("R13.1", init, knode, c2 + ":binarised", "array is binarised by != 0 (no narrowing cast before, all labels kept)", a.content == "bin" and a.selection is None and not a.casts, {"got": a.describe()})
                    ctx.decide("R13.1", init, knode, c2 + ":copy", "binarisation works on a copy (caller's array untouched)", a.is_fresh(), {"got": a.describe()})
                # extra kernel args (e.g. label selection) must be absent
                extra = [x for x in kargs[2:] if x is not None] + [v for k, v in kkw.items() if k not in ("reference_arr", "prediction_arr") and v is not None]
                ctx.decide("R13.1", init, knode, f"{construct}:{cls_txt}:noselect", "no label selection is applied to the binarised arrays", not extra, {"extra": repr(extra)})
                # in-place stores on caller arrays
                bad = [(n, b) for (n, b, idx, v, fresh) in it.root.stores if not fresh]
                ctx.decide("R13.1", init, init.node, f"{construct}:{cls_txt}:nomutation", "no in-place store reaches the caller's arrays", not bad, {"stores": [norm(n) for n, _ in bad]})
        # independence of tp / lists
    for key, d in results_by_tp.items():
        if len(d) >= 2:
            vals = set(d.values())
            ctx.decide("R13.1", init, init.node, f"{init.qual}:metric={key[0]}:pred_empty={key[1]},ref_empty={key[2]}:independent", "global metric does not depend on tp, the instance counts or the per-instance lists", len(vals) == 1, {str(k): v for k, v in d.items()})
    # a handler may prescribe None (EdgeCaseResult.NONE) for an empty foreground: the metric is
    # then *reported* as None - calculated, not in error, not re-computed on access
    ech_none, _ = build_edge_case_handler(prog, metrics, none_values=True)
    for m in metrics[:2]:
        name = m.attrs["_name_"]
        attr = f"global_bin_{name.lower()}"
        for out, o, pred, ref, it in run_constructor(ctx, metrics, ech_none, [m], 0, {}, 3, 5):
            em = _emptiness(out, pred, ref, None)
            if out.kind == "raise" or em is None or (em[0], em[1]) not in EXPECT:
                continue
            cn = f"{init.qual}:metric={name}:none-valued handler:pred_empty={em[0]},ref_empty={em[1]}"
            e = (o.attrs.get("_evaluation_metrics") or {}).get(attr)
            got = o.attrs.get(attr, "?")
            state = (e.attrs.get("_was_calculated"), e.attrs.get("_error")) if isinstance(e, Obj) else None
            ctx.decide("R13.2", init, init.node, cn, "a prescribed None is reported as the metric's value (registered as calculated, not as missing or failed)", got is None and state == (True, False), {"got": repr(got), "(was_calculated, error)": repr(state)})
    # requesting several global metrics at once gives each metric the value it has on its own
    runs = run_constructor(ctx, metrics, ech, list(metrics), 0, {})
    for out, o, pred, ref, it in runs:
        em = _emptiness(out, pred, ref, None)
        if em is None or out.kind == "raise":
            ctx.decide("R13.1", init, out.node, f"{init.qual}:all-metrics", "requesting all global metrics together is evaluable", False if out.kind == "raise" else None, {"outcome": out.kind, "exc": out.exc, "decisions": [norm(n) for n, _, _ in out.decisions if isinstance(n, ast.AST)][:4]})
            continue
        pe, re_ = em
        for m in metrics:
            name = m.attrs["_name_"]
            single = results_by_tp.get((name, pe, re_), {}).get(0)
            got = repr(o.attrs.get(f"global_bin_{name.lower()}"))
            if single is None:
                continue
            ctx.decide("R13.1", init, init.node, f"{init.qual}:all-metrics:{name}:pred_empty={pe},ref_empty={re_}", f"global_bin_{name.lower()} does not depend on which other global metrics are requested", got == single, {"alone": single, "with_all": got})
    # R13.3: metric not requested -> not computed
    runs = run_constructor(ctx, metrics, ech, [], 0, {})
    for out, o, pred, ref, it in runs:
        ctx.decide("R13.3", init, init.node, f"{init.qual}:unrequested", "without requested global metrics no kernel is evaluated and no global value is set", not it.root.kernel_calls and all(o.attrs.get(f"global_bin_{m.attrs['_name_'].lower()}") is None for m in metrics), {"kernel_calls": len(it.root.kernel_calls)})
    # direct call of _calc_global_bin_metric with do_binarize=True
    check_direct(ctx, metrics, ech, calc)
    if rows < 4 * len(metrics):
        ctx.undecided("R13.floor", init, init.node, "floor:R13", f"only {rows} (metric x emptiness x tp) rows were evaluated")


def check_direct(ctx: Ctx, metrics, ech, calc):
    prog = ctx.prog
    rcls = calc.cls
    m = metrics[0]
    name = m.attrs["_name_"]
    holder = {}

    # the object the method is called on is one its own constructor built (built for the one metric the call asks for):
    # whatever attributes the constructor sets are there, under whatever name
    proto = next((o_ for out_, o_, _p, _r, _it in run_constructor(ctx, metrics, ech, [m], 1, {}) if out_.kind != "raise"), None)

    def make(prefix):
        o = Obj(rcls, dict(proto.attrs)) if proto is not None else Obj(rcls, {"_edge_case_handler": ech, "_global_metrics": [m]})
        pred, ref = AArr("PRED", fresh=False), AArr("REF", fresh=False)
        args = {}
        for p in calc.call_params:
            n = p.name.lower()
            if "metric" in n:
                args[p.name] = m
            elif n.startswith("pred"):
                args[p.name] = pred
            elif n.startswith("ref"):
                args[p.name] = ref
        it = ArrInterp(prog, calc, args, metrics=metrics, self_obj=o, prefix=prefix)
        holder[len(holder)] = (pred, ref, it)
        return it

    outs = enumerate_paths(make)
    for i, out in enumerate(outs):
        pred, ref, it = holder[i]
        em = _emptiness(out, pred, ref, None)
        construct = f"{calc.qual}:do_binarize=default"
        if em is None or out.kind != "return":
            ctx.undecided("R13.2", calc, out.node, construct, f"direct call not evaluable: {out.kind} {out.exc}")
            continue
        pe, re_ = em
        if (pe, re_) in EXPECT:
            want = Sym(f"H_{name}.{EXPECT[(pe, re_)]}.value")
            ctx.decide("R13.2", calc, out.node, f"{construct}:pred_empty={pe},ref_empty={re_}", f"value is the handler's {EXPECT[(pe, re_)]} result", out.value == want, {"got": repr(out.value), "want": repr(want)})
        elif pe is False and re_ is False:
            kc = it.root.kernel_calls
            ok = bool(kc) and isinstance(kc[-1][1][0] if kc[-1][1] else None, AArr)
            if ok:
                a_ref, a_pred = kc[-1][1][0], kc[-1][1][1]
                ctx.decide("R13.1", calc, out.node, f"{construct}:kernel", "default path binarises copies and keeps the slots uncrossed", a_ref.side == "REF" and a_pred.side == "PRED" and a_ref.content == "bin" and a_pred.content == "bin" and a_ref.is_fresh() and a_pred.is_fresh() and not a_ref.casts and not a_pred.casts, {"ref": a_ref.describe(), "pred": a_pred.describe()})
            else:
                ctx.undecided("R13.1", calc, out.node, f"{construct}:kernel", "kernel call not observed")


_R = "panoptica/panoptica_result.py"

VARIANTS = [
    Variant("C13-m-d2", "R13.2", "mutant", [(_R, "metric, 0, int(not prediction_empty), int(not reference_empty)", "metric, 0, int(prediction_empty), int(reference_empty)")], control=True, note="defect D2 of the original tree"),
    Variant("C13-m-flags-crossed", "R13.2", "mutant", [(_R, "metric, 0, int(not prediction_empty), int(not reference_empty)", "metric, 0, int(not reference_empty), int(not prediction_empty)")]),
    Variant("C13-m-nocopy", "R13.1", "mutant", [(_R, "            pred_binary = prediction_arr.copy()\n            ref_binary = reference_arr.copy()\n            pred_binary[pred_binary != 0] = 1\n            ref_binary[ref_binary != 0] = 1\n            arrays_present = True", "            pred_binary = prediction_arr\n            ref_binary = reference_arr.copy()\n            pred_binary[pred_binary != 0] = 1\n            ref_binary[ref_binary != 0] = 1\n            arrays_present = True")], control=True),
    Variant("C13-m-gt1", "R13.1", "mutant", [(_R, "            pred_binary[pred_binary != 0] = 1\n            ref_binary[ref_binary != 0] = 1\n            arrays_present = True", "            pred_binary[pred_binary > 1] = 1\n            ref_binary[ref_binary != 0] = 1\n            arrays_present = True")]),
    Variant("C13-m-uint8", "R13.1", "mutant", [(_R, "            pred_binary = prediction_arr.copy()\n            ref_binary = reference_arr.copy()\n            pred_binary[pred_binary != 0] = 1\n            ref_binary[ref_binary != 0] = 1\n            arrays_present = True", "            pred_binary = prediction_arr.astype(np.uint8)\n            ref_binary = reference_arr.astype(np.uint8)\n            pred_binary[pred_binary != 0] = 1\n            ref_binary[ref_binary != 0] = 1\n            arrays_present = True")]),
    Variant("C13-m-swapped-positional", "R13.1", "mutant", [(_R, "        return metric(\n            reference_arr=ref_binary,\n            prediction_arr=pred_binary,\n        )", "        return metric(pred_binary, ref_binary)")]),
    Variant("C13-m-only-pred-empty", "R13.2", "mutant", [(_R, "        if prediction_empty or reference_empty:", "        if prediction_empty:")]),
    Variant("C13-t-any", "R13.2", "twin", [(_R, "        prediction_empty = pred_binary.sum() == 0\n        reference_empty = ref_binary.sum() == 0", "        prediction_empty = not pred_binary.any()\n        reference_empty = np.count_nonzero(ref_binary) == 0")]),
    Variant("C13-t-astype-bool", "R13.1", "twin", [(_R, "            pred_binary = prediction_arr.copy()\n            ref_binary = reference_arr.copy()\n            pred_binary[pred_binary != 0] = 1\n            ref_binary[ref_binary != 0] = 1\n            arrays_present = True", "            pred_binary = (prediction_arr != 0).astype(np.uint8)\n            ref_binary = (reference_arr != 0).astype(np.uint8)\n            arrays_present = True")]),
    Variant("C13-t-positional-right", "R13.1", "twin", [(_R, "        return metric(\n            reference_arr=ref_binary,\n            prediction_arr=pred_binary,\n        )", "        return metric(ref_binary, pred_binary)")]),
]
