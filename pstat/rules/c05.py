"""C05 - instance approximation yields exactly the connected components (decided: dispatch,
library call configuration, count and dtype plumbing; the labelling itself is library code)."""

from __future__ import annotations

import ast

from ..absval import EnumSym, Interp, Obj, RaiseSignal, Sym, Unknown, enumerate_paths
from ..flow import path_condition
from ..model import AnchorMissing, Func, Undecided, dotted, norm, walk_no_nested
from ..report import Ctx
from ..variants import Variant
from .arrdom import AArr, ArrInterp
from .common import attr_writers
from .resultrun import ResultInterp, Tagged

INFO = {
    "explanation": "Rounds 4/5: R05.1 observes the library calls actually made (wherever they sit) and runs two-call histories on one approximator object (n_dim 3->2, 2->3, 3->1, 1->4); the name-based dtype rule was replaced by R05.6 (values). (R05.1) ConnectedComponentsInstanceApproximator._approximate_instances is run abstractly on cca_backend in {None, cc3d, scipy} x n_dim in {1,2,3,4} x empty/non-empty sides: backend table (None: <3-D scipy, >=3-D cc3d; else as given), the same backend for both sides, prediction/reference arrays and counts uncrossed, empty sides skipped with count 0; (R05.2) _connected_components routes each enum member to its library, cc3d with return_N=True and without connectivity/binary_image overrides, scipy.ndimage.label without structure override, outputs returned uncast; (R05.3) the output dtype is the smallest fitting uint of the maximum over BOTH labelled outputs (not of the semantic labels); (R05.4) _get_smallest_fitting_uint returns a dtype that holds its argument on every boundary; negative labels are rejected before the unsigned cast and the semantic dtype is sized from both label ranges; (R05.5) the backend decision does not depend on state written by earlier calls. (R05.6) approximate_instances is run on symbolic label chains of several sizes: the dtype the semantic arrays are cast to before labelling is fitted to a value that dominates every label of both arrays, and the value tested for negativity is dominated by every label. Further: R10.4 (the dimensionality the default backend is chosen by is the arrays' ndim). Round 6: approximators are built through their own constructor (package decorators that change arguments are interpreted), whatever the backend parameter is called. Round 8: the library of a backend is read off the routing (further backends and defaulted options of the approximator are allowed); voxel counts per component (np.bincount of a labelled output, flatnonzero of `counts < k`) are modelled: every component has at least one voxel, only the background bin can be empty - R05.2 is judged on each named class of input (array with / without background voxels), a count moved by a known non-zero amount is a violation. Round 9: the default backend beyond three dimensions is outside the property (any single library accepted there; histories compare with a fresh object's run); component counts stand for the maxima of the labelled outputs in the dtype rule; generator expressions are single-use (a second min / max over one sees it empty), min / max of an empty sequence give their default.",
    "trusted_base": ["cc3d.connected_components (26/8-connectivity, label-aware) and scipy.ndimage.label (face connectivity) compute connected components - C extensions, not analysed", "Python semantics of the modelled AST subset"],
    "assumptions": [],
    "not_decided": ["that the libraries' output is the set of connected components and keeps the foreground", "memory-layout independence of the libraries"],
    "technique": "static analysis: abstract interpretation of the dispatch code over a finite configuration table; library-call configuration lint; capacity table of the dtype selector",
}

CAPS = {"uint8": 2**8 - 1, "uint16": 2**16 - 1, "uint32": 2**32 - 1, "uint64": 2**64 - 1}


def fitting_uint_table(ctx: Ctx, rule="R05.4"):
    prog = ctx.prog
    f = prog.func("utils.numpy_utils:_get_smallest_fitting_uint")
    consts = {0, 1, 255, 256, 65535, 65536, 2**24, 2**32 - 1, 2**32, 2**63, 2**64 - 1}
    for n in walk_no_nested(f.node):
        if isinstance(n, ast.Constant) and isinstance(n.value, int) and not isinstance(n.value, bool):
            consts |= {n.value - 1, n.value, n.value + 1}
    p0 = f.call_params[0].name
    rows = 0
    for v in sorted(c for c in consts if 0 <= c <= 2**64 - 1):
        it = Interp(prog, f, {p0: v})
        out = it.run()
        construct = f"{f.qual}:value={v}"
        if out.decisions or out.kind != "return" or not isinstance(out.value, Sym):
            ctx.undecided(rule, f, out.node, construct, f"dtype selector not evaluable: {out.kind} {out.value!r}")
            continue
        name = out.value.name.split(".")[-1]
        cap = CAPS.get(name)
        rows += 1
        if cap is None:
            ctx.decide(rule, f, out.node, construct, "returns an unsigned numpy integer type", False if name.startswith(("int", "float")) else None, {"got": out.value.name})
            continue
        ctx.decide(rule, f, out.node, construct, f"returned dtype holds the value ({name}: {v} <= {cap})", v <= cap, {"dtype": name, "value": v}, nontrivial=v in (255, 256, 65535, 65536, 2**32 - 1, 2**32))
    if rows < 10:
        ctx.undecided(rule + ".floor", f, f.node, "floor:" + rule, f"{rows} boundary rows evaluated")


def new_approximator(prog, cls, backend):
    """An approximator built by its own constructor (decorators included) with the given backend; the
    constructor takes the backend as its only parameter, whatever that is called."""
    init = cls.lookup("__init__")
    if init is None:
        return Obj(cls, {})
    ps = list(init.call_params)
    # the backend parameter: named / annotated as such, else the first one; every further option keeps its default
    bp = next((p for p in ps if "backend" in p.name.lower() or (p.annotation is not None and "CCABackend" in norm(p.annotation))), ps[0] if ps else None)
    if bp is None or any(p.default is None and p is not bp and p.kind in ("pos", "kwonly") for p in ps):
        raise AnchorMissing(f"{init.qual}: parameters {[p.name for p in ps]} (expected the backend and options with defaults)")
    ip = [bp.name]
    host = ResultInterp(prog, init, {ip[0]: backend}, self_obj=Obj(cls, {}))
    try:
        o = host.construct(cls, [], {ip[0]: backend}, init.node)
    except RaiseSignal as e:
        raise Undecided(f"{init.qual} raises {e.exc_name} for backend {backend!r}")
    if host.root.taken or not isinstance(o, Obj):
        raise Undecided(f"{init.qual} not evaluable")
    return o


class _CountsV:
    """np.bincount of a labelled output (components 1..n, each with at least one voxel; bin 0 = background,
    possibly empty).  from_label: first label the vector starts at (after counts[1:] it is 1)."""

    def __init__(self, side, from_label=0):
        self.side, self.from_label = side, from_label


class _BelowV:
    """counts < k  (elementwise): which entries are below the bound"""

    def __init__(self, counts, k):
        self.counts, self.k = counts, k


class _IdxV:
    """indices of the true entries of a _BelowV (flatnonzero), shifted by `shift`: certainly none (`empty`),
    or possibly the background bin only"""

    def __init__(self, empty, shift=0):
        self.empty, self.shift = empty, shift


# classes of inputs this domain splits on by itself: tag -> {decision: what the input looks like}
_INPUT_CLASSES = {"background-bin-below-bound": {True: "an array without a single background voxel (bin 0 of the counts is empty)", False: "an array with background voxels"}}


def _cc_side(x):
    """side name of a labelled output (the dispatcher's result or a library's own), else None"""
    if isinstance(x, AArr) and str(x.side).startswith("CC_"):
        return x.side
    if isinstance(x, Tagged) and x.name.startswith("libout:"):
        return x.name
    return None


class ApproxInterp(ArrInterp):
    def get_attr(self, base, attr, node):
        if isinstance(base, Tagged) and base.name.startswith("libout:") and attr in ("ravel", "flatten", "reshape"):
            from .arrdom import _AMethod

            return _AMethod(base, attr)
        return super().get_attr(base, attr, node)

    def __init__(self, *a, **kw):
        super().__init__(*a, **kw)
        self.root.cca_calls = []
        self.root.fit_calls = []
        self.root.pair_calls = []
        self.root.lib_calls = []

    def external_call(self, name, args, kwargs, node):
        r = self.root
        if self.prog.is_anchor(name, "_functionals:_connected_components"):
            arr = args[0] if args else kwargs.get("array")
            ccf = self.prog.func("_functionals:_connected_components")
            be = args[1] if len(args) > 1 else kwargs.get(ccf.call_params[1].name if len(ccf.call_params) > 1 else "cca_backend")
            r.cca_calls.append((arr, be, node))
            side = arr.side if isinstance(arr, AArr) else "?"
            out = AArr("CC_" + side, True)
            return (out, Sym("N_" + side))
        if self.prog.is_anchor(name, "utils.numpy_utils:_get_smallest_fitting_uint"):
            r.fit_calls.append((args[0] if args else None, node))
            return Sym("FITDTYPE")
        if name.endswith("UnmatchedInstancePair") or name.endswith("MatchedInstancePair"):
            r.pair_calls.append((name, args, kwargs, node))
            return Tagged(name.split(":")[-1], args, kwargs)
        if name in ("cc3d.connected_components", "scipy.ndimage.label", "scipy.ndimage.measurements.label", "skimage.measure.label"):
            r.lib_calls.append((name, args, kwargs, node))
            a0 = args[0] if args else None
            if getattr(r, "lib_as_cc", False):
                # dispatch view: which library labels which side (wherever the call sits)
                r.cca_calls.append((a0, "lib:" + name, node))
                side = a0.side if isinstance(a0, AArr) else "?"
                return (AArr("CC_" + side, True), Sym("N_" + side))
            return (Tagged("libout:" + name, [a0]), Sym("N"))
        if name in ("max", "builtin:max", "numpy.max", "numpy.maximum"):
            return Tagged("max", args)
        # voxel counts per component of a labelled output
        if name == "numpy.bincount" and args and _cc_side(args[0]) and not (set(kwargs) - {"minlength"}):
            return _CountsV(_cc_side(args[0]))
        if name == "numpy.flatnonzero" and len(args) == 1 and isinstance(args[0], _BelowV):
            b = args[0]
            if b.k <= 1 and b.counts.from_label >= 1:
                return _IdxV(True)  # every component has at least one voxel: none is below a bound of 0 or 1
            if b.k <= 1 and b.counts.from_label == 0:
                return _IdxV(None)  # only the background bin can be empty
            return Unknown("components below the size bound")
        return super().external_call(name, args, kwargs, node)

    def subscript_hook(self, base, idx, node):
        if isinstance(base, _CountsV) and isinstance(idx, slice) and idx.step in (None, 1) and idx.stop is None and isinstance(idx.start, int) and idx.start >= 0:
            return _CountsV(base.side, base.from_label + idx.start)
        return super().subscript_hook(base, idx, node)

    def compare_hook(self, op, l, r, node):
        if isinstance(l, _CountsV) and isinstance(r, int) and not isinstance(r, bool) and isinstance(op, (ast.Lt, ast.LtE)):
            return _BelowV(l, r if isinstance(op, ast.Lt) else r + 1)
        return super().compare_hook(op, l, r, node)

    def binop_hook(self, op, l, r, node):
        if isinstance(l, Sym) and (l.name == "N" or l.name.startswith("N_")) and isinstance(r, int) and not isinstance(r, bool) and isinstance(op, (ast.Add, ast.Sub)):
            # a component count moved by a known amount: the same count, or a different one
            return l if r == 0 else Tagged("count-offset", [l, r if isinstance(op, ast.Add) else -r])
        if isinstance(l, _IdxV) and isinstance(r, int) and isinstance(op, (ast.Add, ast.Sub)):
            return _IdxV(l.empty, l.shift + (r if isinstance(op, ast.Add) else -r))
        return super().binop_hook(op, l, r, node)

    def call_builtin(self, name, args, kwargs, node):
        if name == "len" and len(args) == 1 and isinstance(args[0], _IdxV):
            if args[0].empty is True:
                return 0
            # the background bin may or may not be counted as "too small": one entry or none
            return 1 if self.decide(node, self.root.__dict__.setdefault("_bg_small", Unknown("background-bin-below-bound"))) else 0
        if name == "int" and len(args) == 1 and isinstance(args[0], Sym) and args[0].name.startswith("N_"):
            return args[0]  # a component count as a python int is that count
        if name in ("int", "float") and len(args) == 1 and isinstance(args[0], Tagged) and args[0].name in ("max", "min", "amax"):
            return args[0]  # a numeric conversion of a maximum is that maximum
        if name in ("max", "min") and args and not all(isinstance(a, (int, float)) for a in args):
            return Tagged(name, args)
        return super().call_builtin(name, args, kwargs, node)

    def arr_method(self, a, name, args, kwargs, node):
        if isinstance(a, AArr) and name == "max":
            return Tagged("amax", [a])
        if _cc_side(a) and name in ("ravel", "flatten") and not args and not kwargs:
            return a  # the same voxels as one long vector (for counting)
        if _cc_side(a) and name == "reshape" and args in ([-1], [(-1,)]):
            return a
        if isinstance(a, AArr) and name == "astype":
            out = super().arr_method(a, name, args, kwargs, node)
            if isinstance(out, AArr):
                out.cast_to = args[0] if args else None
                out.cast_of = a
                out.side = a.side
            return out
        return super().arr_method(a, name, args, kwargs, node)


def check_dispatch(ctx: Ctx):
    prog = ctx.prog
    cls = prog.cls("instance_approximator:ConnectedComponentsInstanceApproximator")
    f = cls.methods.get("_approximate_instances")
    if f is None:
        raise AnchorMissing("ConnectedComponentsInstanceApproximator._approximate_instances")
    be_cls = prog.cls("utils.constants:CCABackend")
    spcls = prog.cls("utils.processing_pair:SemanticPair")
    cc = prog.func("_functionals:_connected_components")
    fit = prog.func("utils.numpy_utils:_get_smallest_fitting_uint")
    ucls = prog.cls("utils.processing_pair:UnmatchedInstancePair")
    members = [m for m, v in be_cls.class_assigns().items() if not isinstance(v, (ast.FunctionDef, ast.Lambda))]
    if not {"cc3d", "scipy"} <= set(members):
        ctx.undecided("R05.1", None, be_cls.node, "CCABackend", f"backend enum members {members} lack the two the property names (cc3d, scipy)")
    # which library labels the components for which member: read off _connected_components itself
    lib_of = {}
    for mname in members:
        try:
            arr0 = AArr("PRED", False)
            it0 = ApproxInterp(prog, cc, {cc.call_params[0].name: arr0, cc.call_params[1].name: EnumSym(be_cls, mname)})
            it0.root.lib_as_cc = True
            o0 = it0.run()
            libs = {c[1] for c in it0.root.cca_calls}
            if o0.kind == "return" and not o0.decisions and len(libs) == 1:
                lib_of[mname] = libs.pop()
        except (Undecided, RaiseSignal):
            pass
    rows = 0
    for given in [None] + members:
        for ndim in (1, 2, 3, 4):
            for pe, re_ in ((False, False), (True, False), (False, True)):
                if (pe or re_) and ndim not in (2, 3):
                    continue
                self_obj = new_approximator(prog, cls, EnumSym(be_cls, given) if given else None)
                pred, ref = AArr("PRED", False), AArr("REF", False)
                pair = Obj(spcls, {"n_dim": ndim, "_prediction_arr": pred, "_reference_arr": ref, "_pred_labels": () if pe else (Sym("a"),), "_ref_labels": () if re_ else (Sym("b"), Sym("c"))})
                pp = next((p.name for p in f.call_params if "pair" in p.name.lower()), None)
                if pp is None:
                    raise AnchorMissing(f"{f.qual}: no pair parameter")
                holder = []

                def make(prefix, pair=pair, self_obj=self_obj):
                    it_ = ApproxInterp(prog, f, {pp: pair}, self_obj=self_obj, prefix=prefix)
                    it_.root.no_inline = {fit.qual, ucls.lookup("__init__").qual}
                    it_.root.lib_as_cc = True
                    holder.append(it_)
                    return it_

                outs_ = enumerate_paths(make, max_paths=16)
                construct = f"{f.qual}:backend={given},n_dim={ndim},pred_empty={pe},ref_empty={re_}"
                if len(outs_) > 1:
                    used = []
                    for o_, i_ in zip(outs_, holder):
                        used.append(sorted({c[1] if isinstance(c[1], str) else repr(c[1]) for c in i_.root.cca_calls}))
                    conds = sorted({norm(d[0]) for o_ in outs_ for d in o_.decisions if isinstance(d[0], ast.AST)})
                    if len({tuple(u) for u in used}) > 1:
                        ctx.violated("R05.1", f, f.node, construct + ":backend", "the backend is not determined by the configured backend and the input's dimensionality: it also depends on " + "; ".join(conds)[:160], {"backends_on_paths": used})
                    else:
                        ctx.undecided("R05.1", f, f.node, construct, "dispatch splits on " + "; ".join(conds)[:160])
                    continue
                it, out = holder[0], outs_[0]
                if out.decisions or out.kind != "return":
                    ctx.decide("R05.1", f, out.node, construct, "dispatch evaluable", None if out.decisions else False, {"outcome": out.kind, "exc": out.exc})
                    continue
                rows += 1
                # the property fixes the default for 1-D to 3-D input; what a default object does with more dimensions is
                # outside of it (any single library is accepted there)
                want_be = given if given else ("cc3d" if ndim == 3 else "scipy" if ndim < 3 else None)
                calls = it.root.cca_calls
                sides = sorted(c[0].side for c in calls if isinstance(c[0], AArr))
                want_sides = sorted(s for s, e in (("PRED", pe), ("REF", re_)) if not e)
                ctx.decide("R05.1", f, out.node, construct + ":sides", "connected components are computed exactly for the non-empty sides", sides == want_sides, {"got": sides})
                bes = {c[1] if isinstance(c[1], str) else repr(c[1]) for c in calls}
                if calls and want_be is None:
                    ctx.decide("R05.1", f, out.node, construct + ":backend", "one library labels both sides (default backend beyond three dimensions: not fixed by the property)", len(bes) == 1, {"got": sorted(bes)}, nontrivial=False)
                elif calls:
                    ctx.decide("R05.1", f, out.node, construct + ":backend", f"backend used is {want_be} for both sides", (bes == {lib_of[want_be]}) if want_be in lib_of else None, {"got": sorted(bes), "library_of_backend": lib_of.get(want_be)})
                if len(it.root.pair_calls) != 1:
                    ctx.undecided("R05.3", f, out.node, construct, "result pair construction not observed")
                    continue
                _, pargs, pkw, pnode = it.root.pair_calls[0]
                names = [p.name for p in ucls.lookup("__init__").call_params]
                kw = dict(zip(names, pargs))
                kw.update(pkw)
                pa, ra = kw.get("prediction_arr"), kw.get("reference_arr")
                okp = isinstance(pa, AArr) and pa.side == ("PRED" if pe else "CC_PRED")
                okr = isinstance(ra, AArr) and ra.side == ("REF" if re_ else "CC_REF")
                ctx.decide("R05.3", f, pnode, construct + ":arrays", "labelled prediction/reference reach the result uncrossed", okp and okr, {"prediction": repr(pa), "reference": repr(ra)})
                ctx.decide("R05.3", f, pnode, construct + ":counts", "reported instance counts are the library's component counts of the same side (0 for an empty side)", kw.get("n_prediction_instance") == (0 if pe else Sym("N_PRED")) and kw.get("n_reference_instance") == (0 if re_ else Sym("N_REF")), {"n_pred": repr(kw.get("n_prediction_instance")), "n_ref": repr(kw.get("n_reference_instance"))})
                # dtype plumbing: cast target must come from the fitting function applied to the max over both outputs
                for nm, a in (("prediction", pa), ("reference", ra)):
                    ct = getattr(a, "cast_to", None)
                    c2 = construct + f":dtype:{nm}"
                    if ct is None:
                        ctx.ok("R05.3", f, pnode, c2, "labelled array is passed on uncast", None, nontrivial=False)
                        continue
                    if ct == Sym("FITDTYPE"):
                        arg = it.root.fit_calls[-1][0] if it.root.fit_calls else None
                        srcs = _amax_sources(arg)
                        want_src = sorted(x for x in (("PRED" if pe else "CC_PRED"), ("REF" if re_ else "CC_REF")))
                        ctx.decide("R05.3", f, pnode, c2, "output dtype = smallest fitting uint of the maximum over both labelled outputs", {x for x in want_src if x.startswith("CC_")} <= set(srcs) <= set(want_src) and _is_max_tree(arg), {"sized_from": sorted(srcs), "expression": repr(arg)[:120]})
                    else:
                        txt = ct.name if isinstance(ct, Sym) else repr(ct)
                        narrow = isinstance(ct, Sym) and ct.name.startswith("dtypeof:")
                        ctx.decide("R05.3", f, pnode, c2, "output dtype is sized for the component ids", False if narrow else None, {"cast_to": txt, "why": "dtype of the semantic input is sized for the semantic label values, not for the number of components"})
    if rows < 20:
        ctx.undecided("R05.1.floor", f, f.node, "floor:R05.1", f"{rows} configuration rows evaluated, confirmed floor is 20")
    # the same approximator object used for inputs of different dimensionality: the second call's
    # backend is the one a fresh object would use (whatever the object remembers between calls)
    hist = 0
    for given in [None] + members:
        for nd1, nd2 in ((3, 2), (2, 3), (3, 1), (1, 4)):
            self_obj = new_approximator(prog, cls, EnumSym(be_cls, given) if given else None)
            seen = []
            okrun = True
            for nd in (nd1, nd2):
                pair = Obj(spcls, {"n_dim": nd, "_prediction_arr": AArr("PRED", False), "_reference_arr": AArr("REF", False), "_pred_labels": (Sym("a"),), "_ref_labels": (Sym("b"), Sym("c"))})
                it_ = ApproxInterp(prog, f, {pp: pair}, self_obj=self_obj)
                it_.root.no_inline = {fit.qual, ucls.lookup("__init__").qual}
                it_.root.lib_as_cc = True
                o_ = it_.run()
                if o_.decisions or o_.kind != "return":
                    okrun = False
                    break
                seen.append(sorted({c[1] if isinstance(c[1], str) else repr(c[1]) for c in it_.root.cca_calls}))
            construct = f"{f.qual}:backend={given},history=n_dim {nd1} then {nd2}"
            if not okrun:
                ctx.undecided("R05.1", f, f.node, construct, "second call on the same object not evaluable")
                continue
            hist += 1
            wb = given if given else ("cc3d" if nd2 == 3 else "scipy" if nd2 < 3 else None)
            if wb is None:
                # beyond three dimensions the default is not fixed by the property: compare with a fresh object's run
                fresh_obj = new_approximator(prog, cls, None)
                pair = Obj(spcls, {"n_dim": nd2, "_prediction_arr": AArr("PRED", False), "_reference_arr": AArr("REF", False), "_pred_labels": (Sym("a"),), "_ref_labels": (Sym("b"), Sym("c"))})
                it_f = ApproxInterp(prog, f, {pp: pair}, self_obj=fresh_obj)
                it_f.root.no_inline = {fit.qual, ucls.lookup("__init__").qual}
                it_f.root.lib_as_cc = True
                o_f = it_f.run()
                fresh = sorted({c[1] if isinstance(c[1], str) else repr(c[1]) for c in it_f.root.cca_calls}) if (o_f.kind == "return" and not o_f.decisions) else None
                ctx.decide("R05.1", f, f.node, construct, "the second call on the same object uses the backend a fresh object would", (seen[1] == fresh) if fresh is not None else None, {"first_call": seen[0], "second_call": seen[1], "fresh_object": fresh})
                continue
            want = [lib_of.get(wb)]
            ctx.decide("R05.1", f, f.node, construct, f"the second call on the same object uses backend {wb} (as a fresh object would)", (seen[1] == want) if want[0] else None, {"first_call": seen[0], "second_call": seen[1]})
    if hist < 12:
        ctx.undecided("R05.1.floor", f, f.node, "floor:R05.1:history", f"{hist} two-call histories evaluated, confirmed floor is 12")


def _is_max_tree(t) -> bool:
    """max(...) / np.maximum(...) nested over array maxima only (no min, no arithmetic)"""
    if isinstance(t, Sym) and t.name.startswith("N_"):
        return True
    if isinstance(t, int) and not isinstance(t, bool) and t == 0:
        return True  # an empty side has no label
    if isinstance(t, Tagged):
        if t.name == "amax":
            return True
        if t.name in ("max", "numpy.maximum", "builtin:max", "numpy.max"):
            flat = []
            for a in t.args:
                flat += list(a) if isinstance(a, (list, tuple)) else [a]
            return bool(flat) and all(_is_max_tree(x) for x in flat)
    return False


def _amax_sources(t) -> list:
    out = []
    if isinstance(t, Sym) and t.name.startswith("N_"):
        return ["CC_" + t.name[2:]]  # the component count of a side is the largest label of its labelled output
    if isinstance(t, Tagged):
        if t.name == "amax" and t.args and isinstance(t.args[0], AArr):
            out.append(t.args[0].side)
        else:
            for a in t.args:
                if isinstance(a, (list, tuple)):
                    for x in a:
                        out += _amax_sources(x)
                else:
                    out += _amax_sources(a)
    return out


def check_library_calls(ctx: Ctx):
    prog = ctx.prog
    f = prog.func("_functionals:_connected_components")
    be_cls = prog.cls("utils.constants:CCABackend")
    pa = f.call_params
    arr_p = pa[0].name
    be_p = next((p.name for p in pa if "backend" in p.name.lower()), None)
    if be_p is None:
        raise AnchorMissing(f"{f.qual}: no backend parameter")
    want_lib = {"cc3d": "cc3d.connected_components", "scipy": ("scipy.ndimage.label", "scipy.ndimage.measurements.label")}
    for member in ("cc3d", "scipy"):
        arr = AArr("IN", False)
        construct = f"{f.qual}:backend={member}"
        holder = []

        def make(prefix, arr=arr, member=member):
            it_ = ApproxInterp(prog, f, {arr_p: arr, be_p: EnumSym(be_cls, member)}, prefix=prefix)
            holder.append(it_)
            return it_

        try:
            outs = enumerate_paths(make, max_paths=8)
        except Undecided:
            outs = []
        # the only accepted split is over a class of inputs this domain names itself (an array without
        # background voxels); every class is judged, any other decision leaves the rule undecided
        named = all(isinstance(c, Unknown) and c.tag in _INPUT_CLASSES for o_ in outs for (_, c, _d) in o_.decisions)
        if not outs or not named or any(o_.kind != "return" or len(i_.root.lib_calls) != 1 for o_, i_ in zip(outs, holder)):
            o_ = outs[0] if outs else None
            ctx.decide("R05.2", f, o_.node if o_ else f.node, construct, "exactly one library call", None if (not outs or not named or any(o.decisions for o in outs)) else False, {"outcome": o_.kind if o_ else "too many paths", "calls": [c[0] for c in holder[0].root.lib_calls] if holder else []})
            continue
        bad_path = None
        if len(outs) > 1:
            for o_, i_ in zip(outs, holder):
                rv_ = o_.value
                if isinstance(rv_, tuple) and len(rv_) == 2 and isinstance(rv_[1], Tagged) and rv_[1].name == "count-offset":
                    bad_path = (o_, " and ".join(_INPUT_CLASSES[c.tag][d] for (_, c, d) in o_.decisions))
                    break
        if bad_path is not None:
            o_, cls_txt = bad_path
            ctx.decide("R05.2", f, o_.node, construct + ":return", "labelled array and count are returned as the library produced them (no cast to the input dtype)", False, {"input": cls_txt, "returned": repr(o_.value)})
            continue
        it, out = holder[0], outs[0]
        name, args, kwargs, node = it.root.lib_calls[0]
        wl = want_lib[member]
        ctx.decide("R05.2", f, node, construct + ":library", f"backend {member} calls its own library", name == wl or name in wl, {"called": name})
        ctx.decide("R05.2", f, node, construct + ":input", "the library receives the input array itself", bool(args) and args[0] is arr, {"arg": repr(args[0]) if args else None})
        if member == "cc3d":
            conn = kwargs.get("connectivity")
            ctx.decide("R05.2", f, node, construct + ":connectivity", "cc3d runs with full (26/8) connectivity", conn is None or conn in (26, 8), {"connectivity": repr(conn)})
            ctx.decide("R05.2", f, node, construct + ":labels", "cc3d separates different semantic labels (binary_image not set)", not kwargs.get("binary_image", False), {"binary_image": repr(kwargs.get("binary_image"))})
            ctx.decide("R05.2", f, node, construct + ":count", "component count is requested (return_N=True)", kwargs.get("return_N") is True, {"return_N": repr(kwargs.get("return_N"))}, nontrivial=False)
        else:
            st = kwargs.get("structure", args[1] if len(args) > 1 else None)
            verdict, shown = (True, "None") if st is None else (None, repr(st))
            if st is not None and isinstance(node, ast.Call):
                # decided by the form of the structuring element: np.ones(...) is full connectivity,
                # generate_binary_structure(n, 1) is the default; anything else stays undecided
                se = next((k.value for k in node.keywords if k.arg == "structure"), node.args[1] if len(node.args) > 1 else None)
                if isinstance(se, ast.Name):
                    from .common import single_def as _sd

                    se = _sd(f, se.id) or se
                if isinstance(se, ast.Call):
                    fn = dotted(se.func) or ""
                    if fn.split(".")[-1] in ("ones", "ones_like", "full"):
                        verdict, shown = False, norm(se) + " (every neighbour incl. diagonals: full connectivity)"
                    elif fn.split(".")[-1] == "generate_binary_structure" and len(se.args) == 2 and isinstance(se.args[1], ast.Constant):
                        verdict = se.args[1].value == 1
                        shown = norm(se)
            ctx.decide("R05.2", f, node, construct + ":structure", "scipy label runs with its default face-connectivity structure", verdict, {"structure": shown})
        rv = out.value
        ok = isinstance(rv, tuple) and len(rv) == 2 and isinstance(rv[0], Tagged) and rv[0].name.startswith("libout:") and rv[1] == Sym("N")
        narrowed = isinstance(rv, tuple) and len(rv) == 2 and not isinstance(rv[0], Tagged)
        cast = narrowed and ".astype(" in repr(rv[0]) and "libout:" in repr(rv[0])
        ctx.decide("R05.2", f, out.node, construct + ":return", "labelled array and count are returned as the library produced them (no cast to the input dtype)", True if ok else (False if narrowed else None), {"returned": "the library's output passed through .astype(...)" if cast else repr(rv)})
    # unknown backend is rejected
    it = ApproxInterp(prog, f, {arr_p: AArr("IN", False), be_p: Sym("OTHER")})
    out = it.run()
    ctx.decide("R05.2", f, out.node, f"{f.qual}:backend=other", "an unknown backend is rejected", out.kind == "raise", {"outcome": out.kind}, nontrivial=False)


def check_negative_guard(ctx: Ctx):
    prog = ctx.prog
    f = prog.func("instance_approximator:InstanceApproximator.approximate_instances")
    casts = [c for c in prog.calls_in(f) if isinstance(c.func, ast.Attribute) and c.func.attr in ("set_dtype", "astype")]
    if not casts:
        ctx.undecided("R05.4", f, f.node, f"{f.qual}:cast", "no dtype cast of the semantic pair found")
        return
    for c in casts:
        pcs = path_condition(f, c)
        guard = None
        for pc in pcs:
            e = pc.expr
            if isinstance(e, ast.Compare) and len(e.ops) == 1 and isinstance(e.comparators[0], ast.Constant) and e.comparators[0].value == 0:
                if (isinstance(e.ops[0], (ast.GtE,)) and pc.polarity) or (isinstance(e.ops[0], ast.Lt) and not pc.polarity):
                    guard = pc
        ctx.decide("R05.4", f, c, f"{f.qual}:negative-guard", "the cast to an unsigned dtype is dominated by the rejection of negative labels", guard is not None, {"path_condition": [p.text() for p in pcs]})
    # (that the dtype is fitted to the labels of both sides is decided on values by R05.6)


def _deps(f: Func, e, depth=0) -> set:
    from .common import assignments_to

    out = set()
    if e is None or depth > 6:
        return out
    for n in ast.walk(e):
        if isinstance(n, ast.Name):
            out.add(n.id)
            for a in assignments_to(f, n.id):
                if isinstance(a, (ast.Assign, ast.AnnAssign)) and a.value is not None:
                    out |= _deps(f, a.value, depth + 1)
        elif isinstance(n, ast.Attribute):
            out.add(n.attr.lstrip("_"))
    return out


def check_stateless(ctx: Ctx):
    """R05.5: approximation methods do not write instance attributes that are read again."""
    prog = ctx.prog
    base = prog.cls("instance_approximator:InstanceApproximator")
    n = 0
    for cls in [base] + base.all_subclasses():
        for m in cls.methods.values():
            if m.name in ("__init__",) or not m.self_name:
                continue
            for node in walk_no_nested(m.node):
                tgts = node.targets if isinstance(node, ast.Assign) else [node.target] if isinstance(node, (ast.AugAssign, ast.AnnAssign)) else []
                for t in tgts:
                    for x in ast.walk(t):
                        if isinstance(x, ast.Attribute) and isinstance(x.value, ast.Name) and x.value.id == m.self_name and isinstance(x.ctx, ast.Store):
                            n += 1
                            ctx.violated("R05.5", m, node, f"{m.qual}:self.{x.attr}", "approximator state is written during approximation: the backend choice / result of later calls depends on earlier inputs", {"stmt": norm(node)})
    if n == 0:
        ctx.ok("R05.5", None, base.node, "approximator:stateless", "no approximator method other than __init__ writes instance attributes", None, nontrivial=False)


def check_semantic_dtype(ctx: Ctx):
    """R05.6: before labelling, the semantic arrays are cast to the dtype fitted to a value that
    is at least every label of BOTH arrays (otherwise labels wrap - possibly to background -
    before the connected-component analysis), and the quantity tested for negativity is at most
    every label of both arrays.  approximate_instances is run on symbolic label chains
    P1<..<P3 and R1<R2 (no order between the chains: max/min split into cases)."""
    from fractions import Fraction

    from ..linarith import constraint_slack, prove_nonneg
    from ..poly import Poly
    from .labelrun import LV, RelabelInterp, chains

    prog = ctx.prog
    f = prog.func("instance_approximator:InstanceApproximator.approximate_instances")
    fit = prog.func("utils.numpy_utils:_get_smallest_fitting_uint")
    spcls = prog.cls("utils.processing_pair:SemanticPair")
    acls = prog.cls("instance_approximator:ConnectedComponentsInstanceApproximator")
    inner = acls.lookup("_approximate_instances")
    n = 0
    for n_p, n_r in ((3, 2), (0, 2), (3, 0), (1, 2), (3, 1), (1, 1)):
        pe, re_ = n_p == 0, n_r == 0
        refs, preds = chains(max(n_r, 1), max(n_p, 1))
        holder = []

        class SemInterp(RelabelInterp):
            def _minmax(self, which, items, node):
                lvs = [self.lv(x) for x in items]
                if not lvs or any(x is None for x in lvs):
                    return Unknown(which + " of non-labels")
                if which == "max":
                    return self.sym_max(items, node)
                # minimum: the element that every other one dominates
                uniq = []
                for e in lvs:
                    if e not in uniq:
                        uniq.append(e)
                for i, e in enumerate(uniq):
                    if i == len(uniq) - 1:
                        return LV(e.poly, e.cont, e.kind)
                    ok = True
                    for o in uniq:
                        if o is e:
                            continue
                        c = self._cmp("<=", e.poly, o.poly, node)
                        if not (c is True or (not isinstance(c, bool) and self.decide(node, c))):
                            ok = False
                            break
                    if ok:
                        return LV(e.poly, e.cont, e.kind)
                return Unknown("min not determined")

            def call_builtin(self, name, args, kwargs, node):
                if name in ("min", "max") and args:
                    items = list(args[0]) if len(args) == 1 and isinstance(args[0], (list, tuple)) else list(args)
                    if items and all(self.lv(x) is not None for x in items):
                        return self._minmax(name, items, node)
                return super().call_builtin(name, args, kwargs, node)

            def external_call(self, name, args, kwargs, node):
                r = self.root
                if name in ("numpy.min", "numpy.max", "numpy.amin", "numpy.amax") and args and not kwargs:
                    a = args[0]
                    items = list(a) if isinstance(a, (list, tuple)) else [a]
                    if items and all(self.lv(x) is not None for x in items):
                        return self._minmax("max" if name.endswith("max") else "min", items, node)
                if self.prog.is_anchor(name, "utils.numpy_utils:_get_smallest_fitting_uint"):
                    r.fit_args.append((args[0] if args else None, node))
                    return Sym(f"FITDTYPE#{len(r.fit_args) - 1}")
                if name.split(".")[-1] == "set_dtype":
                    r.set_dtype.append((args[0] if args else kwargs.get("type"), node))
                    return None
                if inner is not None and name == inner.qual:
                    return Sym("INSTANCE_PAIR")
                return super().external_call(name, args, kwargs, node)

            def exec_stmt(self, st):
                if isinstance(st, ast.Assert) and isinstance(st.test, ast.Compare) and len(st.test.ops) == 1:
                    l, r_ = st.test.left, st.test.comparators[0]
                    if isinstance(st.test.ops[0], ast.GtE) and isinstance(r_, ast.Constant) and r_.value == 0:
                        self.root.nonneg_tested.append((self.eval(l), st))
                    elif isinstance(st.test.ops[0], ast.LtE) and isinstance(l, ast.Constant) and l.value == 0:
                        self.root.nonneg_tested.append((self.eval(r_), st))
                return super().exec_stmt(st)

        def make(prefix, pe=pe, re_=re_, refs=refs, preds=preds):
            pair = Obj(spcls, {"_pred_labels": () if pe else tuple(LV(p, "i64", "nps") for p in preds), "_ref_labels": () if re_ else tuple(LV(r, "i64", "nps") for r in refs), "_prediction_arr": Sym("PRED_ARR"), "_reference_arr": Sym("REF_ARR"), "n_dim": 3})
            args = {}
            for p in f.call_params:
                if "pair" in p.name.lower():
                    args[p.name] = pair
            it = SemInterp(prog, f, {**args, f.self_name: new_approximator(prog, acls, None)}, prefix=prefix)
            it.root.fit_args, it.root.set_dtype, it.root.nonneg_tested = [], [], []
            ni = {fit.qual}
            sd = spcls.lookup("set_dtype")
            if sd is not None:
                ni.add(sd.qual)
            if inner is not None:
                ni.add(inner.qual)
            it.root.no_inline = ni
            holder.append(it)
            return it

        try:
            outs = enumerate_paths(make, max_paths=64)
        except Undecided as e:
            ctx.undecided("R05.6", f, f.node, f"{f.qual}:n_pred_labels={n_p},n_ref_labels={n_r}", f"not evaluable: {e}")
            continue
        for out, it in zip(outs, holder):
            slacks = []
            opaque = False
            for node, v, d in out.decisions:
                pv = getattr(v, "pv", None)
                if pv and len(pv) == 3:
                    slacks += constraint_slack(pv[0], pv[1], pv[2], d)
                else:
                    opaque = True
            dtxt = "; ".join(f"{norm(nd) if isinstance(nd, ast.AST) else '?'}={d}" for nd, v, d in out.decisions)
            construct = f"{f.qual}:n_pred_labels={n_p},n_ref_labels={n_r}" + (f"[{dtxt}]" if dtxt else "")
            if out.kind == "raise" or opaque:
                ctx.undecided("R05.6", f, out.node, construct, f"path not modelled: {out.kind} {out.exc or ''}")
                continue
            n += 1
            tops = ([] if pe else [("prediction", preds[-1])]) + ([] if re_ else [("reference", refs[-1])])
            lows = ([] if pe else [("prediction", preds[0])]) + ([] if re_ else [("reference", refs[0])])
            sd = it.root.set_dtype
            fa = it.root.fit_args
            ok_call = len(sd) == 1 and isinstance(sd[0][0], Sym) and sd[0][0].name.startswith("FITDTYPE#")
            if not ok_call:
                ctx.decide("R05.6", f, out.node, construct + ":set-dtype", "the semantic pair is cast to the fitted dtype before labelling", False if not sd else None, {"set_dtype": repr(sd)[:120]})
                continue
            arg = fa[int(sd[0][0].name.split("#")[1])][0]
            if isinstance(arg, (int, Fraction)) and not isinstance(arg, bool):
                arg = LV(Poly.const(arg))  # a plain number
            if not isinstance(arg, LV):
                ctx.undecided("R05.6", f, sd[0][1], construct + ":fit-argument", f"fitted value not modelled: {arg!r}")
                continue
            bad = [side for side, top in tops if not prove_nonneg(arg.poly - top, slacks)]
            ctx.decide("R05.6", f, fa[0][1], construct + ":fits-both", "the dtype set before labelling is fitted to a value >= every label of both arrays", not bad, {"fitted_to": repr(arg.poly), "smaller_than_max_label_of": bad})
            for val, st in it.root.nonneg_tested:
                if isinstance(val, LV):
                    badl = [side for side, low in lows if not prove_nonneg(low - val.poly, slacks)]
                    ctx.decide("R05.6", f, st, construct + ":negativity-test", "the value tested for negativity is <= every label of both arrays", not badl, {"tested": repr(val.poly), "larger_than_min_label_of": badl})
    if n < 3:
        ctx.undecided("R05.6.floor", f, f.node, "floor:R05.6", f"{n} evaluated paths, confirmed floor is 3")


def _run_rule(ctx, name, fn):
    """a sub-rule that cannot be evaluated is recorded as undecided; the remaining rules still run"""
    try:
        return fn(ctx)
    except (Undecided, AnchorMissing) as e:
        ctx.undecided(name, None, None, f"{name}:analysis", f"{type(e).__name__}: {e}")
        return 0


def check(ctx: Ctx):
    _run_rule(ctx, "check_stateless", check_stateless)
    _run_rule(ctx, "check_dispatch", check_dispatch)
    _run_rule(ctx, "check_library_calls", check_library_calls)
    fitting_uint_table(ctx)
    _run_rule(ctx, "check_negative_guard", check_negative_guard)
    try:
        check_semantic_dtype(ctx)
    except (Undecided, AnchorMissing) as e:
        ctx.undecided("R05.6", None, None, "R05.6:check_semantic_dtype", f"{type(e).__name__}: {e}")
    # the dimensionality the default backend is chosen by is the arrays' ndim (R10.4)
    from . import c03, c10

    c03._guarded(ctx, "R10.4", c10.check_pair_constructor)


_A = "panoptica/instance_approximator.py"
_F = "panoptica/_functionals.py"
_N = "panoptica/utils/numpy_utils.py"

VARIANTS = [
    Variant("C05-m-output-dtype-min", "R05.3", "mutant", [(_A, "            max(prediction_arr.max(), reference_arr.max())", "            min(prediction_arr.max(), reference_arr.max())")]),
    Variant("C05-m-semantic-dtype-pred-min", "R05.6", "mutant", [(_A, "max_value = max(np.max(pred_label_range[1]), np.max(ref_label_range[1]))", "max_value = max(np.max(pred_label_range[0]), np.max(ref_label_range[1]))")], control=True),
    Variant("C05-m-semantic-dtype-single-label", "R05.6", "mutant", [(_A, "            if len(pred_labels) > 0\n", "            if len(pred_labels) > 1\n")]),
    Variant("C05-m-semantic-dtype-ref-only", "R05.6", "mutant", [(_A, "max_value = max(np.max(pred_label_range[1]), np.max(ref_label_range[1]))", "max_value = np.max(ref_label_range[1])")]),
    Variant("C05-m-negativity-of-max", "R05.6", "mutant", [(_A, "min_value = min(np.min(pred_label_range[0]), np.min(ref_label_range[0]))", "min_value = min(np.min(pred_label_range[1]), np.min(ref_label_range[0]))")]),
    Variant("C05-t-semantic-dtype-direct", "R05.6", "twin", [(_A, "max_value = max(np.max(pred_label_range[1]), np.max(ref_label_range[1]))", "max_value = max(pred_label_range[1], ref_label_range[1])")]),
    Variant("C05-m-ge3-gt3", "R05.1", "mutant", [(_A, "CCABackend.cc3d if semantic_pair.n_dim >= 3 else CCABackend.scipy", "CCABackend.cc3d if semantic_pair.n_dim > 3 else CCABackend.scipy")], control=True),
    Variant("C05-m-default-swapped", "R05.1", "mutant", [(_A, "CCABackend.cc3d if semantic_pair.n_dim >= 3 else CCABackend.scipy", "CCABackend.scipy if semantic_pair.n_dim >= 3 else CCABackend.cc3d")]),
    Variant("C05-m-ref-other-backend", "R05.1", "mutant", [(_A, "            _connected_components(semantic_pair._reference_arr, cca_backend)", "            _connected_components(semantic_pair._reference_arr, CCABackend.scipy)")]),
    Variant("C05-m-routing-swapped", "R05.2", "mutant", [(_F, "    if cca_backend == CCABackend.cc3d:\n        import cc3d", "    if cca_backend == CCABackend.scipy:\n        import cc3d"), (_F, "    elif cca_backend == CCABackend.scipy:\n        from scipy.ndimage import label", "    elif cca_backend == CCABackend.cc3d:\n        from scipy.ndimage import label")], control=True),
    Variant("C05-m-connectivity6", "R05.2", "mutant", [(_F, "cc3d.connected_components(array, return_N=True)", "cc3d.connected_components(array, return_N=True, connectivity=6)")]),
    Variant("C05-m-binary-image", "R05.2", "mutant", [(_F, "cc3d.connected_components(array, return_N=True)", "cc3d.connected_components(array, return_N=True, binary_image=True)")]),
    Variant("C05-m-structure-full", "R05.2", "mutant", [(_F, "        cc_arr, n_instances = label(array)", "        cc_arr, n_instances = label(array, structure=np.ones((3,) * array.ndim))")]),
    Variant("C05-m-cast-back", "R05.2", "mutant", [(_F, "    return cc_arr, n_instances", "    return cc_arr.astype(array.dtype, copy=False), n_instances")]),
    Variant("C05-m-counts-crossed", "R05.3", "mutant", [(_A, "            n_prediction_instance=n_prediction_instance,\n            n_reference_instance=n_reference_instance,", "            n_prediction_instance=n_reference_instance,\n            n_reference_instance=n_prediction_instance,")]),
    Variant("C05-m-dtype-semantic", "R05.3", "mutant", [(_A, "        dtype = _get_smallest_fitting_uint(\n            max(prediction_arr.max(), reference_arr.max())\n        )", "        dtype = semantic_pair._prediction_arr.dtype")]),
    Variant("C05-m-dtype-pred-only", "R05.3", "mutant", [(_A, "            max(prediction_arr.max(), reference_arr.max())\n", "            prediction_arr.max()\n")]),
    Variant("C05-m-fit-257", "R05.4", "mutant", [(_N, "    if max_value < 256:", "    if max_value < 257:")], control=True),
    Variant("C05-m-fit-65537", "R05.4", "mutant", [(_N, "    elif max_value < 65536:", "    elif max_value <= 65536:")]),
    Variant("C05-m-no-negative-check", "R05.4", "mutant", [(_A, "        assert (\n            min_value >= 0\n        ), \"There are negative values in the semantic maps. This is not allowed!\"\n", "")]),
    Variant("C05-m-cached-backend", "R05.5", "mutant", [(_A, "        cca_backend = self.cca_backend\n        if cca_backend is None:\n            cca_backend = (", "        cca_backend = self.cca_backend\n        if cca_backend is None:\n            self.cca_backend = cca_backend = (")]),
    Variant("C05-t-fit-le255", "R05.4", "twin", [(_N, "    if max_value < 256:", "    if max_value <= 255:")]),
    Variant("C05-t-ndim-or", "R05.1", "twin", [(_A, "CCABackend.cc3d if semantic_pair.n_dim >= 3 else CCABackend.scipy", "CCABackend.scipy if semantic_pair.n_dim < 3 else CCABackend.cc3d")]),
    Variant("C05-t-connectivity26", "R05.2", "twin", [(_F, "cc3d.connected_components(array, return_N=True)", "cc3d.connected_components(array, return_N=True, connectivity=26)")]),
]
