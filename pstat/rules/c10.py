"""C10 - results are invariant under padding, translation, flips and axis permutation
(decided: crop coherence and the geometry-sensitive configuration; library kernels trusted)."""

from __future__ import annotations

import ast

from ..absval import Obj, Sym, Unknown, enumerate_paths
from ..linarith import constraint_slack, find_counterexample, prove_nonneg
from ..model import AnchorMissing, Func, Undecided, norm, walk_no_nested
from ..poly import Poly
from ..report import Ctx
from ..variants import Variant
from . import c02, c03, c07
from .arrdom import AArr
from .evalrun import PipelineInterp
from .labelrun import LV, RelabelInterp
from .resultrun import Tagged

INFO = {
    "explanation": "Rounds 4/5: R09.6 delegated (label tuples of the pair do not depend on the presence of background); bounding-box views that keep the foreground; crop mask by bitwise or. R10.5 (round 4): no slice start of the form bound - padding anywhere in the package without a clamp at 0 (with a built-in positive example). (R10.1) _ProcessingPair.crop_data is interpreted on abstract arrays: the crop is computed from both arrays and the SAME slice tuple is applied to prediction and reference, a second call is a no-op; the per-instance crop does the same (delegated R02.5); (R10.2/R10.3) _get_bbox_nd is interpreted symbolically for 1-D/2-D/3-D arrays with per-axis unknowns (first/last occupied index, extent, padding >= 0): slice j is built from axis j, its start is within [0, first occupied index] (a negative start would wrap around) and its stop is at least last occupied index + 1, so no foreground voxel is ever cropped away whatever the offset/padding of the object in the array; the padding handed in by the pair crop is a non-negative constant; (R10.4) geometry-sensitive configuration, delegated: ASSD borders treat out-of-array as background without wrap-around shifts (R07.2) and candidate pairs are always ordered by score, never by label/scan order (R03.2, R03.6). Further delegated: backend choice depends on the dimensionality only and library call configuration (R05.1/R05.2); crop arithmetic cannot wrap (R09.2). (R10.3) _get_paired_crop is run on abstract arrays: the mask handed to the bounding-box helper is exactly (prediction != 0) or (reference != 0), everything when both are empty. Further: R10.4 (pair constructor), crop of a copy of a cropped pair (R10.1), arithmetic crop masks (R10.3); delegated R15.1/R15.8. Round 8: (R10.6, shape rule over the whole package, with built-in positive and negative examples) no store through x.reshape(-1) / x.ravel() / np.ravel(x) of an array whose memory layout the function does not fix while x is still used: for Fortran-ordered or strided arrays the alias is a copy and the store is lost. Round 9: max / min of two whole tuples is python's lexicographic comparison in the bounding-box domain (the first differing position decides - not a clip per axis): each outcome is a path, judged with a witness.",
    "trusted_base": ["numpy basic slicing with a tuple of slices; np.any/np.where along an axis", "cc3d / scipy.ndimage are invariant under flips, axis permutations and memory layout (not analysed)"],
    "assumptions": [],
    "not_decided": ["invariance of the connected-component libraries and of the Euclidean feature transform under flips/permutations/layout"],
    "technique": "static analysis: abstract interpretation of the crop code (alias domain) and symbolic-integer interpretation of the bounding box (sign test / linear arithmetic)",
}


class _Shape:
    pass


class ImgV:
    def __init__(self, n):
        self.n = n
        self.lo = [Poly.var(f"lo{j}") for j in range(n)]
        self.hi = [self.lo[j] + Poly.var(f"h{j}") for j in range(n)]
        self.shape = [self.hi[j] + Poly.const(1) + Poly.var(f"t{j}") for j in range(n)]


class Profile:
    def __init__(self, img, axis):
        self.img = img
        self.axis = axis


class IdxArr:
    def __init__(self, img, axis):
        self.img = img
        self.axis = axis


class BBoxInterp(RelabelInterp):
    def get_attr(self, base, attr, node):
        if isinstance(base, ImgV):
            if attr == "ndim":
                return base.n
            if attr == "shape":
                return tuple(LV(s) for s in base.shape)
        return super().get_attr(base, attr, node)

    def external_call(self, name, args, kwargs, node):
        if name == "numpy.count_nonzero" and args and isinstance(args[0], ImgV):
            return LV(Poly.const(1) + Poly.var("cnt"))
        if name == "numpy.ones" and args and isinstance(args[0], int):
            return _Ones(args[0])
        if name == "itertools.combinations" and len(args) == 2 and isinstance(args[0], (list, tuple)) and isinstance(args[1], int):
            import itertools

            return [tuple(c) for c in itertools.combinations(list(args[0]), args[1])]
        if name == "numpy.any":
            img = kwargs.get("a", args[0] if args else None)
            ax = kwargs.get("axis", args[1] if len(args) > 1 else None)
            if isinstance(img, ImgV) and ax is None and not (set(kwargs) - {"a"}):
                return True  # the image has foreground (lo..hi exists on every axis)
            if isinstance(img, ImgV):
                axs = (ax,) if isinstance(ax, int) else tuple(ax) if isinstance(ax, (tuple, list)) else None
                if axs is not None:
                    rest = [j for j in range(img.n) if j not in [a % img.n for a in axs]]
                    if len(rest) == 1:
                        return Profile(img, rest[0])
                    if not rest and img.n == 1:
                        return Unknown("any over all axes")
            return Unknown("np.any")
        if name in ("numpy.where", "numpy.nonzero") and args and isinstance(args[0], Profile):
            return (IdxArr(args[0].img, args[0].axis),)
        if name in ("numpy.flatnonzero",) and args and isinstance(args[0], Profile):
            return IdxArr(args[0].img, args[0].axis)
        if name in ("slice", "builtin:slice"):
            return Tagged("slice", list(args))
        return super().external_call(name, args, kwargs, node)

    def call_builtin(self, name, args, kwargs, node):
        if name == "slice":
            return Tagged("slice", list(args))
        if name in ("max", "min") and len(args) == 2 and not kwargs and all(isinstance(a, (tuple, list)) for a in args) and len(args[0]) == len(args[1]) >= 1:
            # two whole sequences: python compares them lexicographically (first differing position decides), not
            # position by position
            a, b = args
            for x, y in zip(a, b):
                if self.truth(self.compare(ast.Gt(), x, y, node), node):
                    return a if name == "max" else b
                if self.truth(self.compare(ast.Lt(), x, y, node), node):
                    return b if name == "max" else a
            return a
        if name == "min" and args:
            items = list(args[0]) if len(args) == 1 and isinstance(args[0], (list, tuple)) else list(args)
            if items and all(self.lv(x) is not None for x in items):
                neg = [LV(-self.lv(x).poly) for x in items]
                m = self.sym_max(neg, node)
                if isinstance(m, LV):
                    return LV(-m.poly)
                return m
        if name == "reversed" and args and isinstance(args[0], list):
            return list(reversed(args[0]))
        if name == "len" and args and isinstance(args[0], _Ones):
            return args[0].n
        return super().call_builtin(name, args, kwargs, node)

    def binop_hook(self, op, l, r, node):
        if isinstance(l, _Ones) and isinstance(op, ast.Mult) and self.lv(r) is not None:
            return [self.lv(r)] * l.n
        if isinstance(r, _Ones) and isinstance(op, ast.Mult) and self.lv(l) is not None:
            return [self.lv(l)] * r.n
        return super().binop_hook(op, l, r, node)

    def subscript_hook(self, base, idx, node):
        if isinstance(base, ImgV):
            # a view cut by slices: keeps all foreground iff every cut axis keeps [lo, hi]; indices
            # along a cut axis are then relative to the cut's start
            items = list(idx) if isinstance(idx, tuple) else [idx]
            if len(items) <= base.n and all(isinstance(x, Tagged) and x.name == "slice" for x in items):
                v = ImgV.__new__(ImgV)
                v.n, v.lo, v.hi, v.shape = base.n, list(base.lo), list(base.hi), list(base.shape)
                for j, sl in enumerate(items):
                    a = list(sl.args) + [None] * (3 - len(sl.args))
                    if len(sl.args) == 1:
                        a = [None, sl.args[0], None]
                    start, stop, step = a[0], a[1], a[2]
                    if step not in (None, 1):
                        raise Undecided("strided view of the image")
                    if start is None and stop is None:
                        continue
                    sp = self.lv(start).poly if start is not None and self.lv(start) is not None else (Poly() if start is None else None)
                    ep = self.lv(stop).poly if stop is not None and self.lv(stop) is not None else (base.shape[j] if stop is None else None)
                    if sp is None or ep is None:
                        raise Undecided("view of the image with unmodelled bounds")
                    from ..symint import decide_cmp as _dc

                    keeps_lo, _ = _dc("<=", sp, base.lo[j], True)
                    keeps_hi, _ = _dc(">=", ep, base.hi[j] + Poly.const(1), True)
                    if keeps_lo is not True or keeps_hi is not True:
                        raise Undecided(f"view of the image may cut foreground along axis {j}")
                    v.lo[j] = base.lo[j] - sp
                    v.hi[j] = base.hi[j] - sp
                    v.shape[j] = ep - sp
                return v
        if isinstance(base, IdxArr):
            if isinstance(idx, list) and idx == [0, -1]:
                return [LV(base.img.lo[base.axis]), LV(base.img.hi[base.axis])]
            if idx == 0:
                return LV(base.img.lo[base.axis])
            if idx == -1:
                return LV(base.img.hi[base.axis])
        return super().subscript_hook(base, idx, node)

    def isinstance_hook(self, v, klass, node):
        if isinstance(v, ImgV):
            return False
        return super().isinstance_hook(v, klass, node)

    def compare_hook(self, op, l, r, node):
        if isinstance(l, ImgV) and r is None:
            return isinstance(op, (ast.IsNot, ast.NotEq))
        return super().compare_hook(op, l, r, node)


class _Ones:
    def __init__(self, n):
        self.n = n


def axis_span_functions(prog) -> dict:
    """{qual: c} for the functions f(img) PROVED to return, for 1-, 2- and 3-dimensional arrays, per axis
    (last occupied index - first occupied index + c) of the non-zero region, with one constant c (c = 1: the
    extent in voxels), by running them in the symbolic bounding-box domain.  Other interpretations may read a
    call of such a function as 'extent + (c - 1)'."""
    cache = prog.__dict__.get("_axis_span")
    if cache is not None:
        return cache
    out = {}
    try:
        m = prog.module("utils.numpy_utils")
    except Exception:
        m = None
    for f in (list(m.functions.values()) if m is not None else []):
        req = [p for p in f.call_params if p.default is None]
        if len(req) != 1 or f.name in ("_get_bbox_nd",):
            continue
        ok, consts = True, set()
        for N in (1, 2, 3):
            try:
                holder = []

                def make(prefix, N=N):
                    img = ImgV(N)
                    it = BBoxInterp(prog, f, {req[0].name: img}, prefix=prefix)
                    it.root.domain_slacks = []
                    holder.append(img)
                    return it

                outs = enumerate_paths(make, max_paths=64)
            except Exception:
                ok = False
                break
            for o, img in zip(outs, holder):
                if o.kind == "raise" and o.exc == "AssertionError":
                    continue
                v = o.value if o.kind == "return" else None
                if not (isinstance(v, (tuple, list)) and len(v) == N and not o.decisions):
                    ok = False
                    break
                for j, x in enumerate(v):
                    xl = self_lv(x)
                    d = None if xl is None else (xl.poly - (img.hi[j] - img.lo[j]))
                    if d is None or not set(d.terms) <= {()}:
                        ok = False
                        break
                    consts.add(int(d.terms.get((), 0)))
                if not ok:
                    break
            if not ok:
                break
        if ok and len(consts) == 1:
            out[f.qual] = consts.pop()
    prog.__dict__["_axis_span"] = out
    return out


def check_bbox(ctx: Ctx):
    prog = ctx.prog
    f = prog.func("utils.numpy_utils:_get_bbox_nd")
    names = [p.name for p in f.call_params]
    if len(names) < 2:
        raise AnchorMissing(f"{f.qual}: parameters {names}")
    n_ok = 0
    for N in (1, 2, 3):
        holder = []

        def make(prefix, N=N):
            img = ImgV(N)
            it = BBoxInterp(prog, f, {names[0]: img, names[1]: LV(Poly.var("pad"))}, prefix=prefix)
            it.root.domain_slacks = []
            holder.append((it, img))
            return it

        try:
            outs = enumerate_paths(make, max_paths=512)
        except Undecided as e:
            ctx.undecided("R10.2", f, f.node, f"{f.qual}:ndim={N}", f"bounding box not evaluable: {e}")
            continue
        for out, (it, img) in zip(outs, holder):
            slacks = []
            opaque = False
            for node, v, d in out.decisions:
                pv = getattr(v, "pv", None)
                if pv and len(pv) == 3:
                    slacks += constraint_slack(pv[0], pv[1], pv[2], d)
                else:
                    opaque = True
            from .c04 import infeasible

            if infeasible(slacks):
                continue
            base = f"{f.qual}:ndim={N}"
            dtxt = "; ".join(f"{norm(nd) if isinstance(nd, ast.AST) else '?'}={d}" for nd, v, d in out.decisions)
            if out.kind != "return" or not isinstance(out.value, tuple) or len(out.value) != N or not all(isinstance(s, Tagged) and s.name == "slice" and len(s.args) >= 2 for s in out.value):
                if out.kind == "raise" and out.exc == "AssertionError":
                    continue
                ctx.undecided("R10.2", f, out.node, base, f"bounding box result not a tuple of {N} slices: {out.kind} {out.exc} {out.value!r}"[:200])
                continue
            for j, s in enumerate(out.value):
                start, stop = self_lv(s.args[0]), self_lv(s.args[1])
                if start is None or stop is None:
                    ctx.undecided("R10.2", f, out.node, base + f":axis{j}", "slice bounds not symbolic integers")
                    continue
                n_ok += 1
                checks = [
                    ("start>=0", start.poly, "slice start is non-negative (a negative start would wrap around to the end of the axis)"),
                    ("start<=first", img.lo[j] - start.poly, f"slice start is at or before the first occupied index of axis {j}"),
                    ("stop>last", stop.poly - img.hi[j] - Poly.const(1), f"slice stop is beyond the last occupied index of axis {j}"),
                ]
                for cid, target, desc in checks:
                    c2 = base + f":axis{j}:{cid}" + (f"[{dtxt}]" if dtxt else "")
                    if prove_nonneg(target, slacks):
                        ctx.ok("R10.2", f, out.node, c2, desc, None)
                    else:
                        w = find_counterexample(target, slacks)
                        if w is not None and not opaque:
                            ctx.violated("R10.2", f, out.node, c2, desc + " - fails: foreground can be cropped away / indexing wraps", {"valuation": w, "start": repr(start.poly), "stop": repr(stop.poly)})
                        else:
                            ctx.undecided("R10.2", f, out.node, c2, desc + " - not decided")
    if n_ok < 6:
        ctx.undecided("R10.2.floor", f, None, "floor:R10.2", f"{n_ok} axis slices analysed, confirmed floor is 6")
    # padding passed by the pair crop is a non-negative constant
    g = prog.func("_functionals:_get_paired_crop")
    pad = next((p for p in g.params if "pad" in p.name.lower() or "dist" in p.name.lower()), None)
    ok = pad is not None and isinstance(pad.default, ast.Constant) and isinstance(pad.default.value, int) and pad.default.value >= 0
    ctx.decide("R10.2", g, g.node, f"{g.qual}:padding", "the crop padding is a non-negative integer constant", ok, {"default": norm(pad.default) if pad is not None and pad.default is not None else None}, nontrivial=False)
    from .common import callers_of

    for caller, c in callers_of(prog, g):
        extra = [a for a in c.args[2:]] + [k.value for k in c.keywords if k.arg and ("pad" in k.arg or "dist" in k.arg)]
        okc = all(isinstance(a, ast.Constant) and isinstance(a.value, int) and a.value >= 0 for a in extra)
        ctx.decide("R10.2", caller, c, f"{caller.qual}->_get_paired_crop:padding", "callers pass no padding or a non-negative constant", okc, {"args": [norm(a) for a in extra]}, nontrivial=False)


def self_lv(x):
    if isinstance(x, LV):
        return x
    if isinstance(x, int) and not isinstance(x, bool):
        return LV(Poly.const(x))
    return None


def check_crop_data(ctx: Ctx):
    prog = ctx.prog
    cls = prog.cls("utils.processing_pair:_ProcessingPair")
    f = cls.lookup("crop_data")
    if f is None:
        raise AnchorMissing("_ProcessingPair.crop_data")
    gp = prog.func("_functionals:_get_paired_crop")
    it0 = PipelineInterp(prog, f, {})
    pair = it0._mkpair("UnmatchedInstancePair", "input")
    it = PipelineInterp(prog, f, {}, self_obj=pair)
    it.root.no_inline = {gp.qual}
    out = it.run()
    construct = f"{f.qual}"
    if out.kind == "raise" or out.decisions:
        ctx.undecided("R10.1", f, out.node, construct, f"crop_data not evaluable: {out.kind} {out.exc}")
        return
    crops = [s for s in it.root.stages if s[0] == "crop"]
    sides = sorted(a.side for s in crops for a in list(s[1]) + list(s[2].values()) if isinstance(a, AArr))
    ctx.decide("R10.1", f, f.node, construct + ":from-both", "the crop is computed once, from the prediction and the reference together", len(crops) == 1 and sides == ["PRED", "REF"], {"crop_calls": len(crops), "from": sides})
    pa, ra = pair.attrs.get("_prediction_arr"), pair.attrs.get("_reference_arr")
    ok = isinstance(pa, AArr) and isinstance(ra, AArr) and getattr(pa, "cropped", False) and getattr(ra, "cropped", False) and pa.side == "PRED" and ra.side == "REF"
    ctx.decide("R10.1", f, f.node, construct + ":same-slices", "the same slice tuple is applied to prediction and reference", ok, {"prediction": repr(pa), "reference": repr(ra)})
    ctx.decide("R10.1", f, f.node, construct + ":flag", "the pair remembers that it is cropped", pair.attrs.get("is_cropped") is True and pair.attrs.get("crop") == Sym("CROP"), {"is_cropped": pair.attrs.get("is_cropped")}, nontrivial=False)
    # second call: no further cropping
    it2 = PipelineInterp(prog, f, {}, self_obj=pair)
    it2.root.no_inline = {gp.qual}
    out2 = it2.run()
    ctx.decide("R10.1", f, f.node, construct + ":idempotent", "cropping an already cropped pair changes nothing", out2.kind != "raise" and not [s for s in it2.root.stages if s[0] == "crop"] and pair.attrs.get("_prediction_arr") is pa, None, nontrivial=False)
    # a copy of a cropped pair (the pipeline copies the pair between its phases, users re-evaluate
    # intermediate pairs): cropping the copy must not apply the original's slices a second time
    for cname in ("UnmatchedInstancePair", "MatchedInstancePair", "SemanticPair"):
        pc = it0._mkpair(cname, "input")
        itc = PipelineInterp(prog, f, {}, self_obj=pc)
        itc.root.no_inline = {gp.qual}
        if itc.run().kind == "raise":
            continue
        cp = pc.cls.lookup("copy")
        if cp is None:
            continue
        c2 = f"{f.qual}:copy-of-cropped-{cname}"
        itk = PipelineInterp(prog, cp, {}, self_obj=pc)
        itk.root.no_inline = {gp.qual, prog.func("utils.processing_pair:_check_array_integrity").qual, prog.func("utils.numpy_utils:_unique_without_zeros").qual, prog.func("utils.numpy_utils:_count_unique_without_zeros").qual}
        try:
            ok_ = itk.run()
        except Undecided as e:
            ctx.undecided("R10.1", cp, cp.node, c2, f"copy() not evaluable: {e}")
            continue
        cpy = ok_.value
        if ok_.kind != "return" or ok_.decisions or not isinstance(cpy, Obj):
            ctx.undecided("R10.1", cp, cp.node, c2, f"copy() not evaluable: {ok_.kind} {ok_.exc}")
            continue
        itr = PipelineInterp(prog, f, {}, self_obj=cpy)
        itr.root.no_inline = {gp.qual}
        outr = itr.run()
        dbl = itr.root.__dict__.get("double_crops", [])
        ctx.decide("R10.1", f, dbl[0][0] if dbl else f.node, c2, "cropping a copy of a cropped pair uses a crop computed from the copy's own arrays (or none), never the original's slices again", (not dbl) if (outr.kind != "raise" and not outr.decisions) else None, {"re-sliced": [s for _, s in dbl], "outcome": outr.kind})


def check_pair_constructor(ctx: Ctx):
    """R10.4: what a processing pair records about its arrays is what the arrays are: the
    dimensionality is the arrays' ndim (it selects the connected-component backend and with it
    the connectivity: a singleton axis or zero padding must not change it), the label tuples are
    the label enumerations of the pair's own sides."""
    from .arrdom import ArrInterp

    prog = ctx.prog
    cls = prog.cls("utils.processing_pair:_ProcessingPair")
    init = cls.lookup("__init__")
    if init is None:
        raise AnchorMissing("_ProcessingPair.__init__")
    uq = prog.func("utils.numpy_utils:_unique_without_zeros")

    class PairInterp(ArrInterp):
        def get_attr(self, base, attr, node):
            if isinstance(base, AArr) and attr == "shape":
                return _ShapeV(base.side)
            return super().get_attr(base, attr, node)

        def iterate(self, it_, node):
            if isinstance(it_, _ShapeV):
                # the extents of the axes: whatever is computed from them depends on the sizes
                self.root.__dict__.setdefault("extent_reads", []).append(node)
                return [Sym(f"{it_.side}.extent{i}") for i in range(3)]
            return super().iterate(it_, node)

        def call_builtin(self, name, args, kwargs, node):
            if name == "len" and args and isinstance(args[0], _ShapeV):
                return Sym(f"{args[0].side}.ndim")
            return super().call_builtin(name, args, kwargs, node)

        def compare_hook(self, op, l, r, node):
            if isinstance(l, Sym) and ".extent" in l.name:
                return self.root.__dict__.setdefault("_ext_unknowns", {}).setdefault((l.name, type(op).__name__, repr(r)), Unknown("extent comparison"))
            return super().compare_hook(op, l, r, node)

        def external_call(self, name, args, kwargs, node):
            if self.prog.is_anchor(name, "utils.numpy_utils:_unique_without_zeros") and args and isinstance(args[0], AArr):
                return [Sym(f"LABELS_OF_{args[0].side}")]
            if self.prog.is_anchor(name, "utils.processing_pair:_check_array_integrity"):
                return None
            return super().external_call(name, args, kwargs, node)

    holder = []

    def make(prefix):
        o_ = Obj(cls, {})
        pred, ref = AArr("PRED", False), AArr("REF", False)
        args = {}
        for p in init.call_params:
            lp = p.name.lower()
            args[p.name] = pred if lp.startswith("pred") else ref if lp.startswith("ref") else None
        it_ = PairInterp(prog, init, args, metrics=[], self_obj=o_, prefix=prefix)
        it_.root.no_inline = {uq.qual, prog.func("utils.processing_pair:_check_array_integrity").qual}
        holder.append((o_, it_))
        return it_

    outs = enumerate_paths(make, max_paths=16)
    construct = f"{init.qual}"
    ext = [n_ for o_, it_ in holder for n_ in it_.root.__dict__.get("extent_reads", [])]
    if ext and any(o_.attrs.get("n_dim") not in (Sym("REF.ndim"), Sym("PRED.ndim")) for o_, it_ in holder):
        ctx.violated("R10.4", init, ext[0], construct + ":n_dim", "the recorded dimensionality is computed from the extents of the axes: a singleton axis or padding changes it (and with it the connected-component backend)", {"n_dim": sorted({repr(o_.attrs.get('n_dim')) for o_, _ in holder})[:4]})
        return
    base_construct = construct
    for out, (o, it) in zip(outs, holder):
        facts = all(isinstance(d[1], Unknown) and str(d[1].tag).startswith("dtype-fact") for d in out.decisions)
        construct = base_construct + ("[" + "; ".join(f"{d[1].tag}={d[2]}" for d in out.decisions)[:120] + "]" if out.decisions and facts else "")
        if out.kind == "raise" or (out.decisions and not facts):
            ctx.undecided("R10.4", init, out.node, construct, f"pair constructor not evaluable: {out.kind} {out.exc} {[norm(d[0]) for d in out.decisions if isinstance(d[0], ast.AST)][:2]}")
            continue
        _judge_pair(ctx, init, construct, o)


def _judge_pair(ctx, init, construct, o):
    from .arrdom import AArr

    nd = o.attrs.get("n_dim")
    ctx.decide("R10.4", init, init.node, construct + ":n_dim", "the recorded dimensionality is the arrays' ndim", nd in (Sym("REF.ndim"), Sym("PRED.ndim")), {"got": repr(nd)})
    for attr, side in (("_ref_labels", "REF"), ("_pred_labels", "PRED")):
        v = o.attrs.get(attr)
        ctx.decide("R10.4", init, init.node, construct + ":" + attr, f"{attr} is the label enumeration of the {side.lower()} array", isinstance(v, (tuple, list)) and list(v) == [Sym(f"LABELS_OF_{side}")], {"got": repr(v)[:80]})
    for attr, side in (("_prediction_arr", "PRED"), ("_reference_arr", "REF")):
        v = o.attrs.get(attr)
        ctx.decide("R10.4", init, init.node, construct + ":" + attr, f"{attr} holds the {side.lower()} array", isinstance(v, AArr) and v.side == side, {"got": repr(v)[:80]}, nontrivial=False)


class _ArithArr:
    def __init__(self, op, l, r):
        self.op, self.l, self.r = op, l, r


class _BitOrArr:
    def __init__(self, l, r):
        self.l, self.r = l, r


class _ShapeV:
    def __init__(self, side):
        self.side = side


class _UnionMask:
    """Voxelwise `or` of masks."""

    def __init__(self, parts, op="or"):
        self.parts = list(parts)
        self.filled = False
        self.op = op


def check_crop_mask(ctx: Ctx):
    """R10.3: the shared crop is the bounding box of (prediction != 0) OR (reference != 0) -
    a mask that misses foreground of either array cuts instances off.  _get_paired_crop is run
    on abstract arrays; the mask handed to the bounding-box helper must be exactly that union
    (or everything, when both are empty)."""
    from .arrdom import AArr, AMask, ArrInterp

    prog = ctx.prog
    f = prog.func("_functionals:_get_paired_crop")
    holder = []

    class CropMaskInterp(ArrInterp):
        def get_attr(self, base, attr, node):
            if isinstance(base, AArr) and attr == "shape":
                return Sym("SHAPE")
            if isinstance(base, _UnionMask):
                return _UM(base, attr)
            return super().get_attr(base, attr, node)

        def apply(self, fv, args, kwargs, node):
            if isinstance(fv, _UM):
                if fv.name == "any" and not args and not kwargs:
                    d = self.decide(node, self.root.__dict__.setdefault("_union_empty", Unknown("both-empty")))
                    return not d
                if fv.name == "copy":
                    return fv.o
                return Unknown(f"union.{fv.name}")
            return super().apply(fv, args, kwargs, node)

        def arr_method(self, a, name, args, kwargs, node):
            # a single mask used as the crop mask: same protocol as a union of one part
            if isinstance(a, AMask) and name == "any" and not args and not kwargs:
                u = self.root.__dict__.setdefault("_single", {}).setdefault(id(a), _UnionMask([a]))
                self.root.__dict__.setdefault("_keep", []).append(a)
                d = self.decide(node, self.root.__dict__.setdefault("_union_empty", Unknown("both-empty")))
                return not d
            return super().arr_method(a, name, args, kwargs, node)

        def ev_Name(self, e):
            v = super().ev_Name(e)
            m = self.root.__dict__.get("_inplace_union", {})
            if isinstance(v, AMask) and id(v) in m:
                return m[id(v)]
            return v

        def _union(self, parts):
            flat = []
            for p in parts:
                if isinstance(p, _UnionMask):
                    flat += p.parts
                elif isinstance(p, AMask):
                    flat.append(p)
                elif isinstance(p, AArr) and not p.casts:
                    flat.append(AMask(p, "nonzero"))  # logical operators test truthiness: non-zero
                else:
                    return None
            return _UnionMask(flat)

        def external_call(self, name, args, kwargs, node):
            if name in ("numpy.logical_or", "numpy.logical_and", "numpy.logical_xor") and len(args) in (2, 3) and not (set(kwargs) - {"out"}):
                u = self._union(args[:2])
                out_ = args[2] if len(args) == 3 else kwargs.get("out")
                if u is not None:
                    u.op = name.rsplit("_", 1)[1]
                    if out_ is not None:
                        # result written into an existing mask object: every name bound to it sees the union
                        if isinstance(out_, AMask) and any(p is out_ for p in args[:2]):
                            self.root.__dict__.setdefault("_inplace_union", {})[id(out_)] = u
                            self.root.__dict__.setdefault("_keep2", []).append(out_)
                            return u
                        return Unknown("logical op into an unrelated buffer")
                    return u
            if self.prog.is_anchor(name, "utils.numpy_utils:_get_bbox_nd"):
                self.root.bbox_args.append((args[0] if args else kwargs.get("img"), node))
                return Sym("BBOX")
            # ufunc spellings of array arithmetic / bitwise or on the label arrays
            if name in ("numpy.add", "numpy.multiply", "numpy.subtract") and len(args) == 2 and not kwargs and isinstance(args[0], AArr) and isinstance(args[1], AArr):
                return _ArithArr({"add": "Add", "multiply": "Mult", "subtract": "Sub"}[name.split(".")[1]], args[0], args[1])
            if name in ("numpy.bitwise_or", "numpy.maximum") and len(args) == 2 and not kwargs and isinstance(args[0], AArr) and isinstance(args[1], AArr) and not args[0].casts and not args[1].casts:
                return _BitOrArr(args[0], args[1])
            return super().external_call(name, args, kwargs, node)

        def binop_hook(self, op, l, r, node):
            if isinstance(op, ast.BitOr) and isinstance(l, AArr) and isinstance(r, AArr) and not l.casts and not r.casts:
                return _BitOrArr(l, r)  # bitwise or of the labels: zero exactly where both are zero
            if isinstance(op, ast.BitOr):
                u = self._union([l, r])
                if u is not None:
                    return u
            if isinstance(op, (ast.Add, ast.Mult, ast.Sub)) and isinstance(l, AArr) and isinstance(r, AArr):
                return _ArithArr(type(op).__name__, l, r)
            return super().binop_hook(op, l, r, node)

        def compare_hook(self, op, l, r, node):
            if isinstance(l, _BitOrArr) and r == 0 and isinstance(op, (ast.NotEq, ast.Gt)):
                # a | b (or max(a, b)) of unsigned labels is non-zero exactly where one of them is
                return _UnionMask([AMask(l.l, "nonzero"), AMask(l.r, "nonzero")])
            if isinstance(l, _ArithArr) and r == 0 and isinstance(op, (ast.NotEq, ast.Gt)):
                # (a + b) != 0 on label arrays: in the arrays' own unsigned dtype the sum of two
                # labels can wrap to 0 (128 + 128 in uint8), a product or difference can vanish
                u = _UnionMask([AMask(l.l, "nonzero"), AMask(l.r, "nonzero")], op="arithmetic " + l.op + " of the label arrays, which can wrap to 0 in their dtype")
                return u
            return super().compare_hook(op, l, r, node)

        def store_subscript_hook(self, base, idx, v, node):
            if isinstance(base, _UnionMask) and v is True:
                base.filled = True
                return
            if isinstance(base, AMask) and v is True:
                base.filled = True
                return
            return super().store_subscript_hook(base, idx, v, node)

        def truth_hook(self, v, node):
            if isinstance(v, _UnionMask):
                raise Undecided("truth value of a mask")
            return super().truth_hook(v, node)

    def make(prefix):
        args = {}
        for p in f.call_params:
            lp = p.name.lower()
            if lp.startswith("pred"):
                args[p.name] = AArr("PRED", False)
            elif lp.startswith("ref"):
                args[p.name] = AArr("REF", False)
        it = CropMaskInterp(prog, f, args, metrics=[], prefix=prefix)
        it.root.bbox_args = []
        it.root.no_inline = {prog.func("utils.numpy_utils:_get_bbox_nd").qual}
        holder.append(it)
        return it

    outs = enumerate_paths(make)
    n = 0
    for out, it in zip(outs, holder):
        empty = [d for nd, v, d in out.decisions if isinstance(v, Unknown) and v.tag == "both-empty"]
        other = [v for nd, v, d in out.decisions if not (isinstance(v, Unknown) and v.tag == "both-empty")]
        construct = f"{f.qual}" + (":both-empty" if any(empty) else "")
        if other or out.kind == "raise":
            ctx.undecided("R10.3", f, out.node, construct, f"crop computation not modelled on this path: {out.kind} {out.exc or ''}")
            continue
        n += 1
        ba = it.root.bbox_args
        ok = None
        detail = {}
        if len(ba) == 1 and isinstance(ba[0][0], _UnionMask):
            u = ba[0][0]
            sides = sorted((m.of.side, m.kind, bool(getattr(m.of, "casts", None))) for m in u.parts)
            detail = {"mask": [f"{s} {k}" for s, k, _ in sides], "filled": u.filled}
            detail["op"] = u.op
            ok = u.op == "or" and sides == [("PRED", "nonzero", False), ("REF", "nonzero", False)] and (u.filled if any(empty) else not u.filled)
        elif len(ba) == 1:
            m = ba[0][0]
            detail = {"mask": f"{m.of.side} {m.kind}" if isinstance(m, AMask) else repr(m)[:80]}
            ok = False if isinstance(m, AMask) else None
        ctx.decide("R10.3", f, ba[0][1] if ba else out.node, construct + ":mask", "the crop is the bounding box of (prediction != 0) or (reference != 0)" + (", of everything when both are empty" if any(empty) else ""), ok, detail)
    if n < 2:
        ctx.undecided("R10.3.floor", f, f.node, "floor:R10.3", f"{n} paths of the paired crop evaluated, confirmed floor is 2")


class _UM:
    def __init__(self, o, name):
        self.o = o
        self.name = name


_PAD_WORDS = ("pad", "dist", "margin", "border", "halo")


def _unclamped_padded_starts(tree: ast.AST) -> list:
    """slice starts of the form  <bound> - <padding>  that are not clamped at 0: a negative start
    counts from the END of the axis, so a crop around an object near index 0 comes out empty or as
    the wrong strip.  `padding` = a name (or subscript of a name) containing pad/dist/margin/..."""
    parents = {}
    for p_ in ast.walk(tree):
        for c_ in ast.iter_child_nodes(p_):
            parents[id(c_)] = p_
    out = []

    def pad_like(e):
        base = e
        while isinstance(base, ast.Subscript):
            base = base.value
        nm = base.id if isinstance(base, ast.Name) else base.attr if isinstance(base, ast.Attribute) else ""
        return any(w in nm.lower() for w in _PAD_WORDS)

    def resolve(e, scope):
        if isinstance(e, ast.Name) and scope is not None:
            defs = [st for st in ast.walk(scope) if isinstance(st, ast.Assign) and len(st.targets) == 1 and isinstance(st.targets[0], ast.Name) and st.targets[0].id == e.id]
            if len(defs) == 1:
                return defs[0].value
        return e

    for n in ast.walk(tree):
        starts = []
        if isinstance(n, ast.Call) and isinstance(n.func, ast.Name) and n.func.id == "slice" and len(n.args) >= 2:
            starts.append(n.args[0])
        if isinstance(n, ast.Slice) and n.lower is not None:
            starts.append(n.lower)
        for s_ in starts:
            scope = n
            while id(scope) in parents and not isinstance(scope, (ast.FunctionDef, ast.AsyncFunctionDef, ast.Module)):
                scope = parents[id(scope)]
            e = resolve(s_, scope)
            if isinstance(e, ast.BinOp) and isinstance(e.op, ast.Sub) and pad_like(e.right):
                out.append((n, e))
    return out


def check_padded_starts(ctx: Ctx):
    """R10.5 (who-may / shape rule over the whole package): every crop start `bound - padding` is clamped at 0."""
    prog = ctx.prog
    # the rule must be alive: a positive example has to match on every run
    probe = ast.parse("def f(a, px_dist):\n    lo = a.min() - px_dist\n    return a[lo : a.max() + px_dist + 1], slice(max(a.min() - px_dist, 0), 3)\n")
    if len(_unclamped_padded_starts(probe)) != 1:
        ctx.undecided("R10.5.floor", None, None, "floor:R10.5", "the built-in positive example is not matched exactly once: rule broken")
        return
    n_mod = 0
    hits = 0
    for m in prog.modules.values():
        n_mod += 1
        for node, e in _unclamped_padded_starts(m.tree):
            hits += 1
            f = next((fn for fn in m.functions.values() if fn.node.lineno <= node.lineno <= getattr(fn.node, "end_lineno", fn.node.lineno)), None)
            if f is None:
                f = next((fn for fn in prog.functions.values() if fn.module is m and fn.node.lineno <= node.lineno <= getattr(fn.node, "end_lineno", fn.node.lineno)), None)
            ctx.violated("R10.5", f, node, f"{m.name}:{norm(e)[:60]}", "a crop start computed as bound - padding is clamped at 0 (a negative start counts from the end of the axis: objects near index 0 are cropped away)", {"start": norm(e)})
    if hits == 0:
        ctx.ok("R10.5", None, None, "package:padded-slice-starts", f"{n_mod} modules scanned: no unclamped `bound - padding` slice start", None, nontrivial=False)


_C_FRESH = {"zeros", "ones", "empty", "full", "arange", "array", "ascontiguousarray", "copy", "zeros_like", "ones_like", "empty_like", "full_like"}


def _flat_alias_of(e):
    """x.reshape(-1) | x.reshape((-1,)) | x.ravel() | np.ravel(x) | np.reshape(x, -1)  ->  x (an expression), else None.
    These are views of a C-contiguous x and silent COPIES of an x in any other memory layout."""
    if not isinstance(e, ast.Call):
        return None
    fn = e.func
    minus1 = lambda a: (isinstance(a, ast.UnaryOp) and isinstance(a.op, ast.USub) and isinstance(a.operand, ast.Constant) and a.operand.value == 1) or (isinstance(a, ast.Constant) and a.value == -1) or (isinstance(a, ast.Tuple) and len(a.elts) == 1 and minus1(a.elts[0]))
    if isinstance(fn, ast.Attribute) and fn.attr == "ravel" and not e.args and isinstance(fn.value, (ast.Name, ast.Attribute)) and not (isinstance(fn.value, ast.Name) and fn.value.id in ("np", "numpy")):
        return fn.value
    if isinstance(fn, ast.Attribute) and fn.attr == "reshape" and len(e.args) == 1 and minus1(e.args[0]) and isinstance(fn.value, (ast.Name, ast.Attribute)) and not (isinstance(fn.value, ast.Name) and fn.value.id in ("np", "numpy")):
        return fn.value
    if isinstance(fn, ast.Attribute) and isinstance(fn.value, ast.Name) and fn.value.id in ("np", "numpy"):
        if fn.attr == "ravel" and len(e.args) == 1 and isinstance(e.args[0], (ast.Name, ast.Attribute)):
            return e.args[0]
        if fn.attr == "reshape" and len(e.args) == 2 and minus1(e.args[1]) and isinstance(e.args[0], (ast.Name, ast.Attribute)):
            return e.args[0]
    return None


def _writes_through_flat_alias(fnode) -> list:
    """(store statement, alias name, base expression) for every store through a flattened alias of an array whose
    layout the function does not fix, while that array is still used afterwards (or belongs to the caller)"""
    out = []
    params = {a.arg for a in fnode.args.posonlyargs + fnode.args.args + fnode.args.kwonlyargs}
    aliases = {}
    defs = {}
    def_lines = {}
    for st in ast.walk(fnode):
        if isinstance(st, ast.Assign) and len(st.targets) == 1 and isinstance(st.targets[0], ast.Name):
            defs.setdefault(st.targets[0].id, []).append(st.value)
            def_lines.setdefault(st.targets[0].id, []).append(st.lineno)
            b = _flat_alias_of(st.value)
            if b is not None:
                aliases[st.targets[0].id] = (b, st)
    for name, (base, dst) in aliases.items():
        if len(defs.get(name, [])) != 1:
            continue
        bname = base.id if isinstance(base, ast.Name) else None
        if bname is not None and (bname not in params or (def_lines.get(bname) and max(def_lines[bname]) < dst.lineno)):
            # a base the function created itself in C order (before taking the alias) is contiguous: the alias is a view
            ds = defs.get(bname, [])
            fresh = lambda v: isinstance(v, ast.Call) and isinstance(v.func, ast.Attribute) and v.func.attr in _C_FRESH and not any(k.arg == "order" for k in v.keywords) and not (v.func.attr.endswith("_like") or (v.func.attr == "copy" and isinstance(v.func.value, ast.Name) and v.func.value.id in ("np", "numpy")))
            if ds and all(fresh(v) for v in ds):
                continue
        stores = []
        for st in ast.walk(fnode):
            tgt = None
            if isinstance(st, ast.Assign):
                tgt = [t for t in st.targets if isinstance(t, ast.Subscript) and isinstance(t.value, ast.Name) and t.value.id == name]
            elif isinstance(st, ast.AugAssign):
                t = st.target
                tgt = [t] if (isinstance(t, ast.Name) and t.id == name) or (isinstance(t, ast.Subscript) and isinstance(t.value, ast.Name) and t.value.id == name) else []
            elif isinstance(st, ast.Call):
                if any(k.arg == "out" and isinstance(k.value, ast.Name) and k.value.id == name for k in st.keywords):
                    tgt = [st]
                elif isinstance(st.func, ast.Attribute) and isinstance(st.func.value, ast.Name) and st.func.value.id == name and st.func.attr in ("fill", "sort", "put", "itemset", "partition"):
                    tgt = [st]
            if tgt:
                stores.append(st)
        for st in stores:
            after = getattr(st, "end_lineno", st.lineno)
            btxt = ast.unparse(base)
            used_later = any(isinstance(n, (ast.Name, ast.Attribute)) and isinstance(getattr(n, "ctx", None), ast.Load) and ast.unparse(n) == btxt and n.lineno > after for n in ast.walk(fnode))
            root = base
            while isinstance(root, ast.Attribute):
                root = root.value
            callers = isinstance(root, ast.Name) and root.id in params
            if used_later or callers:
                out.append((st, name, base))
    return out


def check_flat_alias_writes(ctx: Ctx):
    """R10.6 (shape rule over the whole package, memory layouts): no store through `x.reshape(-1)` / `x.ravel()`
    that is meant to reach x.  For a Fortran-ordered or strided x these are copies: the store is lost there,
    so the result depends on the memory layout of the caller's arrays."""
    prog = ctx.prog
    probe = ast.parse("def f(a, lut):\n    flat = a.reshape(-1)\n    n = np.bincount(flat)\n    flat[...] = lut[flat]\n    return a, n\n\ndef g(a, lut):\n    flat = a.reshape(-1)\n    n = np.bincount(flat)\n    a[...] = lut[a]\n    return a, n\n\ndef h(shape):\n    b = np.zeros(shape)\n    v = b.ravel()\n    v[::2] = 1\n    return b\n")
    got = [len(_writes_through_flat_alias(fn)) for fn in probe.body]
    if got != [1, 0, 0]:
        ctx.undecided("R10.6.floor", None, None, "floor:R10.6", f"the built-in examples (one store through a flattened alias, two harmless uses) give {got}: rule broken")
        return
    n_fn = hits = 0
    for f in prog.package_functions():
        n_fn += 1
        for st, name, base in _writes_through_flat_alias(f.node):
            hits += 1
            ctx.violated("R10.6", f, st, f"{f.qual}:{name}<-{norm(base)[:40]}", "no store through a flattened alias (reshape(-1) / ravel) of an array whose memory layout the function does not fix: for Fortran-ordered or strided arrays the alias is a copy and the store is lost", {"store": norm(st)[:100], "alias": name, "of": norm(base)})
    if hits == 0:
        ctx.ok("R10.6", None, None, "package:flat-alias-stores", f"{n_fn} functions scanned: no store through a flattened alias of a caller-layout array", None, nontrivial=False)


def _run_rule(ctx, name, fn):
    """a sub-rule that cannot be evaluated is recorded as undecided; the remaining rules still run"""
    try:
        return fn(ctx)
    except (Undecided, AnchorMissing) as e:
        ctx.undecided(name, None, None, f"{name}:analysis", f"{type(e).__name__}: {e}")
        return 0


def check(ctx: Ctx):
    try:
        check_padded_starts(ctx)
    except (Undecided, AnchorMissing) as e:
        ctx.undecided("R10.5", None, None, "R10.5:check_padded_starts", f"{type(e).__name__}: {e}")
    _run_rule(ctx, "R10.6", check_flat_alias_writes)
    for fn, rule in ((check_crop_data, "R10.1"), (check_bbox, "R10.2"), (check_crop_mask, "R10.3"), (check_pair_constructor, "R10.4")):
        try:
            fn(ctx)
        except (Undecided, AnchorMissing) as e:
            ctx.undecided(rule, None, None, f"{rule}:{fn.__name__}", f"{type(e).__name__}: {e}")
    _run_rule(ctx, "check_single_instance", c02.check_single_instance)  # per-instance crop: one crop from both masks (R02.5)
    # zero padding adds background and nothing else: the pair's label tuples / instance counts are the
    # non-zero values present, whether or not the map has background (R09.6)
    from .labelenum import check_label_enumeration as _cle

    c03._guarded(ctx, "R09.6", _cle)
    # R10.4 delegated geometry-sensitive configuration
    _run_rule(ctx, "check_no_wraparound", c07.check_no_wraparound)
    try:
        c07.check_chain(ctx)
    except (Undecided, AnchorMissing) as e:
        ctx.undecided("R07.2", None, None, "R07.2:check_chain", f"{type(e).__name__}: {e}")
    _run_rule(ctx, "check_no_pruning", c03.check_no_pruning)
    c03._guarded(ctx, "R03.2", c03.check_candidates)
    # the backend (and with it the connectivity) must depend on the dimensionality only, so that
    # embedding/padding cannot change which library labels the components
    from . import c05

    c03._guarded(ctx, "R05.1", c05.check_dispatch)
    c03._guarded(ctx, "R05.2", c05.check_library_calls)
    from . import c09

    c03._guarded(ctx, "R09.2", c09.check_crop_width)
    # a flipped / padded copy of the caller's arrays is evaluated after the original: the arrays
    # must come out of the first evaluation unchanged (R15.1)
    from . import c15

    c03._guarded(ctx, "R15.1", c15.check_no_input_mutation)
    c03._guarded(ctx, "R15.1", c15.check_result_purity)
    # results of later evaluations (another group, a flipped copy, the exchanged pair, a second
    # threshold) are only meaningful if no step writes into the caller's arrays (R15.8)
    from . import c15 as _c15
    from . import c03 as _c03

    _c03._guarded(ctx, "R15.8", _c15.check_param_aliasing)


_N = "panoptica/utils/numpy_utils.py"
_P = "panoptica/utils/processing_pair.py"
_F = "panoptica/_functionals.py"

_FN = "panoptica/_functionals.py"
_PP = "panoptica/utils/processing_pair.py"

VARIANTS = [
    Variant("C10-m-ndim-nonsingleton", "R10.4", "mutant", [(_PP, "        self.n_dim = reference_arr.ndim", "        self.n_dim = sum(1 for s in reference_arr.shape if s > 1)")]),
    Variant("C10-m-labels-crossed", "R10.4", "mutant", [(_PP, "        self._ref_labels: tuple[int, ...] = tuple(\n            _unique_without_zeros(reference_arr)\n        )", "        self._ref_labels: tuple[int, ...] = tuple(\n            _unique_without_zeros(prediction_arr)\n        )")]),
    Variant("C10-t-ndim-len-shape", "R10.4", "twin", [(_PP, "        self.n_dim = reference_arr.ndim", "        self.n_dim = prediction_arr.ndim")]),
    Variant("C10-m-crop-mask-pred-background", "R10.3", "mutant", [(_FN, "combined = np.logical_or(prediction_arr != 0, reference_arr != 0)", "combined = np.logical_or(prediction_arr == 0, reference_arr != 0)")], control=True),
    Variant("C10-m-crop-mask-ref-only", "R10.3", "mutant", [(_FN, "combined = np.logical_or(prediction_arr != 0, reference_arr != 0)", "combined = reference_arr != 0")]),
    Variant("C10-m-crop-mask-label-one", "R10.3", "mutant", [(_FN, "combined = np.logical_or(prediction_arr != 0, reference_arr != 0)", "combined = np.logical_or(prediction_arr != 1, reference_arr != 0)")]),
    Variant("C10-m-crop-mask-and", "R10.3", "mutant", [(_FN, "combined = np.logical_or(prediction_arr != 0, reference_arr != 0)", "combined = np.logical_and(prediction_arr != 0, reference_arr != 0)")]),
    Variant("C10-m-crop-mask-sum", "R10.3", "mutant", [(_FN, "combined = np.logical_or(prediction_arr != 0, reference_arr != 0)", "combined = (prediction_arr + reference_arr) != 0")]),
    Variant("C10-t-crop-mask-bitor", "R10.3", "twin", [(_FN, "combined = np.logical_or(prediction_arr != 0, reference_arr != 0)", "combined = (reference_arr > 0) | (prediction_arr > 0)")]),
    Variant("C10-m-no-clip", "R10.2", "mutant", [(_N, "            max(out[i] - px_dist[i // 2], 0),", "            out[i] - px_dist[i // 2],")], control=True),
    Variant("C10-m-stop-short", "R10.2", "mutant", [(_N, "            min(out[i + 1] + px_dist[i // 2], shp[i // 2]) + 1,", "            min(out[i + 1] + px_dist[i // 2], shp[i // 2]),")], control=True),
    Variant("C10-m-stop-clamp-off-by-one", "R10.2", "mutant", [(_N, "            min(out[i + 1] + px_dist[i // 2], shp[i // 2]) + 1,", "            min(out[i + 1] + px_dist[i // 2], shp[i // 2] - 2) + 1,")]),
    Variant("C10-m-axis-order", "R10.2", "mutant", [(_N, "    for ax in itertools.combinations(reversed(range(N)), N - 1):", "    for ax in itertools.combinations(range(N), N - 1):")]),
    Variant("C10-m-negative-pad", "R10.2", "mutant", [(_F, "    px_pad: int = 2,", "    px_pad: int = -1,")]),
    Variant("C10-m-crop-ref-only", "R10.1", "mutant", [(_P, "        self._prediction_arr = self._prediction_arr[self.crop]\n        self._reference_arr = self._reference_arr[self.crop]", "        self._reference_arr = self._reference_arr[self.crop]")]),
    Variant("C10-m-crop-from-pred", "R10.1", "mutant", [(_P, "            self.crop = _get_paired_crop(\n                self._prediction_arr,\n                self._reference_arr,\n            )", "            self.crop = _get_paired_crop(\n                self._prediction_arr,\n                self._prediction_arr,\n            )")]),
    Variant("C10-m-delegated-roll", "R07.2", "mutant", c07.VARIANTS[9].edits, note="delegated rule"),
    Variant("C10-t-clip", "R10.2", "twin", [(_N, "            max(out[i] - px_dist[i // 2], 0),", "            max(0, out[i] - px_dist[i // 2]),")]),
    Variant("C10-t-stop-unclamped", "R10.2", "twin", [(_N, "            min(out[i + 1] + px_dist[i // 2], shp[i // 2]) + 1,", "            out[i + 1] + px_dist[i // 2] + 1,")], note="slicing clips a stop beyond the axis length"),
]
