"""VENN domain: metric kernels as exact rational functions of Venn-region cardinalities.

A mask built from the two inputs X (reference), Y (prediction) - and optionally skeletons
Sx ⊆ X, Sy ⊆ Y - by logical operations is a set of regions of the Venn diagram; np.sum of a
mask is the sum of the regions' cardinalities (non-negative unknowns); arithmetic on counts
gives exact rational functions.  Guards `count == 0` split the evaluation; on the taken
branch the atoms of the (non-negative) form are zero.
"""

from __future__ import annotations

import ast
import itertools
from fractions import Fraction
from typing import Optional

from ..absval import Interp, Obj, Outcome, RaiseSignal, Sym, Unknown, enumerate_paths
from ..model import Func, Program, Undecided, norm
from ..poly import Poly, Rat, to_rat
from .resultrun import ResultInterp, Tagged


class Regions:
    """A boolean mask as a frozenset of region names.  `raw`: the mask is an unmodified input
    parameter (its dtype is the caller's: np.sum of it may be an unsigned numpy scalar)."""

    def __init__(self, regs, universe, raw=False, name=""):
        self.regs = frozenset(regs)
        self.universe = universe
        self.raw = raw
        self.name = name

    def card(self) -> Poly:
        p = Poly()
        for r in sorted(self.regs):
            p = p + Poly.var("n_" + r)
        return p

    def __repr__(self):
        return f"mask{sorted(self.regs)}"


class Count:
    """Cardinality value: polynomial + whether it may live in an unsigned numpy scalar."""

    def __init__(self, rat: Rat, unsigned_np: bool):
        self.rat = rat
        self.unsigned_np = unsigned_np

    def __repr__(self):
        return f"count({self.rat!r}{' u-np' if self.unsigned_np else ''})"


def universe_xy():
    # region name = membership string in (X, Y)
    return ["10", "01", "11", "00"]


def universe_xy_skel():
    # (X, Sx, Y, Sy) with Sx ⊆ X, Sy ⊆ Y
    out = []
    for (x, sx) in ((0, 0), (1, 0), (1, 1)):
        for (y, sy) in ((0, 0), (1, 0), (1, 1)):
            out.append(f"{x}{sx}{y}{sy}")
    return out


class _RMethod:
    def __init__(self, r, name):
        self.r = r
        self.name = name


class _KindV:
    """dtype.kind of a mask handed in by the caller: one of b, u, i, f - narrowed by the tests made on it"""


class VennInterp(ResultInterp):
    def __init__(self, *a, **kw):
        super().__init__(*a, **kw)
        self.root.width_events = []
        self.root.skeleton_calls = []
        self.root.kinds = {"b", "u", "i", "f"}

    def _kind_test(self, members, node):
        """is the callers' dtype kind among `members`: decided by what earlier tests left open, else a named split"""
        k = self.root.kinds
        ms = set(members) & {"b", "u", "i", "f"}
        if k <= ms:
            return True
        if not (k & ms):
            return False
        u = self.root.__dict__.setdefault("_kind_unknowns", {}).setdefault(frozenset(ms), Unknown("dtype-kind:" + "".join(sorted(ms))))
        d = self.decide(node, u)
        self.root.kinds = (k & ms) if d else (k - ms)
        return d

    # -- masks --------------------------------------------------------------------------
    def _mask(self, v) -> Optional[Regions]:
        return v if isinstance(v, Regions) else None

    def get_attr(self, base, attr, node):
        if isinstance(base, Regions):
            if attr == "ndim":
                return self.root.__dict__.get("ndim", Unknown("ndim"))
            if attr == "dtype" and not base.raw:
                return Sym("builtin:bool")  # result of a logical operation / comparison
            if attr == "dtype":
                return Sym("dtypeof:raw-mask")
            if attr in ("shape", "dtype", "size"):
                return Sym(f"mask.{attr}")
            return _RMethod(base, attr)
        if isinstance(base, Count):
            return _RMethod(base, attr)
        if isinstance(base, Sym) and base.name == "dtypeof:raw-mask" and attr == "kind":
            return _KindV()
        if isinstance(base, Sym) and base.name == "builtin:bool" and attr == "kind":
            return "b"
        return super().get_attr(base, attr, node)

    def apply(self, fv, args, kwargs, node):
        if isinstance(fv, _RMethod):
            r, name = fv.r, fv.name
            if isinstance(r, Regions):
                if name in ("sum",) and not args:
                    return Count(Rat(r.card()), r.raw)
                if name in ("astype",):
                    t = args[0] if args else None
                    is_bool = isinstance(t, Sym) and t.name.split(":")[-1].split(".")[-1] in ("bool", "bool_")
                    return Regions(r.regs, r.universe, raw=r.raw and not is_bool, name=r.name)
                if name in ("copy",):
                    return r
                if name == "any":
                    return self.compare_hook(ast.NotEq(), Count(Rat(r.card()), False), 0, node)
                return Unknown(f"mask.{name}")
            if isinstance(r, Count):
                if name in ("item", "astype", "copy"):
                    return r
                return Unknown(f"count.{name}")
        return super().apply(fv, args, kwargs, node)

    def external_call(self, name, args, kwargs, node):
        a = args
        if name in ("numpy.logical_and", "numpy.logical_or", "numpy.logical_xor", "numpy.bitwise_and", "numpy.bitwise_or", "numpy.multiply", "numpy.minimum", "numpy.maximum") and len(a) in (2, 3) and isinstance(a[0], Regions) and isinstance(a[1], Regions) and not (set(kwargs) - {"out"}):
            x, y = a[0], a[1]
            if name in ("numpy.logical_and", "numpy.bitwise_and", "numpy.multiply", "numpy.minimum"):
                res = Regions(x.regs & y.regs, x.universe)
            elif name in ("numpy.logical_or", "numpy.bitwise_or", "numpy.maximum"):
                res = Regions(x.regs | y.regs, x.universe)
            else:
                res = Regions(x.regs ^ y.regs, x.universe)
            out = a[2] if len(a) == 3 else kwargs.get("out")
            if out is None:
                return res
            if isinstance(out, Regions) and not out.raw:
                # written into a mask the kernel computed itself: every name bound to it sees the result
                out.regs = res.regs
                return out
            return Unknown("logical operation written into an input / unmodelled buffer")
        if name in ("numpy.logical_not", "numpy.invert") and a and isinstance(a[0], Regions):
            return Regions(frozenset(a[0].universe) - a[0].regs, a[0].universe)
        if name in ("numpy.sum", "numpy.count_nonzero") and a and isinstance(a[0], Regions) and not kwargs and len(a) == 1:
            return Count(Rat(a[0].card()), a[0].raw and name == "numpy.sum" and "u" in self.root.kinds)
        if name == "numpy.sum" and len(a) == 1 and isinstance(a[0], Regions) and set(kwargs) == {"dtype"} and isinstance(kwargs["dtype"], Sym):
            dt = kwargs["dtype"].name.split(".")[-1].split(":")[-1]
            if dt in ("int64", "int32", "int_", "intp", "int", "float64", "float32", "float", "longlong"):
                return Count(Rat(a[0].card()), False)  # accumulated in a signed / floating type
            if dt in ("uint64", "uint32", "uint", "uintp"):
                return Count(Rat(a[0].card()), True)
        if name in ("numpy.atleast_1d", "numpy.asarray", "numpy.ascontiguousarray", "numpy.array") and a and isinstance(a[0], Regions):
            return a[0]
        if name in ("float", "int", "builtin:float", "builtin:int", "numpy.float64", "numpy.int64") and a and isinstance(a[0], Count):
            return Count(a[0].rat, False)
        if name in ("numpy.mean", "numpy.average") and a and isinstance(a[0], tuple) and all(isinstance(x, (Count, Rat, int, Fraction)) for x in a[0]) and len(a) == 1 and not kwargs:
            tot = Rat(Poly())
            for x in a[0]:
                tot = tot + _rat(x)
            return Count(tot / Rat(Poly.const(len(a[0]))), False)
        if name.startswith("skimage.morphology.skeletonize") or name.endswith("skeletonize") or name.endswith("skeletonize_3d"):
            self.root.skeleton_calls.append((name, a, node))
            if a and isinstance(a[0], Regions) and a[0].name in ("X", "Y") and len(a[0].universe) == 9:
                which = 1 if a[0].name == "X" else 3
                return Regions([r for r in a[0].universe if r[which] == "1"], a[0].universe, name="S" + a[0].name.lower())
            return Unknown("skeleton of a derived mask")
        return super().external_call(name, args, kwargs, node)

    def call_builtin(self, name, args, kwargs, node):
        if name == "type" and len(args) == 1 and isinstance(args[0], Regions):
            return Sym("ext:numpy.ndarray")
        if name in ("float", "int") and args and isinstance(args[0], Count):
            return Count(args[0].rat, False)
        return super().call_builtin(name, args, kwargs, node)

    # -- operators --------------------------------------------------------------------------
    def ev_UnaryOp(self, e):
        if isinstance(e.op, ast.Invert):
            v = self.eval(e.operand)
            if isinstance(v, Regions):
                return Regions(frozenset(v.universe) - v.regs, v.universe)
            return self.unary_hook(e.op, v, e)
        if isinstance(e.op, ast.USub):
            v = self.eval(e.operand)
            if isinstance(v, (Count, Rat)):
                return Count(-_rat(v), False)
            return super().ev_UnaryOp(e) if not isinstance(v, (Count, Rat)) else v
        return super().ev_UnaryOp(e)

    def binop_hook(self, op, l, r, node):
        if isinstance(l, Regions) and isinstance(r, Regions):
            if isinstance(op, (ast.BitAnd, ast.Mult)):
                return Regions(l.regs & r.regs, l.universe)
            if isinstance(op, ast.BitOr):
                return Regions(l.regs | r.regs, l.universe)
            if isinstance(op, ast.BitXor):
                return Regions(l.regs ^ r.regs, l.universe)
            if isinstance(op, ast.Add):
                return Unknown("mask + mask (not a mask)")
        if isinstance(l, (Count, Rat, int, Fraction, float)) and isinstance(r, (Count, Rat, int, Fraction, float)) and not isinstance(l, bool) and not isinstance(r, bool):
            a, b = _rat(l), _rat(r)
            uns = (isinstance(l, Count) and l.unsigned_np) or (isinstance(r, Count) and r.unsigned_np)
            both_np = (isinstance(l, Count) and l.unsigned_np) and (isinstance(r, Count) and r.unsigned_np)
            if isinstance(op, ast.Add):
                return Count(a + b, uns)
            if isinstance(op, ast.Sub):
                d = a - b
                can_be_negative = not (d.is_poly() and d.as_poly().nonneg_coeffs())
                if both_np and can_be_negative:
                    self.root.width_events.append((node, "difference of two counts held in (possibly unsigned) numpy scalars can be negative and then wraps around"))
                return Count(d, both_np and not can_be_negative)
            if isinstance(op, ast.Mult):
                return Count(a * b, uns)
            if isinstance(op, ast.Div):
                return Count(a / b, False)
            if isinstance(op, ast.Pow) and isinstance(r, int) and 0 <= r <= 4:
                out = Rat(Poly.const(1))
                for _ in range(r):
                    out = out * a
                return Count(out, uns)
        return super().binop_hook(op, l, r, node)

    def compare_hook(self, op, l, r, node):
        if isinstance(l, _KindV) and isinstance(op, (ast.In, ast.NotIn)) and isinstance(r, (str, tuple, list, set, frozenset)) and all(isinstance(x, str) for x in r):
            t = self._kind_test("".join(r), node)
            return t if isinstance(op, ast.In) else not t
        if isinstance(l, _KindV) and isinstance(op, (ast.Eq, ast.NotEq)) and isinstance(r, str):
            t = self._kind_test(r, node)
            return t if isinstance(op, ast.Eq) else not t
        if isinstance(l, (Count, Rat, int, Fraction, float)) and isinstance(r, (Count, Rat, int, Fraction, float)):
            d = _rat(l) - _rat(r)
            if d.num.is_zero() and not d.den.is_zero():
                return isinstance(op, (ast.Eq, ast.LtE, ast.GtE))
            if d.is_poly() and d.as_poly().is_const():
                c = d.as_poly().const_value()
                return {ast.Eq: c == 0, ast.NotEq: c != 0, ast.Lt: c < 0, ast.LtE: c <= 0, ast.Gt: c > 0, ast.GtE: c >= 0}[type(op)]
            u = Unknown(norm(node) if isinstance(node, ast.AST) else "cmp")
            u.pv = (type(op).__name__, d)
            return u
        return super().compare_hook(op, l, r, node)

    def truth_hook(self, v, node):
        if isinstance(v, Count):
            u = Unknown("truth of count")
            u.pv = ("NotEq", v.rat)
            return self.decide(node, u)
        return super().truth_hook(v, node)


def _rat(x) -> Rat:
    if isinstance(x, Count):
        return x.rat
    if isinstance(x, Rat):
        return x
    if isinstance(x, float):
        return Rat(Poly.const(Fraction(x).limit_denominator(10**9)))
    return to_rat(x)


def path_zero_set(out: Outcome):
    """Atoms forced to zero by the split decisions of a path.  Returns (zero_set, feasible)
    where feasible is True / False (contradiction) / None (unmodelled decision).
    Equalities between two counts (A == B) are kept and resolved once one side is known to be
    zero; a remaining equality makes the path undecided unless it is trivially satisfiable
    (it then only restricts the inputs and every obligation is checked under it by
    substitution, see path_substitution)."""
    zero: set[str] = set()
    nonzero_forms: list[Poly] = []
    equalities: list[Poly] = []
    for node, v, d in out.decisions:
        pv = getattr(v, "pv", None)
        if pv is None and str(getattr(v, "tag", "")).startswith("dtype-kind:"):
            continue  # a class of inputs (the dtype of the caller's masks), not a condition on the counts
        if pv is None:
            return zero, None
        opn, diff = pv
        if not isinstance(diff, Rat) or not diff.is_poly():
            return zero, None
        p = diff.as_poly()
        if not p.nonneg_coeffs():
            p2 = -p
            if not p2.nonneg_coeffs():
                # mixed signs: A op B between two counts
                if opn in ("Eq", "NotEq"):
                    is_eq = (opn == "Eq") == bool(d)
                    if is_eq:
                        equalities.append(p)
                    continue
                return zero, None
            opn = {"Lt": "Gt", "Gt": "Lt", "LtE": "GtE", "GtE": "LtE"}.get(opn, opn)
            p = p2
        is_zero = (opn == "Eq" and d) or (opn == "NotEq" and not d) or (opn == "Gt" and not d) or (opn == "LtE" and d)
        is_pos = (opn == "Eq" and not d) or (opn == "NotEq" and d) or (opn == "Gt" and d) or (opn == "LtE" and not d)
        if opn in ("Lt",):
            if d:
                return zero, False
            continue
        if opn == "GtE":
            if not d:
                return zero, False
            continue
        if is_zero:
            if p.const_value() > 0:
                return zero, False
            zero |= p.variables()
        elif is_pos:
            nonzero_forms.append(p)
    # propagate equalities A == B once a side vanishes
    changed = True
    while changed:
        changed = False
        for e in list(equalities):
            r = e.subst_zero(zero)
            if r.is_zero():
                equalities.remove(e)
                changed = True
            elif r.nonneg_coeffs() or (-r).nonneg_coeffs():
                q = r if r.nonneg_coeffs() else -r
                if q.const_value() > 0:
                    return zero, False
                zero |= q.variables()
                equalities.remove(e)
                changed = True
    out.__dict__["equalities"] = [e.subst_zero(zero) for e in equalities]
    for p in nonzero_forms:
        if p.subst_zero(zero).is_zero():
            return zero, False
    return zero, True


def path_substitution(out: Outcome) -> dict:
    """For remaining equalities  sum(+vars) == sum(-vars)  solve for one variable with
    coefficient +-1 so that values can be compared under the constraint."""
    sub = {}
    for e in out.__dict__.get("equalities", []):
        for m, c in e.terms.items():
            if len(m) == 1 and m[0][1] == 1 and abs(c) == 1 and m[0][0] not in sub:
                v = m[0][0]
                rest = e - Poly({m: c})
                sub[v] = rest * Poly.const(-1 / c)
                break
    return sub


def run_kernel(prog: Program, f: Func, args: dict, ndim=None):
    its = []

    def make(prefix):
        it = VennInterp(prog, f, dict(args), prefix=prefix)
        if ndim is not None:
            it.root.ndim = ndim
        its.append(it)
        return it

    outs = enumerate_paths(make)
    return list(zip(outs, its))


def N(region: str) -> Poly:
    return Poly.var("n_" + region)
