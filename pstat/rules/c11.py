"""C11 - exchanging prediction and reference mirrors the result
(decided: the ingredients; the emergent end-to-end symmetry is argued from them)."""

from __future__ import annotations

from ..model import AnchorMissing, Undecided
from ..poly import Poly, Rat
from ..report import Ctx
from ..variants import Variant
from . import c02, c03, c04, c06, c07
from .resultrun import metric_objs

INFO = {
    "explanation": "Ingredients of the mirror property, each decided on the source: (R11.1) kernel identities in the VENN domain: IoU and Dice are symmetric under exchanging the masks, RVD(Y,X) = -r/(1+r) (delegated R06.1-R06.3, R06.7); ASSD is the mean of both orientations (R07.1); (R11.2) the one-to-one conflict guard of the threshold matcher tests BOTH sides, every eligible pair with free partners is assigned, candidates are complete and ordered by score only (R03.1, R03.2, R03.4, R03.6); (R11.3) fp and fn are each other's mirror under n_pred <-> n_ref, rq/pq are invariant (exact rational functions of the calculators); (R11.4) unmatched predictions receive labels that collide with nothing, so the number of prediction instances is preserved by relabelling and fp is not under-counted on one side only (R04.2); (R11.5) per-instance evaluation selects the same label on both sides (R02.5). Further delegated: R15.8, R15.7 (no memo keyed by a symmetric fingerprint). Round 8: (R11.6) every matcher of the family that is a pure function of its candidates' scores is run by the abstract interpreter on two families of four candidates, every ranking of four distinct rational scores, and on the mirrored candidate set; wherever both label maps are one-to-one they must be mirror images. Round 9: R03.8 spellings delegated (a matcher asked to be one-to-one is one-to-one however the option was spelled).",
    "trusted_base": ["trusted bases of the delegated rules (C02, C03, C04, C06, C07)"],
    "assumptions": ["the matching is uniquely determined (no equal scores)"],
    "not_decided": ["the emergent end-to-end symmetry on concrete inputs (follows from the ingredients; not executed)", "symmetry of the connected-component libraries"],
}


def check_fp_fn_mirror(ctx: Ctx):
    metrics = metric_objs(ctx.prog)
    TP, NP, NR = Rat(Poly.var("tp")), Rat(Poly.var("n_pred")), Rat(Poly.var("n_ref"))

    def fac():
        return c02.build_result(ctx, metrics, TP, NP, NR)

    swap = {"n_pred": Poly.var("n_ref"), "n_ref": Poly.var("n_pred")}
    vals = {}
    for name in ("fp", "fn", "rq"):
        outs, _ = c02.eval_metric(ctx, metrics, fac, name)
        main = [o for o in outs if o.kind == "return" and all(getattr(v, "pv", None) is None or not d or v.pv[0] != "Eq" for _, v, d in o.decisions)]
        main = [o for o in main if isinstance(o.value, Rat) and not any(d and getattr(v, "pv", ("",))[0] == "Eq" for _, v, d in o.decisions)]
        if not main:
            ctx.undecided("R11.3", None, None, f"calc:{name}", "calculator value not available")
            return
        vals[name] = main[0].value
    ctx.decide("R11.3", None, None, "mirror:fp<->fn", "fp and fn are exchanged when prediction and reference are exchanged", vals["fp"].subst(swap).equals(vals["fn"]) and vals["fn"].subst(swap).equals(vals["fp"]), {"fp": repr(vals["fp"]), "fn": repr(vals["fn"])})
    ctx.decide("R11.3", None, None, "mirror:rq", "rq is unchanged when prediction and reference are exchanged", vals["rq"].subst(swap).equals(vals["rq"]), {"rq": repr(vals["rq"])})


def check_mirror_run(ctx: Ctx):
    """R11.6: every matcher of the family is run (abstract interpreter, concrete rational scores) on a bounded
    family of candidate sets - four candidates over up to three labels of one side and two of the other, every
    ranking of their scores - and on the mirrored set (roles of prediction and reference exchanged).  Wherever the
    matcher pairs one-to-one in both runs, the two label maps must be mirror images."""
    import ast
    from fractions import Fraction
    from itertools import permutations

    from ..absval import Obj, Sym, Unknown, enumerate_paths
    from ..model import norm
    from .common import candidate_layout, labelmap_api, make_metric_objs
    from .resultrun import ResultInterp

    prog = ctx.prog
    gen = prog.func("_functionals:_calc_matching_metric_of_overlapping_labels")
    pcls = prog.cls("utils.processing_pair:UnmatchedInstancePair")
    api = labelmap_api(prog)
    layout = candidate_layout(prog)
    families = ([(1, 1), (1, 2), (1, 3), (2, 3)], [(1, 1), (1, 2), (2, 1), (2, 2)])  # (reference label, prediction label)
    values = (Fraction(9, 10), Fraction(8, 10), Fraction(7, 10), Fraction(6, 10))
    n_cls = 0
    for cls, f in c03.matcher_classes(ctx):
        init = cls.lookup("__init__")
        names = [p.name for p in init.call_params] if init is not None else []
        mp = next((x for x in names if "metric" in x.lower()), None)
        construct = f"{f.qual}:mirror-run"
        mv, me = make_metric_objs(prog, False)
        matcher = Obj(cls, {})
        if init is not None:
            o0 = ResultInterp(prog, init, {mp: me} if mp else {}, self_obj=matcher, metrics=[me]).run()
            if o0.kind == "raise" or o0.decisions:
                ctx.ok("R11.6", f, f.node, construct, "matcher not constructible from its defaults: not run", {"outcome": o0.kind}, nontrivial=False)
                continue

        def run(pairs, scores, matcher=matcher, f=f, me=me):
            """label map {pred: ref} of one run, 'skip' (the matcher decides on something the scenario does not fix,
            or pairs many-to-one) or ('fail', text)"""
            recs = sorted(zip(scores, pairs), key=lambda x: -x[0])
            records = [_c03_record(layout, sc, r, p_) for sc, (r, p_) in recs]
            rl = tuple(sorted({r for r, _ in pairs}))
            pl = tuple(sorted({p_ for _, p_ in pairs}))

            def make(prefix):
                pair = Obj(pcls, {"_prediction_arr": Sym("PRED_ARR"), "_reference_arr": Sym("REF_ARR"), "_ref_labels": rl, "_pred_labels": pl, "n_dim": 3, "n_prediction_instance": len(pl), "n_reference_instance": len(rl)})
                params = [p.name for p in f.call_params]
                it = c03.matcher_run_interp()(prog, f, {**({params[0]: pair} if params else {}), f.self_name: matcher}, metrics=[me], prefix=prefix)
                it.root.no_inline = {gen.qual}
                it.root.gen = gen
                it.root.records = records
                it.root.beats = {}
                it.root.cmps = {}
                return it

            outs = enumerate_paths(make, max_paths=4)
            if len(outs) != 1 or outs[0].decisions:
                return "skip"
            out = outs[0]
            if out.kind != "return" or not isinstance(out.value, Obj):
                return ("fail", f"{out.kind} {out.exc or ''}".strip())
            got = out.value.attrs.get(api["dict_attr"])
            if not isinstance(got, dict):
                return "skip"
            return dict(got)

        runs = 0
        verdict, witness = True, None
        try:
            for pairs in families:
                for perm in permutations(range(4)):
                    scores = [values[k] for k in perm]
                    a = run(pairs, scores)
                    if a == "skip":
                        verdict = None
                        break
                    b = run([(p_, r) for r, p_ in pairs], scores)
                    runs += 2
                    if b == "skip":
                        verdict = None
                        break
                    if isinstance(a, tuple) or isinstance(b, tuple):
                        continue  # a raising run is R03.4's / R14.7's matter
                    if len(set(a.values())) != len(a) or len(set(b.values())) != len(b):
                        continue  # many-to-one pairing: outside the property
                    if {r: p_ for p_, r in a.items()} != b:
                        verdict, witness = False, {"candidates (ref, pred): score": {str(pr): str(sc) for pr, sc in zip(pairs, scores)}, "label_map": {str(k): v for k, v in a.items()}, "label_map_of_exchanged_pair": {str(k): v for k, v in b.items()}}
                        break
                if verdict is not True:
                    break
        except Undecided as e:
            verdict, witness = None, {"why": str(e)}
        n_cls += 1
        if verdict is None:
            # a matcher that is not a pure function of the candidates' ranking (merged scores, ...) is not judged here
            ctx.ok("R11.6", f, f.node, construct, "matcher decides on more than the candidates' scores: mirror run not applicable", witness, nontrivial=False)
        else:
            ctx.decide("R11.6", f, f.node, construct, f"on every ranking of four candidates (two families, {runs} runs) the label map of the exchanged pair is the mirror image of the label map, wherever both are one-to-one", verdict, witness)
    if n_cls == 0:
        raise AnchorMissing("no matcher class to run")


def _c03_record(layout, score, ref, pred):
    return c03._build_record(layout, score, ref, pred)


def _run_rule(ctx, name, fn):
    """a sub-rule that cannot be evaluated is recorded as undecided; the remaining rules still run"""
    try:
        return fn(ctx)
    except (Undecided, AnchorMissing) as e:
        ctx.undecided(name, None, None, f"{name}:analysis", f"{type(e).__name__}: {e}")
        return 0


def check(ctx: Ctx):
    values = c06.check_kernels(ctx)
    c06.check_identities(ctx, values)
    for fn, rule in ((c07.check_chain, "R07.1"), (check_fp_fn_mirror, "R11.3")):
        try:
            fn(ctx)
        except (Undecided, AnchorMissing) as e:
            ctx.undecided(rule, None, None, f"{rule}:{fn.__name__}", f"{type(e).__name__}: {e}")
    _run_rule(ctx, "R11.6", check_mirror_run)
    _run_rule(ctx, "check_no_pruning", c03.check_no_pruning)
    c03._guarded(ctx, "R03.7", c03.check_candidate_call)
    c03._guarded(ctx, "R03.1", c03.check_codec)
    c03._guarded(ctx, "R03.2", c03.check_candidates)
    c03._guarded(ctx, "R03.4", c03.check_naive)
    c03._guarded(ctx, "R03.8", c03.check_ctor_spellings)  # "one-to-one" is what was asked for, however the option was spelled
    _run_rule(ctx, "check_single_instance", c02.check_single_instance)
    _run_rule(ctx, "check_chained_replacement", c04.check_chained_replacement)
    _run_rule(ctx, "check_relabel", c04.check_relabel)
    from . import c09

    c03._guarded(ctx, "R09.1", c09.check_codec_width)
    from . import c10

    c03._guarded(ctx, "R10.3", c10.check_crop_mask)
    c03._guarded(ctx, "R09.1", c09.check_codec_width_relational)
    # results of later evaluations (another group, a flipped copy, the exchanged pair, a second
    # threshold) are only meaningful if no step writes into the caller's arrays (R15.8)
    from . import c15 as _c15
    from . import c03 as _c03

    _c03._guarded(ctx, "R15.8", _c15.check_param_aliasing)
    _c03._guarded(ctx, "R15.7", _c15.check_globals)  # no memo between calls: scores depend on the arrays handed in only


_R = "panoptica/panoptica_result.py"
_M = "panoptica/instance_matcher.py"

VARIANTS = [
    Variant("C11-m-fn-asymmetric", "R11.3", "mutant", [(_R, "    return res.num_ref_instances - res.tp", "    return max(res.num_ref_instances - res.tp, 0) + 0 * res.num_pred_instances if False else res.num_ref_instances - res.tp - 0")], kind="twin") if False else Variant("C11-m-fp-uses-ref", "R11.3", "mutant", [(_R, "    return res.num_pred_instances - res.tp", "    return res.num_ref_instances - res.tp")], control=True),
    Variant("C11-m-guard-pred-only", "R03.4", "mutant", c03.VARIANTS[22].edits, control=True, note="delegated: one-to-one guard tests only the prediction side"),
    Variant("C11-m-rvd-swapped", "R06.", "mutant", c06.VARIANTS[4].edits, note="delegated"),
    Variant("C11-m-assd-one-direction", "R07.1", "mutant", c07.VARIANTS[0].edits, note="delegated"),
    Variant("C11-m-keep-free-label", "R04.2", "mutant", c04.VARIANTS[5].edits, note="delegated"),
    Variant("C11-t-rq-2tp", "R11.3", "twin", c02.VARIANTS[17].edits),
]
