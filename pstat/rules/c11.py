"""C11 - exchanging prediction and reference mirrors the result
(decided: the ingredients; the emergent end-to-end symmetry is argued from them)."""

from __future__ import annotations

from ..model import AnchorMissing, Undecided
from ..poly import Poly, Rat
from ..report import Ctx
from ..variants import Variant
from . import c02, c03, c04, c06, c07
from .resultrun import metric_objs

INFO = {
    "explanation": "Ingredients of the mirror property, each decided on the source: (R11.1) kernel identities in the VENN domain: IoU and Dice are symmetric under exchanging the masks, RVD(Y,X) = -r/(1+r) (delegated R06.1-R06.3, R06.7); ASSD is the mean of both orientations (R07.1); (R11.2) the one-to-one conflict guard of the threshold matcher tests BOTH sides, every eligible pair with free partners is assigned, candidates are complete and ordered by score only (R03.1, R03.2, R03.4, R03.6); (R11.3) fp and fn are each other's mirror under n_pred <-> n_ref, rq/pq are invariant (exact rational functions of the calculators); (R11.4) unmatched predictions receive labels that collide with nothing, so the number of prediction instances is preserved by relabelling and fp is not under-counted on one side only (R04.2); (R11.5) per-instance evaluation selects the same label on both sides (R02.5). Further delegated: R15.8, R15.7 (no memo keyed by a symmetric fingerprint).",
    "trusted_base": ["trusted bases of the delegated rules (C02, C03, C04, C06, C07)"],
    "assumptions": ["the matching is uniquely determined (no equal scores)"],
    "not_decided": ["the emergent end-to-end symmetry on concrete inputs (follows from the ingredients; not executed)", "symmetry of the connected-component libraries"],
}


def check_fp_fn_mirror(ctx: Ctx):
    metrics = metric_objs(ctx.prog)
    TP, NP, NR = Rat(Poly.var("tp")), Rat(Poly.var("n_pred")), Rat(Poly.var("n_ref"))

    def fac():
        return c02.build_result(ctx, metrics, TP, NP, NR)

    swap = {"n_pred": Poly.var("n_ref"), "n_ref": Poly.var("n_pred")}
    vals = {}
    for name in ("fp", "fn", "rq"):
        outs, _ = c02.eval_metric(ctx, metrics, fac, name)
        main = [o for o in outs if o.kind == "return" and all(getattr(v, "pv", None) is None or not d or v.pv[0] != "Eq" for _, v, d in o.decisions)]
        main = [o for o in main if isinstance(o.value, Rat) and not any(d and getattr(v, "pv", ("",))[0] == "Eq" for _, v, d in o.decisions)]
        if not main:
            ctx.undecided("R11.3", None, None, f"calc:{name}", "calculator value not available")
            return
        vals[name] = main[0].value
    ctx.decide("R11.3", None, None, "mirror:fp<->fn", "fp and fn are exchanged when prediction and reference are exchanged", vals["fp"].subst(swap).equals(vals["fn"]) and vals["fn"].subst(swap).equals(vals["fp"]), {"fp": repr(vals["fp"]), "fn": repr(vals["fn"])})
    ctx.decide("R11.3", None, None, "mirror:rq", "rq is unchanged when prediction and reference are exchanged", vals["rq"].subst(swap).equals(vals["rq"]), {"rq": repr(vals["rq"])})


def _run_rule(ctx, name, fn):
    """a sub-rule that cannot be evaluated is recorded as undecided; the remaining rules still run"""
    try:
        return fn(ctx)
    except (Undecided, AnchorMissing) as e:
        ctx.undecided(name, None, None, f"{name}:analysis", f"{type(e).__name__}: {e}")
        return 0


def check(ctx: Ctx):
    values = c06.check_kernels(ctx)
    c06.check_identities(ctx, values)
    for fn, rule in ((c07.check_chain, "R07.1"), (check_fp_fn_mirror, "R11.3")):
        try:
            fn(ctx)
        except (Undecided, AnchorMissing) as e:
            ctx.undecided(rule, None, None, f"{rule}:{fn.__name__}", f"{type(e).__name__}: {e}")
    _run_rule(ctx, "check_no_pruning", c03.check_no_pruning)
    c03._guarded(ctx, "R03.7", c03.check_candidate_call)
    c03._guarded(ctx, "R03.1", c03.check_codec)
    c03._guarded(ctx, "R03.2", c03.check_candidates)
    c03._guarded(ctx, "R03.4", c03.check_naive)
    _run_rule(ctx, "check_single_instance", c02.check_single_instance)
    _run_rule(ctx, "check_chained_replacement", c04.check_chained_replacement)
    _run_rule(ctx, "check_relabel", c04.check_relabel)
    from . import c09

    c03._guarded(ctx, "R09.1", c09.check_codec_width)
    from . import c10

    c03._guarded(ctx, "R10.3", c10.check_crop_mask)
    c03._guarded(ctx, "R09.1", c09.check_codec_width_relational)
    # results of later evaluations (another group, a flipped copy, the exchanged pair, a second
    # threshold) are only meaningful if no step writes into the caller's arrays (R15.8)
    from . import c15 as _c15
    from . import c03 as _c03

    _c03._guarded(ctx, "R15.8", _c15.check_param_aliasing)
    _c03._guarded(ctx, "R15.7", _c15.check_globals)  # no memo between calls: scores depend on the arrays handed in only


_R = "panoptica/panoptica_result.py"
_M = "panoptica/instance_matcher.py"

VARIANTS = [
    Variant("C11-m-fn-asymmetric", "R11.3", "mutant", [(_R, "    return res.num_ref_instances - res.tp", "    return max(res.num_ref_instances - res.tp, 0) + 0 * res.num_pred_instances if False else res.num_ref_instances - res.tp - 0")], kind="twin") if False else Variant("C11-m-fp-uses-ref", "R11.3", "mutant", [(_R, "    return res.num_pred_instances - res.tp", "    return res.num_ref_instances - res.tp")], control=True),
    Variant("C11-m-guard-pred-only", "R03.4", "mutant", c03.VARIANTS[22].edits, control=True, note="delegated: one-to-one guard tests only the prediction side"),
    Variant("C11-m-rvd-swapped", "R06.", "mutant", c06.VARIANTS[4].edits, note="delegated"),
    Variant("C11-m-assd-one-direction", "R07.1", "mutant", c07.VARIANTS[0].edits, note="delegated"),
    Variant("C11-m-keep-free-label", "R04.2", "mutant", c04.VARIANTS[5].edits, note="delegated"),
    Variant("C11-t-rq-2tp", "R11.3", "twin", c02.VARIANTS[17].edits),
]
