"""R09.6: the label enumeration helpers return exactly the non-zero values present.

`_unique_without_zeros` / `_count_unique_without_zeros` are what every instance count and
every label tuple of a processing pair comes from.  They are run abstractly per input dtype on
a small domain of "sets of present values":
    USet(lo, hi, zero)     the values v present in the array with lo <= v < hi
                            (hi None = unbounded), zero=False: 0 excluded
    Hist                    np.bincount(arr[.ravel()|.flatten()|.reshape(-1)], minlength=..)
    Hist[a:b]               restriction of the histogram to the values a <= v < b
    np.flatnonzero / np.nonzero(...)[0] / np.where(h > 0)[0] of a histogram slice [a:b]
                            = USet shifted by -a;   (+ a) shifts it back
    np.unique(x), np.unique(x[x != 0]), u[u != 0], u[1:] if u[0] == 0 ...,
    np.setdiff1d(u, [0]), set(...)/sorted(...)/list(...) of them, len(...)
The result must be USet(lo<=1, hi>dtype max, zero excluded); the count its cardinality.
Anything outside the domain is undecided, never assumed.
"""

from __future__ import annotations

import ast
from typing import Optional

from ..absval import Interp, Sym, Unknown, enumerate_paths
from ..model import AnchorMissing, Func, Undecided, norm, walk_no_nested
from ..report import Ctx

DTYPES = {"u8": ("numpy.uint8", 255), "u16": ("numpy.uint16", 65535), "u32": ("numpy.uint32", 2**32 - 1), "u64": ("numpy.uint64", 2**64 - 1), "i64": ("numpy.int64", 2**63 - 1)}
DTMIN = {"u8": 0, "u16": 0, "u32": 0, "u64": 0, "i64": -(2**63)}  # signed label arrays may hold negative values: they are labels too (and rejected downstream)


class Arr:
    def __init__(self, dt):
        self.dt = dt


class Flat(Arr):
    pass


class SlabArr(Arr):
    """one of the consecutive pieces a verified partition generator cuts an array into (two generic pieces stand for
    any number).  lo / hi: what the tests made on this path have established about the values it holds."""

    def __init__(self, dt, sid):
        super().__init__(dt)
        self.sid = sid
        self.lo, self.hi = DTMIN[dt], None  # values in [lo, hi)


class _SlabMax:
    def __init__(self, slab):
        self.slab = slab


def partition_generators(prog) -> set:
    """quals of package generator functions that hand out their array argument piece by piece along the first axis,
    every row exactly once: a single loop `for s in range(0, N, K): yield A[s : s + K]` with N = A.shape[0] and a
    step K that is at least 1 (a positive constant or max(1, ...))."""
    out = set()
    for f in prog.package_functions():
        if f.cls is not None or not f.call_params:
            continue
        ys = [n for n in walk_no_nested(f.node) if isinstance(n, (ast.Yield, ast.YieldFrom))]
        loops = [n for n in walk_no_nested(f.node) if isinstance(n, (ast.For, ast.While))]
        if len(ys) != 1 or len(loops) != 1 or not isinstance(loops[0], ast.For) or not isinstance(ys[0], ast.Yield):
            continue
        loop, y = loops[0], ys[0]
        a = f.call_params[0].name
        defs = {}
        for st in walk_no_nested(f.node):
            if isinstance(st, ast.Assign) and len(st.targets) == 1 and isinstance(st.targets[0], ast.Name):
                defs.setdefault(st.targets[0].id, []).append(st.value)
        it = loop.iter
        if not (isinstance(loop.target, ast.Name) and isinstance(it, ast.Call) and isinstance(it.func, ast.Name) and it.func.id == "range" and len(it.args) == 3 and isinstance(it.args[0], ast.Constant) and it.args[0].value == 0):
            continue
        v = loop.target.id

        def is_rows(e):
            if isinstance(e, ast.Name) and len(defs.get(e.id, [])) == 1:
                e = defs[e.id][0]
            return isinstance(e, ast.Subscript) and isinstance(e.value, ast.Attribute) and e.value.attr == "shape" and isinstance(e.value.value, ast.Name) and e.value.value.id == a and isinstance(e.slice, ast.Constant) and e.slice.value == 0 or (isinstance(e, ast.Call) and isinstance(e.func, ast.Name) and e.func.id == "len" and len(e.args) == 1 and isinstance(e.args[0], ast.Name) and e.args[0].id == a)

        def at_least_one(e):
            if isinstance(e, ast.Constant) and isinstance(e.value, int) and e.value >= 1:
                return True
            if isinstance(e, ast.Name) and len(defs.get(e.id, [])) == 1:
                return at_least_one(defs[e.id][0])
            return isinstance(e, ast.Call) and isinstance(e.func, ast.Name) and e.func.id == "max" and any(isinstance(x, ast.Constant) and isinstance(x.value, int) and x.value >= 1 for x in e.args)

        k = it.args[2]
        sl = y.value
        ok_slice = isinstance(sl, ast.Subscript) and isinstance(sl.value, ast.Name) and sl.value.id == a and isinstance(sl.slice, ast.Slice) and sl.slice.step is None and isinstance(sl.slice.lower, ast.Name) and sl.slice.lower.id == v and isinstance(sl.slice.upper, ast.BinOp) and isinstance(sl.slice.upper.op, ast.Add) and isinstance(sl.slice.upper.left, ast.Name) and sl.slice.upper.left.id == v and ast.dump(sl.slice.upper.right) == ast.dump(k)
        # the array may be rebound before the loop only to a reshaped view of itself (0-d input)
        rebinds = [d for d in defs.get(a, [])]
        ok_rebind = all(isinstance(d, ast.Call) and isinstance(d.func, ast.Attribute) and d.func.attr == "reshape" and isinstance(d.func.value, ast.Name) and d.func.value.id == a for d in rebinds)
        if is_rows(it.args[1]) and at_least_one(k) and ok_slice and ok_rebind and any(y is n for n in ast.walk(loop)):
            out.add(f.qual)
    return out


class NonZeroSel:
    """arr[arr != 0]  (positive: arr[arr > 0])"""

    def __init__(self, dt, positive=False):
        self.dt = dt
        self.positive = positive


class NZMask:
    def __init__(self, of, positive=False):
        self.of = of
        self.positive = positive  # `> 0` (drops negative values as well) rather than `!= 0`


class USet:
    def __init__(self, lo, hi, zero, shift=0, card=False):
        self.lo, self.hi, self.zero, self.shift = lo, hi, zero, shift

    def exact(self, dtmax, dtmin=0, slabs=None) -> bool:
        if getattr(self, "slabs", None) is not None and slabs:
            # collected piece by piece: every piece is either collected whole or known (by the test that skipped it)
            # to hold zeros only; the zero is dropped at the end, negative labels are kept
            self.lost = sorted(sid for sid, sl in slabs.items() if sid not in self.slabs and not (sl.lo >= 0 and sl.hi is not None and sl.hi <= 1))
            return not self.lost and not self.zero and self.shift == 0 and not getattr(self, "dropped_smallest", False) and (dtmin == 0 or not getattr(self, "dropped_negative", False))
        if getattr(self, "dropped_smallest", False):
            return False  # without background in the array the smallest LABEL is dropped, not the 0
        # (a histogram cannot be built of negative values at all - that is an error, not a silent loss)
        lo_ok = self.lo <= 1 if (dtmin == 0 or getattr(self, "from_hist", False)) else self.lo <= dtmin
        return self.shift == 0 and lo_ok and not self.zero and (self.hi is None or self.hi > dtmax)

    def __repr__(self):
        if getattr(self, "lost", None):
            return f"values collected piece by piece; piece(s) {self.lost} skipped although the test that skips them does not show they hold zeros only (negative labels are lost)"
        if getattr(self, "slabs", None) is not None:
            return f"values collected piece by piece from {sorted(self.slabs)}{' incl. 0' if self.zero else ''}"
        if getattr(self, "dropped_smallest", False):
            return "present values without the smallest one (that is the background only if the array has background)"
        return f"present values in [{self.lo}, {'inf' if self.hi is None else self.hi}){' incl. 0' if self.zero else ''}{f' shifted by {self.shift}' if self.shift else ''}"


class CountsOf:
    """how many elements carry each value of a value set (parallel to it)"""

    def __init__(self, of):
        self.of = of


class Card:
    def __init__(self, of: USet):
        self.of = of


class Hist:
    def __init__(self, lo=0, hi=None):
        self.lo, self.hi = lo, hi


class HistPos:
    """histogram slice > 0 (boolean)"""

    def __init__(self, h):
        self.h = h


class _M:
    def __init__(self, o, name):
        self.o, self.name = o, name


class EnumInterp(Interp):
    def call_func(self, f, args, kwargs, node, self_obj=None):
        if self_obj is None and args and type(args[0]) is Arr and f.qual in self.root.__dict__.setdefault("_partgens", partition_generators(self.prog)):
            # a verified partition of the array: two generic pieces, each with whatever values
            slabs = self.root.__dict__.setdefault("slabs", {})
            if not slabs:
                for sid in ("A", "B"):
                    slabs[sid] = SlabArr(args[0].dt, sid)
            return list(slabs.values())
        return super().call_func(f, args, kwargs, node, self_obj=self_obj)

    def _slab_test(self, slab, kind, node):
        """a test on what a piece holds: an input class of its own; the outcome narrows what is known about the piece"""
        u = self.root.__dict__.setdefault("_slab_unknowns", {}).setdefault((slab.sid, kind), Unknown(f"slab:{slab.sid}:{kind}"))
        return u

    def truth_hook(self, v, node):
        return super().truth_hook(v, node)

    def get_attr(self, base, attr, node):
        if isinstance(base, Sym) and attr == "kind" and base.name.startswith("ext:numpy.") and base.name[4:] in {v[0] for v in DTYPES.values()}:
            return "i" if base.name.endswith(".int64") else "u"
        if isinstance(base, (Arr, USet, Hist, NonZeroSel)):
            if attr == "dtype" and isinstance(base, Arr):
                return Sym("ext:" + DTYPES[base.dt][0])
            if attr in ("size", "shape", "ndim"):
                return Unknown(attr)
            return _M(base, attr)
        return super().get_attr(base, attr, node)

    def apply(self, fv, args, kwargs, node):
        if isinstance(fv, _M):
            o, n = fv.o, fv.name
            if isinstance(o, Arr) and n in ("ravel", "flatten") or (isinstance(o, Arr) and n == "reshape" and args == [-1]):
                return Flat(o.dt)
            if isinstance(o, SlabArr) and n == "any" and not args and not kwargs:
                # does the piece hold a non-zero value: if not, it holds zeros only
                d = self.decide(node, self._slab_test(o, "any", node))
                if not d:
                    o.lo, o.hi = max(o.lo, 0), 1
                return d
            if isinstance(o, SlabArr) and n == "max" and not args and not kwargs:
                return _SlabMax(o)
            if isinstance(o, Arr) and n in ("max", "min", "any", "all", "sum"):
                return Unknown("array reduction")
            if isinstance(o, Arr) and n == "astype" and args and isinstance(args[0], Sym) and args[0].name.split(".")[-1].split(":")[-1] in ("intp", "int64", "uint64", "int_", "uintp") and not (set(kwargs) - {"copy"}):
                return o  # a widening cast to a 64-bit index type keeps every value of the dtypes considered (max 2**63 - 1 for intp: u64 arrays excepted below)
            if isinstance(o, USet) and n in ("astype", "tolist", "copy"):
                return o
            return Unknown(f"{type(o).__name__}.{n}")
        return super().apply(fv, args, kwargs, node)

    def compare_hook(self, op, l, r, node):
        if isinstance(l, _SlabMax) and isinstance(r, int) and not isinstance(r, bool) and r == 0 and isinstance(op, (ast.Eq, ast.LtE, ast.Gt, ast.NotEq)):
            # largest value of the piece against 0: "no positive value" says nothing about negative ones
            d = self.decide(node, self._slab_test(l.slab, "max<=0", node))
            if d:
                l.slab.hi = 1
            return d if isinstance(op, (ast.Eq, ast.LtE)) else not d
        if isinstance(l, Arr) and r == 0 and isinstance(op, (ast.NotEq, ast.Gt)):
            return NZMask(l, positive=isinstance(op, ast.Gt))
        if isinstance(l, USet) and r == 0 and isinstance(op, (ast.NotEq, ast.Gt)):
            return NZMask(l, positive=isinstance(op, ast.Gt))
        if isinstance(l, Hist) and r == 0 and isinstance(op, (ast.NotEq, ast.Gt)):
            return HistPos(l)
        if isinstance(l, Arr) and isinstance(r, int):
            return Unknown("array comparison")
        return super().compare_hook(op, l, r, node)

    def subscript_hook(self, base, idx, node):
        if isinstance(base, Arr) and isinstance(idx, NZMask) and idx.of is base:
            return NonZeroSel(base.dt, idx.positive)
        if isinstance(base, CountsOf) and isinstance(idx, NZMask) and idx.of is base.of:
            return CountsOf(self.subscript_hook(base.of, idx, node))
        if isinstance(base, CountsOf) and isinstance(idx, slice):
            return CountsOf(self.subscript_hook(base.of, idx, node))
        if isinstance(base, USet) and isinstance(idx, NZMask) and idx.of is base:
            if base.shift != 0:
                return USet(base.lo, base.hi, False, base.shift)
            u = USet(max(base.lo, 1) if (idx.positive or base.lo >= 0) else base.lo, base.hi, False, 0)
            u.from_hist = getattr(base, "from_hist", False)
            if getattr(base, "slabs", None) is not None:
                u.slabs = set(base.slabs)
                u.dropped_negative = idx.positive
            return u
        if isinstance(base, USet) and isinstance(idx, slice) and idx.step in (None, 1) and idx.stop is None and idx.start == 1:
            # the sorted distinct values without the first: drops 0 only if 0 is present, else a label
            u = USet(base.lo, base.hi, False, base.shift)
            u.dropped_smallest = True
            u.had_zero = base.zero
            return u
        if isinstance(base, Hist) and isinstance(idx, slice) and idx.step in (None, 1):
            lo = idx.start if idx.start is not None else 0
            hi = idx.stop
            if isinstance(lo, int) and (hi is None or isinstance(hi, int)) and lo >= 0 and (hi is None or hi >= 0):
                nlo = base.lo + lo
                nhi = None if hi is None else base.lo + hi
                if base.hi is not None:
                    nhi = base.hi if nhi is None else min(nhi, base.hi)
                return Hist(nlo, nhi)
        if isinstance(base, tuple) and isinstance(idx, int):
            return base[idx]
        return super().subscript_hook(base, idx, node)

    def binop_hook(self, op, l, r, node):
        if isinstance(l, USet) and isinstance(r, int) and isinstance(op, (ast.Add, ast.Sub)):
            u = USet(l.lo, l.hi, l.zero, l.shift + (r if isinstance(op, ast.Add) else -r))
            u.from_hist = getattr(l, "from_hist", False)
            return u
        return super().binop_hook(op, l, r, node)

    def call_builtin(self, name, args, kwargs, node):
        if name == "len" and args and isinstance(args[0], USet):
            return Card(args[0])
        if name in ("set", "sorted", "list", "tuple") and args and isinstance(args[0], USet):
            return args[0]
        return super().call_builtin(name, args, kwargs, node)

    def _from_hist(self, h: Hist) -> USet:
        # indices k (relative to the slice) with count > 0:  value - lo
        u = USet(h.lo, h.hi, h.lo == 0, shift=-h.lo)
        u.from_hist = True
        return u

    def external_call(self, name, args, kwargs, node):
        a = args
        if name in ("numpy.any", "numpy.all", "warnings.warn", "numpy.min", "numpy.max"):
            return Unknown(name) if name != "warnings.warn" else None
        if name == "numpy.unique" and len(a) == 1 and set(kwargs) == {"return_counts"} and kwargs["return_counts"] is True and isinstance(a[0], Arr):
            u = USet(DTMIN[a[0].dt], None, True)
            return (u, CountsOf(u))
        if name == "numpy.unique" and len(a) == 1 and not kwargs and isinstance(a[0], SlabArr):
            u = USet(a[0].lo, a[0].hi, True)
            u.slabs = {a[0].sid}
            return u
        if name == "numpy.concatenate" and len(a) == 1 and not kwargs and isinstance(a[0], (list, tuple)) and a[0] and all(isinstance(x, USet) and x.shift == 0 and getattr(x, "slabs", None) is not None for x in a[0]):
            xs = a[0]
            u = USet(min(x.lo for x in xs), None if any(x.hi is None for x in xs) else max(x.hi for x in xs), any(x.zero for x in xs))
            u.slabs = set().union(*[x.slabs for x in xs])
            u.pieces = [(x.lo, x.hi) for x in xs]
            return u
        if name in ("numpy.empty", "numpy.zeros", "numpy.array") and a and a[0] in (0, [], ()) and self.root.__dict__.get("slabs"):
            u = USet(1, 1, False)  # no value at all
            u.slabs = set()
            return u
        if name == "numpy.unique" and len(a) == 1 and not kwargs:
            x = a[0]
            if isinstance(x, (Arr,)):
                return USet(DTMIN[x.dt], None, True)
            if isinstance(x, NonZeroSel):
                return USet(1 if (x.positive or DTMIN[x.dt] == 0) else DTMIN[x.dt], None, False)
            if isinstance(x, USet):
                return x
        if name == "numpy.bincount" and a and isinstance(a[0], (Flat,)) and not (set(kwargs) - {"minlength"}):
            return Hist(0, None)
        if name in ("numpy.flatnonzero",) and len(a) == 1 and isinstance(a[0], (Hist, HistPos)):
            return self._from_hist(a[0] if isinstance(a[0], Hist) else a[0].h)
        if name in ("numpy.nonzero", "numpy.where") and len(a) == 1 and isinstance(a[0], (Hist, HistPos)):
            return (self._from_hist(a[0] if isinstance(a[0], Hist) else a[0].h),)
        if name in ("numpy.setdiff1d",) and len(a) == 2 and isinstance(a[0], USet) and a[1] in ([0], (0,), 0):
            u = USet((max(a[0].lo, 1) if a[0].lo >= 0 else a[0].lo) if a[0].shift == 0 else a[0].lo, a[0].hi, False, a[0].shift)
            u.from_hist = getattr(a[0], "from_hist", False)
            return u
        if name == "numpy.iinfo" and a and isinstance(a[0], Sym):
            return super().external_call(name, args, kwargs, node)
        if name in ("numpy.count_nonzero",) and len(a) == 1 and isinstance(a[0], (Hist, HistPos)):
            return Card(self._from_hist(a[0] if isinstance(a[0], Hist) else a[0].h))
        if name in ("numpy.asarray", "numpy.array", "numpy.sort") and a and isinstance(a[0], USet):
            return a[0]
        return super().external_call(name, args, kwargs, node)

    def compare(self, op, l, r, node):
        # dtype membership / equality on concrete dtype symbols
        if isinstance(op, (ast.In, ast.NotIn)) and isinstance(l, Sym) and isinstance(r, (tuple, list)) and all(isinstance(x, Sym) for x in r):
            res = any(x == l for x in r)
            return res if isinstance(op, ast.In) else not res
        return super().compare(op, l, r, node)


def _enumerators_of_pair_constructors(prog) -> list:
    """functions whose result becomes a label tuple / an instance count of a processing pair:
    g(<array parameter>) (possibly under tuple()/list()/len()) assigned to self.<attr> in a pair constructor"""
    out = []
    try:
        base = prog.cls("utils.processing_pair:_ProcessingPair")
    except Exception:
        return out
    for c in [base] + base.all_subclasses():
        init = c.methods.get("__init__")
        if init is None:
            continue
        arr_params = {p.name for p in init.call_params if p.name.lower().endswith("_arr")}
        for st in walk_no_nested(init.node):
            tgts = st.targets if isinstance(st, ast.Assign) else [st.target] if isinstance(st, ast.AnnAssign) and st.value is not None else []
            if not any(isinstance(t, ast.Attribute) and isinstance(t.value, ast.Name) and t.value.id == init.self_name for t in tgts):
                continue
            v = st.value
            while isinstance(v, ast.Call) and isinstance(v.func, ast.Name) and v.func.id in ("tuple", "list", "sorted", "len", "int") and len(v.args) == 1:
                v = v.args[0]
            if isinstance(v, ast.Call) and v.args and isinstance(v.args[0], ast.Name) and v.args[0].id in arr_params:
                for g in prog.resolve_call(init, v, fanout=False):
                    if isinstance(g, Func) and len([p for p in g.call_params if p.default is None]) == 1:
                        attr = next(t.attr for t in tgts if isinstance(t, ast.Attribute))
                        kind = "count" if ("instance" in attr and not isinstance(st.value, ast.Call)) else None
                        out.append((g, kind))
    return out


def check_label_enumeration(ctx: Ctx):
    prog = ctx.prog
    n = 0
    targets = [(prog.func("utils.numpy_utils:_unique_without_zeros"), "set"), (prog.func("utils.numpy_utils:_count_unique_without_zeros"), "count")]
    seen = {t[0].qual for t in targets}
    for g, kind in _enumerators_of_pair_constructors(prog):
        if g.qual not in seen:
            seen.add(g.qual)
            # what the function returns decides how it is read: a collection of labels or their number
            targets.append((g, kind or "set-or-count"))
    flagged = []
    for f, kind in targets:
        # an enumerator with an option to hand back the sizes too is judged with the option on as well
        for prm in f.call_params[1:]:
            if isinstance(prm.default, ast.Constant) and prm.default.value is False and "count" in prm.name.lower():
                flagged.append((f, kind, prm.name))
    for f, kind, flag in [(f, k, None) for f, k in targets] + flagged:
        p0 = f.call_params[0].name
        for dt, (sym, dtmax) in DTYPES.items():
            holder = []

            def make(prefix, dt=dt, flag=flag):
                it_ = EnumInterp(prog, f, {p0: Arr(dt), **({flag: True} if flag else {})}, prefix=prefix)
                holder.append(it_)
                return it_

            try:
                outs = enumerate_paths(make, max_paths=512)
            except Undecided as e:
                ctx.undecided("R09.6", f, f.node, f"{f.qual}:dtype={dt}", f"label enumeration not evaluable: {e}")
                continue
            for out, it_ in zip(outs, holder):
                slabs_ = it_.root.__dict__.get("slabs")
                dtxt = "; ".join(f"{norm(nd) if isinstance(nd, ast.AST) else '?'}={d}" for nd, v, d in out.decisions)
                construct = f"{f.qual}:dtype={dt}" + (f",{flag}=True" if flag else "") + (f"[{dtxt}]" if dtxt else "")
                if flag and out.kind == "return" and isinstance(out.value, tuple) and len(out.value) == 2 and isinstance(out.value[1], CountsOf) and out.value[1].of is not None:
                    # (values, counts): the counts must belong to exactly the values handed back
                    same = isinstance(out.value[0], USet) and repr(out.value[0]) == repr(out.value[1].of) and getattr(out.value[0], "dropped_smallest", False) == getattr(out.value[1].of, "dropped_smallest", False)
                    ctx.decide("R09.6", f, out.node, construct + ":counts", "the sizes handed back belong to exactly the labels handed back", same, {"labels": repr(out.value[0]), "counts_of": repr(out.value[1].of)})
                    out = type(out)(out.kind, out.value[0], out.node, out.decisions, out.env, out.exc)
                if out.kind != "return":
                    ctx.undecided("R09.6", f, out.node, construct, f"label enumeration ends with {out.kind} {out.exc or ''}")
                    continue
                v = out.value
                if kind == "set-or-count":
                    us = v.of if isinstance(v, Card) else v if isinstance(v, USet) else None
                else:
                    us = v.of if (kind == "count" and isinstance(v, Card)) else v if (kind == "set" and isinstance(v, USet)) else None
                n += 1
                if us is None:
                    ctx.undecided("R09.6", f, out.node, construct, f"result outside the modelled label-set expressions: {v!r}"[:160])
                    continue
                ok_ = us.exact(dtmax, DTMIN[dt], slabs_)
                ctx.decide("R09.6", f, out.node, construct, "the helper yields exactly the non-zero values present in the array" + (" (their number)" if kind == "count" else ""), ok_, {"got": repr(us), "dtype_max": dtmax, "dtype_min": DTMIN[dt]})
    if n < 10:
        ctx.undecided("R09.6.floor", None, None, "floor:R09.6", f"{n} enumeration paths evaluated, confirmed floor is 10")


def verified_enumerators(prog) -> dict:
    """{function qual: 'set' | 'count'} for the functions (other than the two anchors) that feed the pair
    constructors and are PROVED here, for every dtype and on every path, to yield exactly the non-zero values
    present in their array argument (or their number).  Other abstract interpretations may then read a call
    of such a function as a call of the anchor they model (summary by verification)."""
    out = {}
    anchors = {prog.func("utils.numpy_utils:_unique_without_zeros").qual, prog.func("utils.numpy_utils:_count_unique_without_zeros").qual}
    for g, _kind in _enumerators_of_pair_constructors(prog):
        if g.qual in anchors or g.qual in out:
            continue
        p0 = g.call_params[0].name
        kinds = set()
        ok = True
        for dt, (sym, dtmax) in DTYPES.items():
            holder = []

            def mk(prefix, dt=dt):
                it_ = EnumInterp(prog, g, {p0: Arr(dt)}, prefix=prefix)
                holder.append(it_)
                return it_

            try:
                outs = enumerate_paths(mk, max_paths=512)
            except Exception:
                ok = False
                break
            for o, it_ in zip(outs, holder):
                v = o.value if o.kind == "return" else None
                us = v.of if isinstance(v, Card) else v if isinstance(v, USet) else None
                if us is None or not us.exact(dtmax, DTMIN[dt], it_.root.__dict__.get("slabs")):
                    ok = False
                    break
                kinds.add("count" if isinstance(v, Card) else "set")
            if not ok:
                break
        if ok and len(kinds) == 1:
            out[g.qual] = kinds.pop()
    return out
