"""C18 - what the aggregator writes is what the statistics loader reads."""

from __future__ import annotations

import ast
import math

from ..absval import Obj, Sym, Unknown
from ..model import AnchorMissing, Undecided, norm, walk_no_nested
from ..report import Ctx
from ..variants import Variant
from .aggrun import GROUPS, KEYS, AggInterp, agg_class, call, evaluate_subject, header_row, new_session, no_inline_set
from .common import metric_registry
from .fsrun import FS, FileH, FSInterp, PathV

INFO = {
    "explanation": "(R18.6) the aggregator passes the subject's prediction and reference to the evaluator uncrossed; Writer and reader are interpreted over the same abstract file: an aggregator session (groups 'g1' and 'left-lung', three metrics, optional computation time) writes subjects whose cells are distinct finite floats (incl. exponent notation and integers), NaN, +inf, -inf, None and uncomputable (missing) metrics; Panoptica_Statistic.from_file is then interpreted on the resulting rows. (R18.1/R18.2) subjects, group names (with '-') and metric names are recovered and every (subject, group, metric) cell comes back under its own key - no column shift when a metric is missing; (R18.4) finite values come back as the float written, NaN / +inf / -inf / empty come back as missing; (R18.3) every csv reader/writer site and the open() feeding it agree on delimiter, line terminator, newline and encoding, and the output file is only read through csv.reader; (R18.5) the metric vocabulary (registry names, global_bin_<metric>, computation_time) does not contain the group/metric separator. Further delegated: R17.2 (rows are positional: only the identical header is continued), R15.7. Round 6: R15.6-through-callees delegated (the group/metric lists that fix the row layout are not handed to functions that modify them). Round 8: (R18.7) a constructor option of the aggregator that takes a list of names and defaults to None is run with selections of the session's result keys in another order than the evaluator's; whatever the option does to the set of columns, every column the loader hands back must hold the values written under its own (group, metric). Round 9: (R18.4, foreign spellings) cells that float() reads as NaN or infinite in spellings the aggregator does not write (NaN, Infinity, INF, +inf, 1e999, ' nan') come back as missing; the round trip has a subject whose name starts with a blank; dialect objects are expanded.",
    "trusted_base": ["csv module writes and reads back every cell (quoting) with identical dialect options", "repr(float) round-trips through float()"],
    "assumptions": ["group names are arbitrary printable text; metric names come from the library's registry"],
    "not_decided": ["bit-identity of repr/float (language guarantee, assumed)"],
    "technique": "static analysis: writer/reader agreement by abstract interpretation of both sides over one abstract file (row/cell model) + dialect-option lint of all csv/open sites",
}

SPECIAL = {
    ("s2", "g1", "sq"): float("nan"),
    ("s2", "left-lung", "sq"): float("inf"),
    ("s2", "left-lung", "tp"): float("-inf"),
    ("s2", "g1", "global_bin_dsc"): None,
    ("s3", "g1", "sq"): "MISSING",
    ("s3", "left-lung", "global_bin_dsc"): 7.5e-05,
    ("s3", "left-lung", "tp"): 3,
    ("s3", "g1", "tp"): 1e16,
    ("s3", "g1", "global_bin_dsc"): -0.25,
}
SUBJECTS = ["s1", "s2", "s3", 'sub-004 "T1 post" x', " s5 leading blank"]


def value_of(si, s, g, k):
    if (s, g, k) in SPECIAL:
        return SPECIAL[(s, g, k)]
    return 1000.0 * (si + 1) + 100.0 * (GROUPS.index(g) + 1) + KEYS.index(k) + 0.5


def expected(v):
    if v == "MISSING" or v is None:
        return None
    if isinstance(v, float) and not math.isfinite(v):
        return None
    return float(v)


class StatInterp(FSInterp):
    def iterate(self, it, node):
        if isinstance(it, FileH):
            self.root.__dict__.setdefault("raw_reads", []).append((it.path, node))
            return []
        return super().iterate(it, node)


def write_file(ctx: Ctx, log_times=False, extra_args=None):
    prog = ctx.prog
    values = {(s, g, k): value_of(i, s, g, k) for i, s in enumerate(SUBJECTS) for g in GROUPS for k in KEYS}
    if log_times:
        for s in SUBJECTS:
            for g in GROUPS:
                values[("time", s, g)] = 12.5
    fs = FS()
    agg, out, it = new_session(prog, fs, "/d/out.tsv", log_times=log_times, values=values, extra_args=extra_args)
    if agg is None:
        raise Undecided(f"aggregator constructor not evaluable: {out.kind} {out.exc}")
    its = [it]
    for s in SUBJECTS:
        o, i2 = evaluate_subject(prog, agg, fs, s, lock_objs=it.root.lock_objs, values=values)
        its.append(i2)
        if o.kind == "raise" or o.decisions:
            raise Undecided(f"aggregator evaluate not evaluable for {s!r}: {o.kind} {o.exc}")
    return fs, values, its, agg


def read_file(ctx: Ctx, fs: FS):
    prog = ctx.prog
    cls = prog.cls("panoptica_statistics:Panoptica_Statistic")
    f = cls.lookup("from_file")
    if f is None:
        raise AnchorMissing("Panoptica_Statistic.from_file")
    p = next((x.name for x in f.call_params), None)
    it = StatInterp(prog, f, {p: "/d/out.tsv"}, self_obj=cls, fs=fs)
    out = it.run()
    return f, out, it


FOREIGN_NONFINITE = ["NaN", "NAN", "Infinity", "-Infinity", "INF", "+inf", "1e999", "-1e999", " nan"]


def check_foreign_spellings(ctx: Ctx):
    """R18.4 (tables not written by the aggregator): a cell that float() turns into NaN or an infinity comes back as
    missing however it is spelled (NaN, Infinity, INF, +inf, 1e999 ...); finite cells next to it come back as numbers."""
    from .aggrun import header_row

    fs = FS()
    hdr = header_row()
    width = len(hdr)
    rows = [hdr]
    for i, sp in enumerate(FOREIGN_NONFINITE):
        rows.append([f"f{i}", sp] + ["1.5"] * (width - 2))
    fs.files["/d/out.tsv"] = rows
    f, out, it = read_file(ctx, fs)
    construct = "foreign-spellings"
    if out.kind != "return" or out.decisions or not isinstance(out.value, Obj):
        ctx.decide("R18.4", f, out.node, construct, "the loader reads a table with non-finite cells in other spellings", False if (out.kind == "raise" and not out.decisions) else None, {"outcome": out.kind, "exc": out.exc, "decisions": [norm(d[0]) for d in out.decisions if isinstance(d[0], ast.AST)][:3]})
        return
    vd = out.value.attrs.get("_Panoptica_Statistic__value_dict")
    g0, k0 = GROUPS[0], KEYS[0]
    col = vd.get(g0, {}).get(k0) if isinstance(vd, dict) and isinstance(vd.get(g0), dict) else None
    if not isinstance(col, list) or len(col) != len(FOREIGN_NONFINITE):
        ctx.undecided("R18.4", f, f.node, construct, f"loader state not readable: {col!r}"[:160])
        return
    wrong = {sp: repr(v) for sp, v in zip(FOREIGN_NONFINITE, col) if v is not None}
    ctx.decide("R18.4", f, f.node, construct, "every cell that float() reads as NaN or infinite is reported as missing, whatever its spelling", not wrong, {"kept_as_values": wrong} if wrong else None)
    other = vd.get(g0, {}).get(KEYS[1]) if len(KEYS) > 1 else None
    if isinstance(other, list):
        ctx.decide("R18.4", f, f.node, construct + ":finite-neighbours", "the finite cells of those rows come back as numbers", all(v == 1.5 for v in other), {"got": repr(other)[:120]}, nontrivial=False)


def check_roundtrip(ctx: Ctx):
    for log_times in (False, True):
        fs, values, wits, agg = write_file(ctx, log_times)
        rows = fs.files.get("/d/out.tsv")
        base = f"roundtrip:log_times={log_times}"
        wf = ctx.prog.method(agg_class(ctx.prog), "_save_one_subject")
        width = 1 + len(GROUPS) * (len(KEYS) + (1 if log_times else 0))
        ctx.decide("R18.1", wf, wf.node, base + ":row-width", "header and every row have one cell per (group, metric) plus the subject", rows is not None and all(len(r) == width for r in rows), {"widths": sorted({len(r) for r in rows or []}), "want": width})
        try:
            f, out, it = read_file(ctx, fs)
        except Undecided as e:
            f = ctx.prog.cls("panoptica_statistics:Panoptica_Statistic").lookup("from_file")
            ctx.undecided("R18.2", f, f.node, base, f"loader not evaluable: {e}")
            continue
        raw = it.root.__dict__.get("raw_reads")
        if raw:
            ctx.violated("R18.3", f, raw[0][1], base + ":raw-read", "the loader parses the csv-written output file by hand instead of with csv.reader: quoted cells (names containing quotes, tabs or newlines) are not recovered", {"path": raw[0][0]})
            continue
        if out.kind != "return" or out.decisions or not isinstance(out.value, Obj):
            ctx.decide("R18.2", f, out.node, base, "the loader reads the file the aggregator wrote", False if (out.kind == "raise" and not out.decisions) else None, {"outcome": out.kind, "exc": out.exc, "decisions": [norm(d[0]) for d in out.decisions if isinstance(d[0], ast.AST)][:3]})
            continue
        st = out.value
        vd = st.attrs.get("_Panoptica_Statistic__value_dict")
        sn = st.attrs.get("_Panoptica_Statistic__subj_names")
        ctx.decide("R18.2", f, f.node, base + ":subjects", "subject names are recovered in order", sn == SUBJECTS, {"got": sn})
        ctx.decide("R18.2", f, f.node, base + ":groups", "group names (also with '-') are recovered", isinstance(vd, dict) and sorted(vd) == sorted(GROUPS), {"got": sorted(map(str, vd)) if isinstance(vd, dict) else repr(vd)})
        if not isinstance(vd, dict):
            continue
        keys = list(KEYS) + (["computation_time"] if log_times else [])
        for g in GROUPS:
            got_m = list(vd.get(g, {}).keys()) if isinstance(vd.get(g), dict) else None
            ctx.decide("R18.2", f, f.node, base + f":metrics:{g}", "metric names are recovered", got_m is not None and sorted(got_m) == sorted(keys), {"got": got_m})
            for k in KEYS:
                col = vd.get(g, {}).get(k) if isinstance(vd.get(g), dict) else None
                want = [expected(values[(s, g, k)]) for s in SUBJECTS]
                ok = isinstance(col, list) and len(col) == len(want) and all((a is None and b is None) or (a is not None and b is not None and a == b) for a, b in zip(col, want))
                special = any((s, g, k) in SPECIAL for s in SUBJECTS)
                ctx.decide("R18.4" if special else "R18.2", f, f.node, base + f":cell:{g}/{k}", "every subject's value comes back under its own (group, metric): finite as written, NaN/inf/-inf/None/uncomputable as missing", ok, {"got": repr(col), "want": repr(want)})


def check_key_selections(ctx: Ctx):
    """R18.7: a constructor option that takes a list of names (a selection of the result keys) is run with a
    selection in an order other than the evaluator's.  Whatever the option does to the set of columns, every
    cell the loader hands back under one of the session's (group, metric) keys must be the value written for it."""
    from .aggrun import key_selection_options

    prog = ctx.prog
    init = agg_class(prog).lookup("__init__")
    opts = key_selection_options(prog)
    if not opts:
        ctx.ok("R18.7", init, init.node, "key-selections:none", "the aggregator has no option that selects result keys", None, nontrivial=False)
        return
    for opt in opts:
        for sel in ([KEYS[2], KEYS[0]], [KEYS[1], KEYS[2], KEYS[0]]):
            construct = f"selection:{opt}={sel}"
            try:
                fs, values, wits, agg = write_file(ctx, False, extra_args={opt: list(sel)})
                f, out, it = read_file(ctx, fs)
            except Undecided as e:
                ctx.ok("R18.7", init, init.node, construct, "the option does not accept a selection of result keys (session not evaluable): not run", {"why": str(e)[:200]}, nontrivial=False)
                continue
            if out.kind != "return" or out.decisions or not isinstance(out.value, Obj):
                ctx.decide("R18.7", f, out.node, construct, "the loader reads the file the aggregator wrote with this option", False if (out.kind == "raise" and not out.decisions) else None, {"outcome": out.kind, "exc": out.exc})
                continue
            vd = out.value.attrs.get("_Panoptica_Statistic__value_dict")
            if not isinstance(vd, dict):
                ctx.undecided("R18.7", f, f.node, construct, "loader state not readable")
                continue
            wrong = {}
            n = 0
            for g in GROUPS:
                cols = vd.get(g)
                if not isinstance(cols, dict):
                    continue
                for k, col in cols.items():
                    if k not in KEYS:
                        continue
                    n += 1
                    want = [expected(values[(s, g, k)]) for s in SUBJECTS]
                    if not (isinstance(col, list) and len(col) == len(want) and all((a is None and b is None) or (a is not None and b is not None and a == b) for a, b in zip(col, want))):
                        wrong[f"{g}/{k}"] = {"got": repr(col)[:120], "written": repr(want)[:120]}
            ctx.decide("R18.7", f, f.node, construct, f"every column the loader returns ({n}) holds the values written under its own (group, metric)", not wrong, wrong or None)


def check_dialect(ctx: Ctx):
    """R18.3: all csv sites and the open() calls feeding them agree."""
    fs, values, wits, agg = write_file(ctx, False)
    sites = []
    opens = []
    phase_kinds = {"aggregator": set(), "loader": set()}
    for it in wits:
        sites += it.root.csv_sites
        opens += it.root.open_sites
        phase_kinds["aggregator"] |= {s[0] for s in it.root.csv_sites}
    try:
        f, out, it = read_file(ctx, fs)
        sites += it.root.csv_sites
        opens += it.root.open_sites
        phase_kinds["loader"] |= {s[0] for s in it.root.csv_sites}
    except Undecided:
        pass
    # make_statistic goes through from_file as well; header reader in the constructor on an existing file
    fs2 = FS(fs.snapshot())
    a2, o2, i2 = new_session(ctx.prog, fs2, "/d/out.tsv")
    sites += i2.root.csv_sites
    opens += i2.root.open_sites
    phase_kinds["aggregator"] |= {s[0] for s in i2.root.csv_sites}
    dial = set()
    uniq = {}
    for kind, opts, node, qual, h in sites:
        key = (qual, kind, getattr(node, "lineno", 0))
        uniq[key] = (opts, h.kwargs, node)
    for (qual, kind, ln), (opts, okw, node) in sorted(uniq.items()):
        d = (opts.get("delimiter", ","), opts.get("lineterminator", "\r\n"), opts.get("quoting", "default"), opts.get("quotechar", '"'), okw.get("newline", None), okw.get("encoding", None))
        dial.add(d)
    ctx.decide("R18.3", None, None, "csv:dialect-agreement", "all csv reader/writer sites and their open() calls use one delimiter, line terminator, quoting, newline and encoding", len(dial) == 1, {"dialects": [repr(x) for x in sorted(dial, key=repr)], "sites": [f"{q}:{k}" for (q, k, _) in sorted(uniq)]})
    # the comparison is vacuous unless it saw the row writer, the aggregator's own reader
    # (continuation) and the statistics loader's reader
    # (roles by the run in which a site was executed, not by the module that contains it)
    have_writer = "writer" in phase_kinds["aggregator"]
    have_loader = "reader" in phase_kinds["loader"]
    have_agg_reader = "reader" in phase_kinds["aggregator"]
    if not (have_writer and have_loader and have_agg_reader):
        ctx.undecided("R18.3.floor", None, None, "floor:R18.3", f"csv sites observed: {sorted((q, k) for (q, k, _) in uniq)}; need the row writer, the aggregator's reader and the loader's reader")


def check_vocabulary(ctx: Ctx):
    """R18.5: no metric name contains the separator used between group and metric."""
    prog = ctx.prog
    # separator = what the header writer puts between group and metric
    hdr = header_row()
    sep = "-"
    names = set()
    f = prog.cls("panoptica_result:PanopticaResult").lookup("__init__")
    add_name = prog.method(prog.cls("panoptica_result:PanopticaResult"), "_add_metric")
    add_name = add_name.name if add_name is not None else "_add_metric"
    for c in prog.calls_in(f):
        if isinstance(c.func, ast.Attribute) and c.func.attr == add_name and c.args and isinstance(c.args[0], ast.Constant) and isinstance(c.args[0].value, str):
            names.add(c.args[0].value)
    for member, rec in metric_registry(prog).items():
        if rec["name"]:
            names.add("global_bin_" + rec["name"].lower())
    m = prog.module("panoptica_aggregator")
    v = m.assigns.get("COMPUTATION_TIME_KEY")
    if isinstance(v, ast.Constant):
        names.add(v.value)
    bad = sorted(n for n in names if sep in n)
    ctx.decide("R18.5", f, f.node, "metric-vocabulary", f"no metric name contains the group/metric separator '{sep}' (so the last separator of a header cell is the boundary)", not bad, {"offending": bad, "names": len(names)})
    if len(names) < 24:
        ctx.undecided("R18.5.floor", f, None, "floor:R18.5", f"{len(names)} metric names collected, confirmed floor is 24")


def check_subject_wiring(ctx: Ctx):
    """R18.6: the row recorded for a subject is the evaluator's result on *that subject's*
    prediction and reference, each passed in its own parameter."""
    prog = ctx.prog
    fs, values, its, agg = write_file(ctx, False)
    ev = prog.cls("panoptica_evaluator:Panoptica_Evaluator").lookup("evaluate")
    names = [p.name for p in ev.call_params]
    f = agg.cls.lookup("evaluate")
    n = 0
    for it in its:
        for held, args, kwargs, node, _ in it.root.eval_calls:
            n += 1
            bound = dict(zip(names, args))
            bound.update(kwargs)
            bad = {}
            for pn in names:
                lp = pn.lower()
                want = Sym("PRED_ARR") if lp.startswith("pred") else Sym("REF_ARR") if lp.startswith("ref") else None
                if want is not None and bound.get(pn) != want:
                    bad[pn] = repr(bound.get(pn))
            ctx.decide("R18.6", f, node, f"{f.qual}->evaluator.evaluate", "the aggregator evaluates the subject's prediction and reference, each in its own parameter", not bad, {"mismatched": bad})
    if n < 1:
        ctx.undecided("R18.6.floor", f, f.node, "floor:R18.6", "no call of the evaluator observed in Panoptica_Aggregator.evaluate")


def _run_rule(ctx, name, fn):
    """a sub-rule that cannot be evaluated is recorded as undecided; the remaining rules still run"""
    try:
        return fn(ctx)
    except (Undecided, AnchorMissing) as e:
        ctx.undecided(name, None, None, f"{name}:analysis", f"{type(e).__name__}: {e}")
        return 0


def check(ctx: Ctx):
    _run_rule(ctx, "R18.7", check_key_selections)
    _run_rule(ctx, "check_roundtrip", check_roundtrip)
    _run_rule(ctx, "R18.4", check_foreign_spellings)
    _run_rule(ctx, "check_dialect", check_dialect)
    _run_rule(ctx, "check_vocabulary", check_vocabulary)
    try:
        check_subject_wiring(ctx)
    except (Undecided, AnchorMissing) as e:
        ctx.undecided("R18.6", None, None, "R18.6:check_subject_wiring", f"{type(e).__name__}: {e}")
    # the header is determined by the aggregator's own evaluator alone (no process-wide memo, R15.7)
    from . import c03, c15, c17

    # "columns never shifted": rows are positional, a file is continued only under the identical header
    c03._guarded(ctx, "R17.2", c17.check_header_rejection)

    c03._guarded(ctx, "R15.7", c15.check_globals)
    # the lists that fix the layout of rows and tables (group names, metric keys) are not handed to functions
    # that modify their list parameter in place (R15.6, through callees)
    c03._guarded(ctx, "R15.6", c15.check_state_through_callees)


_A = "panoptica/panoptica_aggregator.py"
_S = "panoptica/panoptica_statistics.py"

VARIANTS = [
    Variant("C18-m-subject-arrays-swapped", "R18.6", "mutant", [(_A, "        res = self.__panoptica_evaluator.evaluate(\n            prediction_arr,\n            reference_arr,", "        res = self.__panoptica_evaluator.evaluate(\n            reference_arr,\n            prediction_arr,")]),
    Variant("C18-m-d9", "R18.2", "mutant", [(_S, 'tuple(c.rsplit("-", 1))', 'tuple(c.split("-"))')], control=True, note="defect D9 of the original tree"),
    Variant("C18-m-split-first", "R18.2", "mutant", [(_S, 'tuple(c.rsplit("-", 1))', 'tuple(c.split("-", 1))')]),
    Variant("C18-m-drop-missing-cell", "R18.", "mutant", [(_A, "                for e in self.__evaluation_metrics:\n                    mvalue = result_dict[e] if e in result_dict else \"\"\n                    content.append(mvalue)", "                content += [result_dict[e] for e in self.__evaluation_metrics if e in result_dict]")], control=True),
    Variant("C18-m-missing-zero", "R18.4", "mutant", [(_A, "mvalue = result_dict[e] if e in result_dict else \"\"", "mvalue = result_dict[e] if e in result_dict else 0")]),
    Variant("C18-m-no-nan-test", "R18.4", "mutant", [(_S, "if value is not None and np.isfinite(value):", "if value is not None:")]),
    Variant("C18-m-header-loops-swapped", "R18.", "mutant", [(_A, "            for g in self.__class_group_names\n            for m in self.__evaluation_metrics\n", "            for m in self.__evaluation_metrics\n            for g in self.__class_group_names\n")]),
    Variant("C18-m-lineterminator", "R18.3", "mutant", [(_S, "rd = csv.reader(tsvfile, delimiter=\"\\t\", lineterminator=\"\\n\")", "rd = csv.reader(tsvfile, delimiter=\"\\t\", lineterminator=\"\\r\\n\")")]),
    Variant("C18-m-hand-parse", "R18.3", "mutant", [(_S, "            rd = csv.reader(tsvfile, delimiter=\"\\t\", lineterminator=\"\\n\")\n\n            rows = [row for row in rd]", "            rows = [line.rstrip(\"\\n\").split(\"\\t\") for line in tsvfile]")]),
    Variant("C18-m-separator-underscore", "R18.", "mutant", [(_A, "            f\"{g}-{m}\"", "            f\"{g}_{m}\""), (_S, 'tuple(c.rsplit("-", 1))', 'tuple(c.rsplit("_", 1))')]),
    Variant("C18-t-rpartition", "R18.2", "twin", [(_S, 'tuple(c.rsplit("-", 1))', '(c.rpartition("-")[0], c.rpartition("-")[2])')]),
    Variant("C18-t-get", "R18.1", "twin", [(_A, "mvalue = result_dict[e] if e in result_dict else \"\"", "mvalue = result_dict.get(e, \"\")")]),
]
