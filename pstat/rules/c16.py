"""C16 - concurrent aggregation records every subject exactly once, intact
(decided: the lock discipline that is sufficient for the behavioural statement)."""

from __future__ import annotations

import ast

from ..absval import Obj, Sym
from ..model import AnchorMissing, Undecided, dotted, norm, walk_no_nested
from ..report import Ctx
from ..variants import Variant
from .aggrun import GROUPS, KEYS, agg_class, agg_paths, call, evaluate_subject, header_row, new_session
from .fsrun import FS, LockV, PathV

INFO = {
    "explanation": "Rounds 4/5: (R16.6) every raw acquire() is directly followed by try/finally releasing the same lock(s) (or the lock is taken through `with`); (R16.8) histories of three worker copies of one aggregator. LOCKSET analysis on abstract runs of the concurrently callable methods (evaluate, _save_one_subject via evaluate, make_statistic) over the abstract file system: every file operation is logged with the locks held and the acquisition it belongs to. (R16.1) every access to the claim file holds inevalfilelock and every access to the output file holds filelock; (R16.2) the read of the claims, the duplicate test and the claim write belong to ONE acquisition of the claim lock, a duplicate name returns without evaluating or writing, and the evaluator runs only after the claim is written; (R16.3) one subject = one appended row, written under filelock in one acquisition; (R16.4) the lock-order graph over all runs is acyclic and (R16.5) no lock is re-acquired while held (the locks are not re-entrant); no lock is held while the evaluator runs; (R16.6) both locks are module-level multiprocessing.Lock objects created at import and the start method is set to fork on posix, locks are taken through `with` only (released on every exit); (R16.7) make_statistic reads the output file under filelock; (R16.8) three copies of one aggregator (forked: handles and offsets shared; pickled: handles dropped) evaluating n1, n2, n1 in turn record n1 once. Further delegated: R15.6/R05.5/R15.7 (objects shared by the threads of one aggregator keep no per-call state). Round 6: R17.8 (names are recognised when the claim and output files are read back, incl. embedded line breaks) and R15.6-through-callees are delegated here; D17 (lone carriage return in a subject name) is a known finding. Round 7: R16.6 also knows `ok = x.acquire(...)` and `if not x.acquire(...): raise` as acquisitions. Round 9: R15.6 covers the helper objects the aggregator keeps: a row buffer computed once and filled outside the lock is shared state.",
    "trusted_base": ["a multiprocessing.Lock created at import is shared by threads and by forked children", "a row appended and closed inside the lock is complete before the lock is released", "OS file append semantics"],
    "assumptions": ["workers are threads or forked processes of the process that imported the module"],
    "not_decided": ["exactly-once under real schedules is a consequence argued from the discipline, not observed", "spawn start method (Windows) - the module itself warns about it"],
    "technique": "static analysis: lockset / atomic-region analysis by abstract interpretation of the aggregator methods over an abstract file system",
}


def _paths(agg: Obj):
    return agg_paths(agg)


def check_locks(ctx: Ctx):
    prog = ctx.prog
    cls = agg_class(prog)
    ev = cls.lookup("evaluate")
    fs = FS()
    agg, out, it0 = new_session(prog, fs, "/d/out.tsv")
    if agg is None:
        raise Undecided(f"aggregator constructor not evaluable: {out.kind} {out.exc}")
    outp, bufp = _paths(agg)
    lo = it0.root.lock_objs
    # ---- evaluate (fresh subject)
    n0 = len(fs.log)
    o1, i1 = evaluate_subject(prog, agg, fs, "s1", lock_objs=lo)
    log1 = fs.log[n0:]
    base = f"{ev.qual}"
    if o1.kind == "raise" and o1.exc == "Deadlock":
        ctx.violated("R16.5", ev, o1.node, "aggregator:no-reacquire", f"lock '{o1.value}' is acquired while it is already held by the same caller: the call blocks forever (the locks are not re-entrant)", {"lock": o1.value})
        return
    if o1.kind == "raise" or o1.decisions:
        ctx.violated("R16.1", ev, o1.node, base, f"evaluate of a fresh subject does not complete: {o1.exc}")
        return
    lock_names = {l.name for l in lo.values() if isinstance(l, LockV)}
    buf_ops = [e for e in log1 if e[1] == bufp]
    out_ops = [e for e in log1 if e[1] == outp]
    for e in buf_ops:
        ctx.decide("R16.1", ev, ev.node, base + f":claim-file:{e[0]}", "access to the claim file holds the claim lock", "inevalfilelock" in e[2], {"op": e[0], "held": sorted(e[2])})
    for e in out_ops:
        ctx.decide("R16.1", ev, ev.node, base + f":output-file:{e[0]}", "access to the output file holds the output lock", "filelock" in e[2], {"op": e[0], "held": sorted(e[2])})
    if not buf_ops or not out_ops:
        ctx.undecided("R16.1", ev, ev.node, base, "no claim-file / output-file access observed in evaluate")
    # R16.2 atomic check-then-claim
    # looking at the claims: reading the rows, or establishing by the file's size that nothing was
    # appended since they were read last
    reads = [e for e in buf_ops if e[0] in ("read-rows", "raw-read", "stat")]
    writes = [e for e in buf_ops if e[0] == "append-row"]
    if reads and writes:
        rid = {x for x in reads[0][4] if x[0] == "inevalfilelock"}
        wid = {x for x in writes[0][4] if x[0] == "inevalfilelock"}
        ctx.decide("R16.2", ev, ev.node, base + ":atomic-claim", "claims are read and the new claim is written within one acquisition of the claim lock", bool(rid) and rid == wid, {"read_under": sorted(map(str, rid)), "write_under": sorted(map(str, wid))})
        idx = {id(e): i for i, e in enumerate(log1)}
        evs = [i for i, e in enumerate(log1) if e[0] == "evaluate"]
        wi = log1.index(writes[0])
        ctx.decide("R16.2", ev, ev.node, base + ":claim-before-evaluate", "the evaluator runs only after the claim is written", bool(evs) and all(i > wi for i in evs), None)
    else:
        ctx.violated("R16.2", ev, ev.node, base + ":atomic-claim", "evaluate does not read the claims and write its own claim", {"ops": [e[0] for e in buf_ops]})
    for held, args, kw, node, pos in i1.root.eval_calls:
        ctx.decide("R16.5", ev, node, base + ":evaluate-unlocked", "no lock is held while the evaluator runs (evaluations proceed in parallel, no call blocks on a running evaluation)", not held, {"held": sorted(held)})
    rows = [e for e in out_ops if e[0] == "append-row"]
    ctx.decide("R16.3", ev, ev.node, base + ":one-row", "one subject is recorded by exactly one appended row, written in one acquisition of the output lock", len(rows) == 1 and rows[0][3][0] == "s1", {"rows": len(rows)})
    # ---- evaluate (duplicate subject): no evaluation, no row, no second claim
    n1 = len(fs.log)
    o2, i2 = evaluate_subject(prog, agg, fs, "s1", lock_objs=lo)
    log2 = fs.log[n1:]
    ctx.decide("R16.2", ev, ev.node, base + ":duplicate", "a subject that is already claimed is neither evaluated nor written nor claimed again", o2.kind in ("return", "end") and not o2.decisions and not any(e[0] in ("append-row", "evaluate") for e in log2), {"ops": [e[0] for e in log2]})
    # ---- make_statistic
    ms = cls.lookup("make_statistic")
    if ms is not None:
        n2 = len(fs.log)
        o3, i3 = call(prog, agg, "make_statistic", {}, fs, lock_objs=lo)
        log3 = [e for e in fs.log[n2:] if e[1] == outp]
        ctx.decide("R16.7", ms, ms.node, f"{ms.qual}:locked-read", "statistics are read from the output file under the output lock (only complete rows are seen)", bool(log3) and all("filelock" in e[2] for e in log3), {"ops": [(e[0], sorted(e[2])) for e in log3]})
    # ---- lock order / re-entrancy over all runs
    edges = set()
    bad = []
    raw = []
    for itx in (it0, i1, i2) + ((i3,) if ms is not None else ()):
        for kind, name, held, node in itx.root.lock_events:
            if kind == "self-deadlock":
                bad.append(name)
            if kind.startswith("raw-"):
                raw.append((kind, name))
            for h in held:
                if kind in ("acquire", "raw-acquire"):
                    edges.add((h, name))
    cyc = [(a, b) for (a, b) in edges if (b, a) in edges]
    ctx.decide("R16.4", ev, ev.node, "aggregator:lock-order", "the lock-order graph is acyclic", not cyc, {"edges": sorted(edges)})
    ctx.decide("R16.5", ev, ev.node, "aggregator:no-reacquire", "no lock is acquired while it is already held (locks are not re-entrant)", not bad, {"locks": bad})
    # raw acquire()/release(): fine if every acquire is released on every exit of its function -
    # the acquire(s) are directly followed by a try whose finally releases what was acquired
    unprotected = _unprotected_acquires(prog) if raw else []
    ctx.decide("R16.6", ev, unprotected[0][1] if unprotected else ev.node, "aggregator:released-on-every-exit", "a lock is taken through `with`, or its acquire() is directly followed by try/finally that releases it: it is released on every exit, also when the protected code raises", not unprotected, {"acquire_without_finally": [f"{q}:{getattr(n, 'lineno', 0)} {norm(n)[:60]}" for q, n in unprotected]} if unprotected else None)
    late = []
    for itx in (it0, i1, i2):
        late += itx.root.late_locks
    # R16.6 the lock objects
    m = prog.module("panoptica_aggregator")
    for name in ("filelock", "inevalfilelock"):
        val = m.assigns.get(name)
        ext = prog.external_name(m, val.func) if isinstance(val, ast.Call) else None
        ok = ext == "multiprocessing.Lock"
        ctx.decide("R16.6", None, val, f"panoptica_aggregator:{name}", "the lock is a module-level multiprocessing.Lock created at import (shared by threads and forked workers)", True if ok else False, {"value": norm(val) if val is not None else None, "resolved": ext})
    ctx.decide("R16.6", None, None, "aggregator:no-late-locks", "no lock object is created on first use", not late, {"late": [n for n, _ in late]})
    # fork start method on posix
    ok_fork = False
    for st in ast.walk(m.tree):
        if isinstance(st, ast.If):
            t = st.test
            if isinstance(t, ast.Compare) and isinstance(t.comparators[0], ast.Constant) and t.comparators[0].value == "posix" and dotted(t.left) == "os.name":
                for c in ast.walk(ast.Module(body=st.body, type_ignores=[])):
                    if isinstance(c, ast.Call) and dotted(c.func) in ("set_start_method", "multiprocessing.set_start_method") and c.args and isinstance(c.args[0], ast.Constant) and c.args[0].value == "fork":
                        ok_fork = True
    ctx.decide("R16.6", None, None, "panoptica_aggregator:start-method", "the start method is set to fork on posix so module-level locks are inherited by workers", ok_fork, None, nontrivial=False)


def _run_rule(ctx, name, fn):
    """a sub-rule that cannot be evaluated is recorded as undecided; the remaining rules still run"""
    try:
        return fn(ctx)
    except (Undecided, AnchorMissing) as e:
        ctx.undecided(name, None, None, f"{name}:analysis", f"{type(e).__name__}: {e}")
        return 0


def _unprotected_acquires(prog) -> list:
    """(function qual, acquire call) for every  <x>.acquire()  in the aggregator module that is not
    released on every exit:  the statement(s) after it up to the next `try` are only further acquires,
    and that try's finally (or a loop in it) calls release() on the same object / on the elements of
    the same collection."""
    out = []
    m = prog.module("panoptica_aggregator")
    for f in [fn for fn in prog.functions.values() if fn.module is m]:
        def scan(block):
            for i, st in enumerate(block):
                acq = _acquire_of(st)
                if acq is not None:
                    what, call = acq
                    j = i + 1
                    # further acquires, and guards that give up when the lock was not obtained (`if not ok: raise`)
                    while j < len(block) and (_acquire_of(block[j]) is not None or (isinstance(block[j], ast.If) and not block[j].orelse and block[j].body and isinstance(block[j].body[-1], (ast.Raise, ast.Return)) and not any(isinstance(n, ast.Call) and isinstance(n.func, ast.Attribute) and n.func.attr in ("acquire", "release") for n in ast.walk(block[j])))):
                        j += 1
                    ok = False
                    if j < len(block) and isinstance(block[j], ast.Try) and block[j].finalbody:
                        rel = set()
                        for n in ast.walk(ast.Module(body=block[j].finalbody, type_ignores=[])):
                            if isinstance(n, ast.Call) and isinstance(n.func, ast.Attribute) and n.func.attr == "release":
                                rel.add(norm(n.func.value))
                            if isinstance(n, ast.For):
                                it_ = n.iter
                                while isinstance(it_, ast.Call) and it_.args:
                                    it_ = it_.args[0]  # reversed(x) / list(x)
                                if any(isinstance(c, ast.Call) and isinstance(c.func, ast.Attribute) and c.func.attr == "release" and isinstance(c.func.value, ast.Name) and isinstance(n.target, ast.Name) and c.func.value.id == n.target.id for c in ast.walk(n)):
                                    rel.add("each:" + norm(it_))
                        ok = what in rel
                    if not ok:
                        out.append((f.qual, call))
                    continue
                for fld in ("body", "orelse", "finalbody"):
                    sub = getattr(st, fld, None)
                    if isinstance(sub, list) and sub and isinstance(sub[0], ast.stmt):
                        scan(sub)
                for h in getattr(st, "handlers", []) or []:
                    scan(h.body)

        scan(f.node.body)
    return out


def _acquire_of(st):
    """('<expr>' | 'each:<collection>', call) if the statement is  x.acquire()  or  for l in C: l.acquire()"""
    if isinstance(st, ast.Expr) and isinstance(st.value, ast.Call) and isinstance(st.value.func, ast.Attribute) and st.value.func.attr == "acquire":
        return norm(st.value.func.value), st.value
    def acq_call(e):
        return next((c for c in ast.walk(e) if isinstance(c, ast.Call) and isinstance(c.func, ast.Attribute) and c.func.attr == "acquire"), None)

    # ok = x.acquire(timeout=...)   /   if not x.acquire(timeout=...): raise ...   (what follows runs with the lock held)
    if isinstance(st, (ast.Assign, ast.AnnAssign)) and st.value is not None and isinstance(st.value, ast.Call) and acq_call(st.value) is st.value:
        return norm(st.value.func.value), st.value
    if isinstance(st, ast.If) and not st.orelse and st.body and isinstance(st.body[-1], (ast.Raise, ast.Return)) and acq_call(st.test) is not None:
        c = acq_call(st.test)
        return norm(c.func.value), c
    if isinstance(st, ast.For) and isinstance(st.target, ast.Name) and len(st.body) == 1:
        inner = _acquire_of(st.body[0])
        if inner is not None and inner[0] == st.target.id:
            it_ = st.iter
            while isinstance(it_, ast.Call) and it_.args:
                it_ = it_.args[0]
            return "each:" + norm(it_), inner[1]
    return None


def check_worker_copies(ctx: Ctx):
    """R16.8: copies of one aggregator - the children of a fork (object state copied, open file handles
    and their kernel offsets shared) or unpickled copies - that evaluate one after the other see each
    other's claims.  Whatever the aggregator remembers between calls (a parsed prefix of the claim file,
    a file position) is private to a copy, while the files and an inherited handle's offset are shared.
    History: copy A evaluates n1, copy B evaluates n2, copy C evaluates n1 again -> C must be refused."""
    import copy as _copy

    from .fsrun import FileH

    prog = ctx.prog
    cls = agg_class(prog)
    ev = cls.lookup("evaluate")
    for how in ("fork", "pickle"):
        fs = FS()
        agg, out, it0 = new_session(prog, fs, "/d/out.tsv")
        if agg is None:
            raise Undecided(f"aggregator constructor not evaluable: {out.kind} {out.exc}")
        outp, bufp = _paths(agg)

        def clone(o):
            attrs = {}
            for k, v in o.attrs.items():
                if isinstance(v, FileH):
                    attrs[k] = v if how == "fork" else None  # fork: same open file description; pickle: not carried over
                elif isinstance(v, (list, dict, set)):
                    attrs[k] = _copy.copy(v)
                else:
                    attrs[k] = v
            return Obj(o.cls, attrs)

        if how == "pickle":
            gs = cls.lookup("__getstate__")
            has_handle = any(isinstance(v, FileH) for v in agg.attrs.values())
            if has_handle and gs is None:
                ctx.violated("R16.8", ev, ev.node, "worker-copies:pickle", "an aggregator holding an open file cannot be sent to pool workers (pickling fails)", {"attributes": [k for k, v in agg.attrs.items() if isinstance(v, FileH)]})
                continue
        copies = [clone(agg) for _ in range(3)]
        rows = []
        okrun = True
        for c, name in zip(copies, ("n1", "n2", "n1")):
            o, _ = evaluate_subject(prog, c, fs, name, lock_objs=it0.root.lock_objs)
            if o.decisions or (o.kind == "raise" and o.exc not in (None, "ValueError")):
                ctx.undecided("R16.8", ev, o.node, f"worker-copies:{how}", f"history not evaluable: {o.kind} {o.exc}")
                okrun = False
                break
            rows.append([r[0] for r in fs.files.get(outp, [])[1:]])
        if not okrun:
            continue
        final = rows[-1]
        ctx.decide("R16.8", ev, ev.node, f"worker-copies:{how}", "copies of one aggregator evaluating n1, n2, n1 one after the other record n1 once (a copy's private memory of the claim file is brought up to date from the shared file)", sorted(final) == ["n1", "n2"], {"rows_after_each_call": rows})
        # the statistic a copy hands out covers the rows other copies have written since it last looked
        ms = cls.lookup("make_statistic")
        if ms is not None:
            def subjects(copy_):
                o_, _ = call(prog, copy_, "make_statistic", {}, fs, lock_objs=it0.root.lock_objs)
                if o_.kind != "return" or not isinstance(o_.value, Obj):
                    return None  # (splits on the symbolic cell values do not concern which rows are read)
                for k, v in o_.value.attrs.items():
                    if "subj" in k and isinstance(v, list):
                        return list(v)
                return None

            s1 = subjects(copies[0])
            o3, _ = evaluate_subject(prog, copies[1], fs, "n3", lock_objs=it0.root.lock_objs)
            s2 = subjects(copies[0])
            if s1 is None or s2 is None or o3.decisions:
                ctx.undecided("R16.8", ms, ms.node, f"worker-copies:{how}:statistic", "make_statistic of a copy not evaluable")
            else:
                ctx.decide("R16.8", ms, ms.node, f"worker-copies:{how}:statistic", "a statistic made after another copy has written a row contains that row (nothing parsed earlier is handed out again)", "n3" in s2 and "n3" not in s1, {"subjects_before": s1, "subjects_after": s2})


def check(ctx: Ctx):
    try:
        check_worker_copies(ctx)
    except (Undecided, AnchorMissing) as e:
        ctx.undecided("R16.8", None, None, "R16.8:check_worker_copies", f"{type(e).__name__}: {e}")
    _run_rule(ctx, "check_locks", check_locks)
    # "rows carry the values a sequential run would produce": the objects shared by the threads of
    # one aggregator (evaluator, approximator, matcher) keep no per-call state (R15.6, R05.5, R15.7)
    from . import c03, c05, c15

    c03._guarded(ctx, "R15.6", c15.check_state_writers)
    c03._guarded(ctx, "R05.5", c05.check_stateless)
    c03._guarded(ctx, "R15.7", c15.check_globals)
    # the lists that fix the layout of rows and tables (group names, metric keys) are not handed to functions
    # that modify their list parameter in place (R15.6, through callees)
    c03._guarded(ctx, "R15.6", c15.check_state_through_callees)
    # "exactly one row for every distinct subject name, also when it is submitted more than once": a name that
    # was claimed or finished must be recognised when the files are read back, whatever characters it has (R17.8)
    from . import c17

    c03._guarded(ctx, "R17.8", c17.check_no_hand_parsing)


_A = "panoptica/panoptica_aggregator.py"

VARIANTS = [
    Variant("C16-m-no-claim-lock", "R16.1", "mutant", [(_A, "        with inevalfilelock:\n            id_list = _load_first_column_entries(self.__output_buffer_file)\n\n            if subject_name in id_list:\n                print(\n                    f\"Subject '{subject_name}' evaluated or in process {self.__output_file}, do not add duplicates to your evaluation!\",\n                    flush=True,\n                )\n                return\n            _write_content(self.__output_buffer_file, [[subject_name]])", "        if True:\n            id_list = _load_first_column_entries(self.__output_buffer_file)\n\n            if subject_name in id_list:\n                print(\n                    f\"Subject '{subject_name}' evaluated or in process {self.__output_file}, do not add duplicates to your evaluation!\",\n                    flush=True,\n                )\n                return\n            _write_content(self.__output_buffer_file, [[subject_name]])")], control=True),
    Variant("C16-m-check-outside", "R16.", "mutant", [(_A, "        with inevalfilelock:\n            id_list = _load_first_column_entries(self.__output_buffer_file)\n\n            if subject_name in id_list:", "        id_list = _load_first_column_entries(self.__output_buffer_file)\n        with inevalfilelock:\n\n            if subject_name in id_list:")]),
    Variant("C16-m-two-acquisitions", "R16.2", "mutant", [(_A, "                return\n            _write_content(self.__output_buffer_file, [[subject_name]])", "                return\n        with inevalfilelock:\n            _write_content(self.__output_buffer_file, [[subject_name]])")], control=True),
    Variant("C16-m-row-unlocked", "R16.1", "mutant", [(_A, "            _write_content(self.__output_file, [content])\n            print(f\"Saved entry", "            pass\n        _write_content(self.__output_file, [content])\n        if True:\n            print(f\"Saved entry")]),
    Variant("C16-m-stat-unlocked", "R16.7", "mutant", [(_A, "        with filelock:\n            obj = Panoptica_Statistic.from_file(self.__output_file)", "        if True:\n            obj = Panoptica_Statistic.from_file(self.__output_file)")]),
    Variant("C16-m-eval-under-lock", "R16.5", "mutant", [(_A, "            _write_content(self.__output_buffer_file, [[subject_name]])\n\n        # Run Evaluation (allowed in parallel)\n        print(f\"Call evaluate on {subject_name}\")\n        res = self.__panoptica_evaluator.evaluate(\n            prediction_arr,\n            reference_arr,\n            result_all=True,\n            verbose=False,\n            log_times=False,\n        )", "            _write_content(self.__output_buffer_file, [[subject_name]])\n\n            # Run Evaluation (allowed in parallel)\n            print(f\"Call evaluate on {subject_name}\")\n            res = self.__panoptica_evaluator.evaluate(\n                prediction_arr,\n                reference_arr,\n                result_all=True,\n                verbose=False,\n                log_times=False,\n            )")]),
    Variant("C16-m-reacquire", "R16.5", "mutant", [(_A, "        with filelock:\n            #\n            content = [subject_name]", "        with filelock:\n            self.make_statistic()\n            content = [subject_name]")]),
    Variant("C16-m-threading-lock", "R16.6", "mutant", [(_A, "\nfilelock = Lock()\n", "\nimport threading\nfilelock = threading.Lock()\n")]),
    Variant("C16-m-lock-in-init", "R16.", "mutant", [(_A, "        self.__panoptica_evaluator = panoptica_evaluator\n", "        global filelock\n        filelock = Lock()\n        self.__panoptica_evaluator = panoptica_evaluator\n")], kind="mutant") if False else Variant("C16-m-claim-after-eval", "R16.2", "mutant", [(_A, "            _write_content(self.__output_buffer_file, [[subject_name]])\n\n        # Run Evaluation", "            pass\n\n        # Run Evaluation"), (_A, "        # Add to file\n        self._save_one_subject(subject_name, res)", "        # Add to file\n        self._save_one_subject(subject_name, res)\n        with inevalfilelock:\n            _write_content(self.__output_buffer_file, [[subject_name]])")]),
    Variant("C16-t-helper-under-lock", "R16.1", "twin", [(_A, "        with inevalfilelock:\n            id_list = _load_first_column_entries(self.__output_buffer_file)\n\n            if subject_name in id_list:", "        with inevalfilelock:\n            id_list = self._claimed()\n\n            if subject_name in id_list:"), (_A, "    def _save_one_subject(self, subject_name, result_grouped):", "    def _claimed(self):\n        return _load_first_column_entries(self.__output_buffer_file)\n\n    def _save_one_subject(self, subject_name, result_grouped):")]),
    Variant("C16-t-nested-with-one-stmt", "R16.", "twin", [(_A, "            with inevalfilelock:\n                with filelock:\n                    id_list = _load_first_column_entries(\n                        self.__output_file, skip_header=True\n                    )\n                    _write_content(self.__output_buffer_file, [[s] for s in id_list])", "            with inevalfilelock, filelock:\n                id_list = _load_first_column_entries(\n                    self.__output_file, skip_header=True\n                )\n                _write_content(self.__output_buffer_file, [[s] for s in id_list])")]),
]
