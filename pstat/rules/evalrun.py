"""Abstract end-to-end runs of Panoptica_Evaluator.evaluate / _evaluate_group and of
panoptic_evaluate: configuration plumbing, per-group restriction, stage order.

All objects (evaluator, class groups, label groups, processing pairs) are built by abstractly
running their real constructors on symbolic arguments."""

from __future__ import annotations

import ast
from typing import Any, Optional

from ..absval import BoundMethod, EnumSym, Interp, Obj, Outcome, Sym, Unknown, enumerate_paths
from ..model import AnchorMissing, Class, Func, Program, Undecided, norm
from .arrdom import AArr, AMask, ArrInterp
from .resultrun import ResultInterp, Tagged

CFG = ["instance_approximator", "instance_matcher", "edge_case_handler", "instance_metrics", "global_metrics", "decision_metric", "decision_threshold"]
ARRAY_LABELS = {"PRED": [1, 2, 3, 5], "REF": [1, 3, 4, 5]}


def _unbundle(prog, callee, kw: dict) -> dict:
    """A call that hands the callee one object bundling several of its parameters is read as the call with those
    parameters: the mapping field -> parameter is taken from the callee's own code, which builds the same bundle from
    the individual parameters when the bundle is not given (`if bundle is None: bundle = Bundle(field=param, ...)`)."""
    for pname, val in list(kw.items()):
        if not (isinstance(val, Obj) and pname in {p.name for p in callee.call_params}):
            continue
        mapping = None
        for st in ast.walk(callee.node):
            if isinstance(st, ast.If) and isinstance(st.test, ast.Compare) and isinstance(st.test.left, ast.Name) and st.test.left.id == pname and len(st.test.ops) == 1 and isinstance(st.test.ops[0], ast.Is) and isinstance(st.test.comparators[0], ast.Constant) and st.test.comparators[0].value is None:
                for a in st.body:
                    if isinstance(a, ast.Assign) and len(a.targets) == 1 and isinstance(a.targets[0], ast.Name) and a.targets[0].id == pname and isinstance(a.value, ast.Call) and not a.value.args:
                        k_ = prog.resolve_class_expr(callee.module, a.value.func) if isinstance(a.value.func, (ast.Name, ast.Attribute)) else None
                        if k_ is val.cls and all(isinstance(x.value, ast.Name) for x in a.value.keywords if x.arg):
                            mapping = {x.arg: x.value.id for x in a.value.keywords if x.arg}
        if mapping is None:
            continue
        out = {k: v for k, v in kw.items() if k != pname}
        for field_, param_ in mapping.items():
            if field_ in val.attrs:
                out[param_] = val.attrs[field_]  # "if given, the individual keywords are not looked at"
        return out
    return kw


class LabelVec:
    """1-D array of the (concrete) label values of an abstract array, e.g. np.unique(arr)."""

    def __init__(self, items, side):
        self.items = list(items)
        self.side = side


class BoolVec:
    def __init__(self, items):
        self.items = list(items)


class _VM:
    def __init__(self, o, name):
        self.o = o
        self.name = name


class _Selected:
    """arr[mask-of-its-own-values]: the values that survive the selection."""

    def __init__(self, values, side):
        self.values = list(values)
        self.side = side


class EvalInterp(ArrInterp):
    """ArrInterp + hooks for the pipeline entry points."""

    def __init__(self, *a, labels=None, **kw):
        super().__init__(*a, **kw)
        r = self.root
        r.labels = labels or ARRAY_LABELS
        r.pipeline_calls = []  # kwargs of panoptic_evaluate calls
        r.stage_calls = []
        r.timers = 0

    def external_call(self, name, args, kwargs, node):
        r = self.root
        short = name.split(":")[-1]
        if self.prog.is_anchor(name, "utils.numpy_utils:_unique_without_zeros") and args and isinstance(args[0], AArr):
            return self.labels_of(args[0])
        if self.prog.is_anchor(name, "utils.numpy_utils:_count_unique_without_zeros") and args and isinstance(args[0], AArr):
            return len(self.labels_of(args[0]))
        if short == "_check_array_integrity":
            return None
        if name == "numpy.unique" and args and isinstance(args[0], AArr):
            return LabelVec([0] + self.labels_of(args[0]), args[0].side)
        if name == "numpy.unique" and args and isinstance(args[0], _Selected):
            return LabelVec(sorted(args[0].values), args[0].side)
        if name == "numpy.isin" and args and isinstance(args[0], LabelVec):
            from .arrdom import LabelKeys

            keys = args[1]
            if isinstance(keys, LabelKeys):
                if keys.casts:
                    r.__dict__.setdefault("narrowed_tests", []).append((node, keys))
                keys = keys.value
            if isinstance(keys, LabelVec):
                keys = keys.items
            if isinstance(keys, (list, tuple, set)):
                inv = bool(kwargs.get("invert", False))
                return BoolVec([(x in keys) != inv for x in args[0].items])
            return Unknown("isin of label vector")
        # function forms on the (concrete) label / truth vectors
        if name in ("numpy.asarray", "numpy.array", "numpy.atleast_1d", "numpy.sort") and len(args) == 1 and isinstance(args[0], (LabelVec, BoolVec)) and not (set(kwargs) - {"dtype"}) and kwargs.get("dtype") is None:
            return args[0]
        if name in ("numpy.any", "numpy.all", "numpy.sum", "numpy.count_nonzero") and len(args) == 1 and isinstance(args[0], BoolVec) and not kwargs:
            it_ = args[0].items
            return any(it_) if name.endswith("any") else all(it_) if name.endswith("all") else sum(bool(x) for x in it_)
        if name in ("numpy.argmax", "numpy.argmin") and len(args) == 1 and isinstance(args[0], BoolVec) and not kwargs and args[0].items:
            it_ = [bool(x) for x in args[0].items]
            return it_.index(max(it_)) if name.endswith("argmax") else it_.index(min(it_))
        if name in ("numpy.logical_not", "numpy.invert") and len(args) == 1 and isinstance(args[0], BoolVec) and not kwargs:
            return BoolVec([not x for x in args[0].items])
        if name in ("numpy.flatnonzero",) and len(args) == 1 and isinstance(args[0], BoolVec):
            return LabelVec([i for i, x in enumerate(args[0].items) if x], "idx")
        if name in ("numpy.setdiff1d",) and len(args) == 2 and isinstance(args[0], LabelVec):
            other = args[1].items if isinstance(args[1], LabelVec) else (args[1].value if hasattr(args[1], "value") else args[1])
            if isinstance(other, (list, tuple, set)):
                return LabelVec([x for x in args[0].items if x not in other], args[0].side)
        if short == "panoptic_evaluate":
            names = [p.name for p in self.prog.func("panoptica_evaluator:panoptic_evaluate").call_params]
            kw = dict(zip(names, args))
            kw.update(kwargs)
            kw = _unbundle(self.prog, self.prog.func("panoptica_evaluator:panoptic_evaluate"), kw)
            r.pipeline_calls.append((kw, node))
            k = len(r.pipeline_calls)
            return (Obj(self.prog.cls("panoptica_result:PanopticaResult"), {"_tag": f"RESULT_{k}", "computation_time": None}), Sym(f"STEPS_{k}"))
        if name in ("time.perf_counter", "time.time"):
            r.timers += 1
            return Sym(f"T{r.timers}")
        if name.endswith("Console") or name.startswith("rich."):
            return Sym("console")
        return super().external_call(name, args, kwargs, node)

    def isinstance_hook(self, v, klass, node):
        # the symbolic configuration values stand for objects of the documented kind: the metric
        # selections hold Metric members (not names), the threshold a number
        if isinstance(v, Sym) and v.name.startswith("CFG_") and "metric" in v.name:
            ks = klass if isinstance(klass, tuple) else (klass,)
            names = {getattr(k, "name", "") for k in ks}
            if any(n in ("Metric", "_Metric") or str(n).endswith(":Metric") for n in names):
                return True
            if all(str(n).startswith("builtin:") for n in names):
                return False
        return super().isinstance_hook(v, klass, node)

    def labels_of(self, a: AArr) -> list:
        base = list(self.root.labels.get(a.side.replace("CC_", ""), []))
        if a.selection is not None and isinstance(a.selection[1], (list, tuple)):
            base = [x for x in base if x in list(a.selection[1])]
        if a.content == "bin":
            return [1] if base else []
        return base

    def arr_method(self, a, name, args, kwargs, node):
        # the label sets of the inputs are known in this interpretation: value range of an array
        if isinstance(a, AArr) and name in ("max", "min") and not args and not kwargs and a.content in ("labels", "bin") and not a.casts:
            ls = self.labels_of(a)
            if all(isinstance(x, int) and not isinstance(x, bool) for x in ls):
                if name == "max":
                    return max(ls) if ls else 0
                return 0  # there is background in every input of the abstract run (labels are > 0)
        return super().arr_method(a, name, args, kwargs, node)

    def binop_hook(self, op, l, r, node):
        if isinstance(l, Sym) and isinstance(r, Sym) and l.name.startswith("T") and r.name.startswith("T"):
            return Sym(f"({l.name}-{r.name})")
        return super().binop_hook(op, l, r, node)

    def get_attr(self, base, attr, node):
        if isinstance(base, Sym) and base.name == "console":
            return Sym("console." + attr)
        if isinstance(base, LabelVec):
            if attr == "dtype":
                return Sym(f"dtypeof:{base.side}")
            if attr == "size":
                return len(base.items)
            if attr == "ndim":
                return 1
            return _VM(base, attr)
        if isinstance(base, BoolVec):
            return _VM(base, attr)
        return super().get_attr(base, attr, node)

    def apply(self, fv, args, kwargs, node):
        if isinstance(fv, Sym) and fv.name.startswith("console."):
            return None
        if isinstance(fv, _VM):
            o, name = fv.o, fv.name
            if isinstance(o, BoolVec):
                if name == "all":
                    return all(o.items)
                if name == "any":
                    return any(o.items)
                if name == "sum":
                    return sum(o.items)
            if isinstance(o, LabelVec):
                if name == "tolist":
                    return list(o.items)
                if name in ("copy", "astype"):
                    return o
            return Unknown(f"vector.{name}")
        return super().apply(fv, args, kwargs, node)

    def iterate(self, it, node):
        if isinstance(it, LabelVec):
            return list(it.items)
        return super().iterate(it, node)

    def compare_hook(self, op, l, r, node):
        if isinstance(l, LabelVec) and isinstance(r, int):
            import operator as _op

            f = {ast.Eq: _op.eq, ast.NotEq: _op.ne, ast.Gt: _op.gt, ast.GtE: _op.ge, ast.Lt: _op.lt, ast.LtE: _op.le}.get(type(op))
            if f:
                return BoolVec([f(x, r) for x in l.items])
        return super().compare_hook(op, l, r, node)

    def subscript_hook(self, base, idx, node):
        if isinstance(base, LabelVec) and isinstance(idx, BoolVec) and len(idx.items) == len(base.items):
            return LabelVec([x for x, k in zip(base.items, idx.items) if k], base.side)
        if isinstance(base, LabelVec) and isinstance(idx, int):
            return base.items[idx]
        from .arrdom import AMask, LabelKeys

        if isinstance(base, AArr) and isinstance(idx, AMask) and idx.of is base and idx.kind in ("isin", "notin", "nonzero", "zero", "eq"):
            # the voxels of the array selected by a mask of its own values: only the set of values
            # present matters to the callers (np.unique / membership tests)
            values = [0] + self.labels_of(base)
            keys = idx.detail
            if isinstance(keys, LabelKeys):
                if keys.casts:
                    self.root.__dict__.setdefault("narrowed_tests", []).append((node, keys))
                keys = keys.value
            if idx.kind in ("isin", "notin"):
                if not isinstance(keys, (list, tuple, set)):
                    return super().subscript_hook(base, idx, node)
                ks = set(keys)
                values = [v for v in values if (v in ks) == (idx.kind == "isin")]
            elif idx.kind == "nonzero":
                values = [v for v in values if v != 0]
            elif idx.kind == "zero":
                values = [v for v in values if v == 0]
            else:
                values = [v for v in values if v == keys]
            return _Selected(values, base.side)
        return super().subscript_hook(base, idx, node)

    def call_builtin(self, name, args, kwargs, node):
        if name == "len" and args and isinstance(args[0], LabelVec):
            return len(args[0].items)
        if name in ("list", "tuple", "set", "sorted") and args and isinstance(args[0], LabelVec):
            return super().call_builtin(name, [list(args[0].items)] + list(args[1:]), kwargs, node)
        return super().call_builtin(name, args, kwargs, node)

    def unary_hook(self, op, v, node):
        if isinstance(op, ast.Invert) and isinstance(v, BoolVec):
            return BoolVec([not x for x in v.items])
        return super().unary_hook(op, v, node)


def construct(prog: Program, cls: Class, kwargs: dict, interp_cls=EvalInterp, **ikw) -> Obj:
    init = cls.lookup("__init__")
    o = Obj(cls, {})
    if init is None:
        return o
    it = interp_cls(prog, init, dict(kwargs), self_obj=o, **ikw)
    it.root.no_inline = set()
    out = it.run()
    if out.kind == "raise" or out.decisions:
        raise Undecided(f"{init.qual} not evaluable on the analysis' arguments: {out.kind} {out.exc} {[norm(d[0]) for d in out.decisions if isinstance(d[0], ast.AST)][:3]}")
    return o


def build_groups(prog: Program, order=("plain", "merged", "single")) -> tuple[Obj, dict]:
    lg = prog.cls("utils.label_group:LabelGroup")
    lmg = prog.cls("utils.label_group:LabelMergeGroup")
    scg = prog.cls("utils.segmentation_class:SegmentationClassGroups")
    groups = {
        "plain": construct(prog, lg, {"value_labels": [1, 2], "single_instance": False}),
        "merged": construct(prog, lmg, {"value_labels": [3, 4], "single_instance": False}),
        "single": construct(prog, lg, {"value_labels": 5, "single_instance": True}),
    }
    groups = {k: groups[k] for k in order}
    o = construct(prog, scg, {"groups": dict(groups)})
    return o, groups


def build_evaluator(prog: Program, expected_input: str, groups: Optional[Obj], save_group_times=False) -> Obj:
    cls = prog.cls("panoptica_evaluator:Panoptica_Evaluator")
    it_cls = prog.cls("utils.processing_pair:InputType")
    init = cls.lookup("__init__")
    names = [p.name for p in init.call_params]
    for need in ["expected_input", "segmentation_class_groups"] + CFG:
        if need not in names:
            raise AnchorMissing(f"Panoptica_Evaluator.__init__ has no parameter {need}")
    member_cls = prog.resolve_class_expr(it_cls.module, it_cls.class_assigns()[expected_input])
    member = Obj(it_cls, {"value": member_cls, "_value_": member_cls, "name": expected_input, "_name_": expected_input})
    kw = {n: Sym("CFG_" + n) for n in CFG}
    kw["decision_threshold"] = Sym("CFG_decision_threshold")
    kw["instance_metrics"] = [Sym("CFG_instance_metrics[0]"), Sym("CFG_instance_metrics[1]")]
    kw["global_metrics"] = [Sym("CFG_global_metrics[0]")]
    kw.update({"expected_input": member, "segmentation_class_groups": groups, "save_group_times": save_group_times, "log_times": Sym("CFG_log_times"), "verbose": Sym("CFG_verbose")})
    cfg = dict(kw)
    ev = construct(prog, cls, kw)
    ev.attrs["_tag_cfg"] = cfg
    ev.attrs["_tag_cfg_lens"] = {k: len(v) for k, v in cfg.items() if isinstance(v, list)}
    return ev


def run_evaluate(prog: Program, ev: Obj, labels=None, call_kwargs=None):
    cls = ev.cls
    f = cls.lookup("evaluate")
    if f is None:
        raise AnchorMissing("Panoptica_Evaluator.evaluate")
    holder = []

    def make(prefix):
        pred, ref = AArr("PRED", False), AArr("REF", False)
        args = {"prediction_arr": pred, "reference_arr": ref}
        args.update(call_kwargs or {})
        it = EvalInterp(prog, f, args, self_obj=ev, labels=labels, prefix=prefix)
        it.root.no_inline = {prog.func("panoptica_evaluator:panoptic_evaluate").qual, prog.func("utils.numpy_utils:_unique_without_zeros").qual, prog.func("utils.numpy_utils:_count_unique_without_zeros").qual, prog.func("utils.processing_pair:_check_array_integrity").qual}
        holder.append((it, pred, ref))
        return it

    outs = enumerate_paths(make, max_paths=256)
    return f, list(zip(outs, holder))


# ----------------------------------------------------------------------------------------
# panoptic_evaluate
# ----------------------------------------------------------------------------------------


class PipelineInterp(EvalInterp):
    """panoptic_evaluate with the three stages and the result constructor as observation points."""

    def __init__(self, *a, **kw):
        super().__init__(*a, **kw)
        self.root.stages = []

    def _mkpair(self, cls_name: str, tag: str, n_pred=3, n_ref=4, matched=None) -> Obj:
        cls = self.prog.cls("utils.processing_pair:" + cls_name)
        pa, ra = AArr("PRED", True), AArr("REF", True)
        pa.stage, ra.stage = tag, tag
        attrs = {"_prediction_arr": pa, "_reference_arr": ra, "_pred_labels": (1, 2, 3), "_ref_labels": (1, 2, 3, 4), "n_prediction_instance": n_pred, "n_reference_instance": n_ref, "crop": None, "is_cropped": False, "uncropped_shape": Sym("SHAPE"), "n_dim": 3, "dtype": None}
        if cls_name == "MatchedInstancePair":
            attrs.update({"matched_instances": [1, 2, 3], "missed_reference_labels": [4], "missed_prediction_labels": []})
        return Obj(cls, attrs)

    def external_call(self, name, args, kwargs, node):
        r = self.root
        short = name.split(":")[-1]
        if short.endswith("approximate_instances"):
            args = list(args) + [getattr(r, "last_receiver", None)]
            r.stages.append(("approximate", args, kwargs, node))
            return self._mkpair("UnmatchedInstancePair", "approximated")
        if short.endswith("match_instances") and not short.endswith("_match_instances"):
            args = list(args) + [getattr(r, "last_receiver", None)]
            r.stages.append(("match", args, kwargs, node))
            return self._mkpair("MatchedInstancePair", "matched")
        if short == "evaluate_matched_instance":
            r.stages.append(("evaluate", args, kwargs, node))
            cls = self.prog.cls("utils.processing_pair:EvaluateInstancePair")
            return Obj(cls, {"reference_arr": Sym("E_REF"), "prediction_arr": Sym("E_PRED"), "num_pred_instances": Sym("E_NPRED"), "num_ref_instances": Sym("E_NREF"), "tp": Sym("E_TP"), "list_metrics": Sym("E_LISTS")})
        if short in ("PanopticaResult", "PanopticaResult.__init__"):
            r.stages.append(("result", args, kwargs, node))
            return Obj(self.prog.cls("panoptica_result:PanopticaResult"), {"_tag": "RESULT"})
        if short.endswith("calculate_all"):
            r.stages.append(("calculate_all", args, kwargs, node))
            return None
        if self.prog.is_anchor(name, "_functionals:_get_paired_crop"):
            r.stages.append(("crop", args, kwargs, node))
            return Sym("CROP")
        return super().external_call(name, args, kwargs, node)

    def subscript_hook(self, base, idx, node):
        if isinstance(base, AArr) and idx == Sym("CROP"):
            if getattr(base, "cropped", False):
                # slicing an already cropped array again: legitimate only with a crop that was
                # computed from this very array (in this run)
                last = [s for s in self.root.stages if s[0] == "crop"]
                srcs = [a for s in last[-1:] for a in list(s[1]) + list(s[2].values())]
                if not any(a is base for a in srcs):
                    self.root.__dict__.setdefault("double_crops", []).append((node, base.side))
            v = AArr(base.side, base.fresh, base.content, base.selection, origin=base)
            v.cropped = True
            v.stage = getattr(base, "stage", "input")
            return v
        return super().subscript_hook(base, idx, node)


def _config_attrs(cls: Class, tag: str) -> dict:
    """The attributes a configured stage object carries (everything its class hierarchy stores on
    self in __init__), each an opaque value: the pipeline must not depend on any of them."""
    import ast as _ast

    out = {"_tag": tag}
    for k in cls.mro():
        init = k.methods.get("__init__")
        if init is None or not init.self_name:
            continue
        for n in _ast.walk(init.node):
            if isinstance(n, _ast.Attribute) and isinstance(n.ctx, _ast.Store) and isinstance(n.value, _ast.Name) and n.value.id == init.self_name:
                name = k.mangle(n.attr) if n.attr.startswith("__") and not n.attr.endswith("__") else n.attr
                out.setdefault(name, Unknown(f"stage-config:{tag}.{n.attr}"))
    return out


def run_pipeline(prog: Program, input_cls: str, result_all=True, approximator=True, matcher=True, matcher_cls=None, approximator_cls=None):
    f = prog.func("panoptica_evaluator:panoptic_evaluate")
    names = [p.name for p in f.call_params]
    for need in ["input_pair", "instance_approximator", "instance_matcher", "instance_metrics", "global_metrics", "decision_metric", "decision_threshold", "edge_case_handler", "result_all"]:
        if need not in names:
            raise AnchorMissing(f"panoptic_evaluate has no parameter {need}")
    holder = []
    acls = prog.cls("instance_approximator:InstanceApproximator")
    mcls = prog.cls("instance_matcher:InstanceMatchingAlgorithm")
    rcls = prog.cls("panoptica_result:PanopticaResult")

    def make(prefix):
        from .resultrun import metric_objs

        ms = metric_objs(prog)
        it = PipelineInterp(prog, f, {}, prefix=prefix, metrics=ms)
        it.root.P_instance_metrics = ms[:3]
        it.root.P_global_metrics = ms[:1]
        pair = it._mkpair(input_cls, "input")
        for a in (pair.attrs["_prediction_arr"], pair.attrs["_reference_arr"]):
            a.fresh = False
        args = {"input_pair": pair, "instance_approximator": Obj(approximator_cls or acls, _config_attrs(approximator_cls, "APPROX") if approximator_cls else {"_tag": "APPROX"}) if approximator else None, "instance_matcher": Obj(matcher_cls or mcls, _config_attrs(matcher_cls, "MATCHER") if matcher_cls else {"_tag": "MATCHER"}) if matcher else None, "instance_metrics": it.root.P_instance_metrics, "global_metrics": it.root.P_global_metrics, "decision_metric": Sym("P_decision_metric"), "decision_threshold": Sym("P_decision_threshold"), "edge_case_handler": Sym("P_edge_case_handler"), "result_all": result_all, "log_times": False, "verbose": False, "verbose_calc": Sym("P_verbose_calc")}
        it.env.update(args)
        ni = {prog.func("instance_evaluator:evaluate_matched_instance").qual, rcls.lookup("__init__").qual, rcls.lookup("calculate_all").qual, prog.func("_functionals:_get_paired_crop").qual, prog.func("utils.numpy_utils:_unique_without_zeros").qual, prog.func("utils.numpy_utils:_count_unique_without_zeros").qual, prog.func("utils.processing_pair:_check_array_integrity").qual}
        for c in [acls] + acls.all_subclasses():
            m = c.methods.get("approximate_instances")
            if m:
                ni.add(m.qual)
        for c in [mcls] + mcls.all_subclasses():
            m = c.methods.get("match_instances")
            if m:
                ni.add(m.qual)
        it.root.no_inline = ni
        holder.append((it, pair))
        return it

    outs = enumerate_paths(make, max_paths=64)
    return f, list(zip(outs, holder))
