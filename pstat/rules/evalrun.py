"""Abstract end-to-end runs of Panoptica_Evaluator.evaluate / _evaluate_group and of
panoptic_evaluate: configuration plumbing, per-group restriction, stage order.

All objects (evaluator, class groups, label groups, processing pairs) are built by abstractly
running their real constructors on symbolic arguments."""

from __future__ import annotations

import ast
from typing import Any, Optional

from ..absval import BoundMethod, EnumSym, Interp, Obj, Outcome, Sym, Unknown, enumerate_paths
from ..model import AnchorMissing, Class, Func, Program, Undecided, norm
from .arrdom import AArr, AMask, ArrInterp
from .resultrun import ResultInterp, Tagged

CFG = ["instance_approximator", "instance_matcher", "edge_case_handler", "instance_metrics", "global_metrics", "decision_metric", "decision_threshold"]
ARRAY_LABELS = {"PRED": [1, 2, 3, 5], "REF": [1, 3, 4, 5]}


class EvalInterp(ArrInterp):
    """ArrInterp + hooks for the pipeline entry points."""

    def __init__(self, *a, labels=None, **kw):
        super().__init__(*a, **kw)
        r = self.root
        r.labels = labels or ARRAY_LABELS
        r.pipeline_calls = []  # kwargs of panoptic_evaluate calls
        r.stage_calls = []
        r.timers = 0

    def external_call(self, name, args, kwargs, node):
        r = self.root
        short = name.split(":")[-1]
        if short == "_unique_without_zeros" and args and isinstance(args[0], AArr):
            return self.labels_of(args[0])
        if short == "_count_unique_without_zeros" and args and isinstance(args[0], AArr):
            return len(self.labels_of(args[0]))
        if short == "_check_array_integrity":
            return None
        if name == "numpy.unique" and args and isinstance(args[0], AArr):
            return [0] + self.labels_of(args[0])
        if short == "panoptic_evaluate":
            names = [p.name for p in self.prog.func("panoptica_evaluator:panoptic_evaluate").call_params]
            kw = dict(zip(names, args))
            kw.update(kwargs)
            r.pipeline_calls.append((kw, node))
            k = len(r.pipeline_calls)
            return (Obj(self.prog.cls("panoptica_result:PanopticaResult"), {"_tag": f"RESULT_{k}", "computation_time": None}), Sym(f"STEPS_{k}"))
        if name in ("time.perf_counter", "time.time"):
            r.timers += 1
            return Sym(f"T{r.timers}")
        if name.endswith("Console") or name.startswith("rich."):
            return Sym("console")
        return super().external_call(name, args, kwargs, node)

    def labels_of(self, a: AArr) -> list:
        base = list(self.root.labels.get(a.side.replace("CC_", ""), []))
        if a.selection is not None and isinstance(a.selection[1], (list, tuple)):
            base = [x for x in base if x in list(a.selection[1])]
        if a.content == "bin":
            return [1] if base else []
        return base

    def binop_hook(self, op, l, r, node):
        if isinstance(l, Sym) and isinstance(r, Sym) and l.name.startswith("T") and r.name.startswith("T"):
            return Sym(f"({l.name}-{r.name})")
        return super().binop_hook(op, l, r, node)

    def get_attr(self, base, attr, node):
        if isinstance(base, Sym) and base.name == "console":
            return Sym("console." + attr)
        return super().get_attr(base, attr, node)

    def apply(self, fv, args, kwargs, node):
        if isinstance(fv, Sym) and fv.name.startswith("console."):
            return None
        return super().apply(fv, args, kwargs, node)


def construct(prog: Program, cls: Class, kwargs: dict, interp_cls=EvalInterp, **ikw) -> Obj:
    init = cls.lookup("__init__")
    o = Obj(cls, {})
    if init is None:
        return o
    it = interp_cls(prog, init, dict(kwargs), self_obj=o, **ikw)
    it.root.no_inline = set()
    out = it.run()
    if out.kind == "raise" or out.decisions:
        raise Undecided(f"{init.qual} not evaluable on the analysis' arguments: {out.kind} {out.exc} {[norm(d[0]) for d in out.decisions if isinstance(d[0], ast.AST)][:3]}")
    return o


def build_groups(prog: Program) -> tuple[Obj, dict]:
    lg = prog.cls("utils.label_group:LabelGroup")
    lmg = prog.cls("utils.label_group:LabelMergeGroup")
    scg = prog.cls("utils.segmentation_class:SegmentationClassGroups")
    groups = {
        "plain": construct(prog, lg, {"value_labels": [1, 2], "single_instance": False}),
        "merged": construct(prog, lmg, {"value_labels": [3, 4], "single_instance": False}),
        "single": construct(prog, lg, {"value_labels": 5, "single_instance": True}),
    }
    o = construct(prog, scg, {"groups": dict(groups)})
    return o, groups


def build_evaluator(prog: Program, expected_input: str, groups: Optional[Obj], save_group_times=False) -> Obj:
    cls = prog.cls("panoptica_evaluator:Panoptica_Evaluator")
    it_cls = prog.cls("utils.processing_pair:InputType")
    init = cls.lookup("__init__")
    names = [p.name for p in init.call_params]
    for need in ["expected_input", "segmentation_class_groups"] + CFG:
        if need not in names:
            raise AnchorMissing(f"Panoptica_Evaluator.__init__ has no parameter {need}")
    member_cls = prog.resolve_class_expr(it_cls.module, it_cls.class_assigns()[expected_input])
    member = Obj(it_cls, {"value": member_cls, "_value_": member_cls, "name": expected_input, "_name_": expected_input})
    kw = {n: Sym("CFG_" + n) for n in CFG}
    kw["decision_threshold"] = Sym("CFG_decision_threshold")
    kw.update({"expected_input": member, "segmentation_class_groups": groups, "save_group_times": save_group_times, "log_times": Sym("CFG_log_times"), "verbose": Sym("CFG_verbose")})
    return construct(prog, cls, kw)


def run_evaluate(prog: Program, ev: Obj, labels=None, call_kwargs=None):
    cls = ev.cls
    f = cls.lookup("evaluate")
    if f is None:
        raise AnchorMissing("Panoptica_Evaluator.evaluate")
    holder = []

    def make(prefix):
        pred, ref = AArr("PRED", False), AArr("REF", False)
        args = {"prediction_arr": pred, "reference_arr": ref}
        args.update(call_kwargs or {})
        it = EvalInterp(prog, f, args, self_obj=ev, labels=labels, prefix=prefix)
        it.root.no_inline = {prog.func("panoptica_evaluator:panoptic_evaluate").qual, prog.func("utils.numpy_utils:_unique_without_zeros").qual, prog.func("utils.numpy_utils:_count_unique_without_zeros").qual, prog.func("utils.processing_pair:_check_array_integrity").qual}
        holder.append((it, pred, ref))
        return it

    outs = enumerate_paths(make, max_paths=64)
    return f, list(zip(outs, holder))
