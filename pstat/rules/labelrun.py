"""Symbolic relabelling runs (SYMINT + WIDTH): map_instance_labels / _map_labels.

Labels are exact polynomials over non-negative unknowns arranged in strictly increasing
chains (R1<R2<R3, P1<...<P5); the input dtype is enumerated over uint8/16/32/64 so that
every container capacity is a concrete integer; an array is its generic voxel.  Stores and
casts into integer containers are recorded with the value stored; whether the value always
fits is decided by linarith under the path and domain constraints.
"""

from __future__ import annotations

import ast
from dataclasses import dataclass
from typing import Any, Optional

from ..absval import Vec, Interp, Obj, Outcome, RaiseSignal, Sym, Unknown, _DictView, enumerate_paths
from ..linarith import constraint_slack, decide_leq
from ..model import Func, Program, Undecided, norm
from ..pointwise import DTYPE_NAMES, dtype_of
from ..poly import Poly, to_poly
from ..symint import decide_cmp
from .resultrun import ResultInterp, Tagged

CAP = {"bool": 1, "u8": 255, "u16": 65535, "u32": 2**32 - 1, "u64": 2**64 - 1, "i8": 127, "i16": 32767, "i32": 2**31 - 1, "i64": 2**63 - 1, "f64": 2**53, "py": 10**30}
LBLMAX = {"u8": 255, "u16": 65535, "u32": 2**24 - 1, "u64": 2**24 - 1}
DT_SYM = {"u8": "ext:numpy.uint8", "u16": "ext:numpy.uint16", "u32": "ext:numpy.uint32", "u64": "ext:numpy.uint64", "i64": "ext:numpy.int64", "bool": "ext:numpy.bool_", "f64": "ext:numpy.float64", "i32": "ext:numpy.int32"}


def dt_sym(cont: str) -> Sym:
    return Sym(DT_SYM[cont])


class LV:
    """Label value: polynomial; container/kind are bookkeeping (equality is on the value)."""

    def __init__(self, poly, cont="py", kind="py"):
        self.poly = to_poly(poly)
        self.cont = cont
        self.kind = kind

    def const_value(self):
        """the number this label value denotes if it is a constant, else the value itself"""
        p = self.poly
        if not p.variables():
            c = p.terms.get((), 0) if hasattr(p, "terms") else None
            return c
        return self

    def __eq__(self, o):
        return isinstance(o, LV) and self.poly == o.poly

    def __hash__(self):
        return hash(self.poly)

    def __repr__(self):
        return f"{self.poly!r}"


class VoxelArr:
    def __init__(self, side: str, value: Poly, cont: str, amax: Poly, fresh: bool = False):
        self.side = side
        self.value = to_poly(value)
        self.cont = cont
        self.amax = to_poly(amax)
        self.fresh = fresh

    def __repr__(self):
        return f"{self.side}<{self.value!r}:{self.cont}>"


class LArr1D:
    def __init__(self, items: list, cont: str):
        self.items = items
        self.cont = cont


class LUT:
    def __init__(self, size: Poly, cont: str):
        self.size = size
        self.cont = cont
        self.overrides: list[tuple[LV, LV]] = []


class VMask:
    def __init__(self, arr: VoxelArr, truth: Optional[bool], unk=None):
        self.arr = arr
        self.truth = truth
        self.unk = unk


@dataclass
class StoreEvent:
    node: ast.AST
    what: str
    value: Poly
    cont: str


class _M:
    def __init__(self, o, name):
        self.o = o
        self.name = name


class IInfo:
    def __init__(self, cont):
        self.cont = cont


class RelabelInterp(ResultInterp):
    def __init__(self, *a, **kw):
        super().__init__(*a, **kw)
        self.root.events = []
        self.root.index_checks = []

    # -- events ---------------------------------------------------------------------------
    def ev(self, node, what, value, cont):
        if cont in CAP and cont != "py":
            self.root.events.append(StoreEvent(node, what, to_poly(value), cont))

    def lv(self, v) -> Optional[LV]:
        if isinstance(v, LV):
            return v
        if isinstance(v, bool):
            return None
        if isinstance(v, int):
            return LV(Poly.const(v))
        return None

    # -- comparisons ----------------------------------------------------------------------
    def compare_hook(self, op, l, r, node):
        if isinstance(op, (ast.In, ast.NotIn)):
            items = None
            if isinstance(r, _DictView):
                items = r.materialise()
            elif isinstance(r, (list, tuple, set)):
                items = list(r)
            elif isinstance(r, dict):
                items = list(r.keys())
            elif isinstance(r, LArr1D):
                items = r.items
            if items is not None and self.lv(l) is not None:
                res = False
                for x in items:
                    if self.lv(x) is None:
                        return Unknown("membership among non-labels")
                    if self.truth(self.compare(ast.Eq(), l, x, node), node):
                        res = True
                        break
                return res if isinstance(op, ast.In) else not res
            return Unknown("membership")
        sym = {ast.Eq: "==", ast.NotEq: "!=", ast.Lt: "<", ast.LtE: "<=", ast.Gt: ">", ast.GtE: ">="}.get(type(op))
        if isinstance(l, LArr1D) and sym and self.lv(r) is not None:
            # elementwise comparison of a label vector with a scalar
            return Vec(self.truth(self.compare(op, x, r, node), node) for x in l.items)
        if isinstance(op, (ast.Eq, ast.NotEq)) and isinstance(l, (list, tuple)) and isinstance(r, (list, tuple)) and type(l) is type(r) and l and all(self.lv(x) is not None for x in list(l) + list(r)):
            # sequences of labels are equal iff they have the same length and agree position by position
            # (each position is a fact about the labels, recorded on the path like any other comparison)
            if len(l) != len(r):
                return isinstance(op, ast.NotEq)
            same = True
            for a_, b_ in zip(l, r):
                if not self.truth(self.compare(ast.Eq(), a_, b_, node), node):
                    same = False
                    break
            return same if isinstance(op, ast.Eq) else not same
        if isinstance(l, VoxelArr) and self.lv(r) is not None and sym:
            t = self._cmp(sym, l.value, self.lv(r).poly, node)
            return VMask(l, t if isinstance(t, bool) else None, None if isinstance(t, bool) else t)
        if isinstance(l, IInfo) or isinstance(r, IInfo):
            return Unknown("iinfo compare")
        a, b = self.lv(l), self.lv(r)
        if a is not None and b is not None and sym:
            return self._cmp(sym, a.poly, b.poly, node)
        if isinstance(l, Sym) and isinstance(r, Sym):
            return (l == r) if isinstance(op, ast.Eq) else (l != r) if isinstance(op, ast.NotEq) else Unknown("sym order")
        return super().compare_hook(op, l, r, node)

    def _cmp(self, sym, a: Poly, b: Poly, node):
        slacks = self.path_slacks()
        # decided by the sign test (possibly with the help of earlier path constraints)
        for want in (True, False):
            sl = constraint_slack(sym, a, b, want)
            if sl and all(_proves(s, slacks) for s in sl):
                return want
        t, _ = decide_cmp(sym, a, b, True)
        if t is True:
            return True
        f, _ = decide_cmp(sym, a, b, False)
        if f is True:
            return False
        u = Unknown(norm(node) if isinstance(node, ast.AST) else sym)
        u.pv = (sym, a, b)
        return u

    def path_slacks(self) -> list[Poly]:
        out = list(self.root.__dict__.get("domain_slacks", []))
        for node, v, d in self.root.taken:
            pv = getattr(v, "pv", None)
            if pv and len(pv) == 3:
                out += constraint_slack(pv[0], pv[1], pv[2], d)
        return out

    def truth_hook(self, v, node):
        if isinstance(v, VMask):
            if v.truth is not None:
                return v.truth
            return self.decide(node, v.unk)
        return super().truth_hook(v, node)

    # -- arithmetic -----------------------------------------------------------------------
    def _promote(self, c1: str, k1: str, c2: str, k2: str) -> str:
        from ..pointwise import PV, promote

        return promote(PV(Poly(), c1, k1), PV(Poly(), c2, k2))

    def binop_hook(self, op, l, r, node):
        if isinstance(l, VoxelArr) or isinstance(r, VoxelArr):
            if isinstance(op, (ast.Add, ast.Mult, ast.Sub)):
                def parts(x):
                    if isinstance(x, VoxelArr):
                        return x.value, x.amax, x.cont, "arr"
                    v = self.lv(x)
                    if v is None:
                        return None
                    return v.poly, v.poly, (v.cont if v.kind == "nps" else "py"), ("nps" if v.kind == "nps" else "py")
                pa, pb = parts(l), parts(r)
                if pa is not None and pb is not None:
                    f = {ast.Add: lambda x, y: x + y, ast.Mult: lambda x, y: x * y, ast.Sub: lambda x, y: x - y}[type(op)]
                    cont = self._promote(pa[2], pa[3], pb[2], pb[3])
                    val, amax = f(pa[0], pb[0]), f(pa[1], pb[1])
                    side = l.side if isinstance(l, VoxelArr) else r.side
                    self.ev(node, f"label arithmetic {norm(node)[:60]}", amax, cont)
                    return VoxelArr(side, val, cont, amax, fresh=True)
            return Unknown("array arithmetic")
        a, b = self.lv(l), self.lv(r)
        if a is not None and b is not None:
            if isinstance(op, ast.Add):
                p = a.poly + b.poly
            elif isinstance(op, ast.Sub):
                p = a.poly - b.poly
            elif isinstance(op, ast.Mult):
                p = a.poly * b.poly
            else:
                return Unknown("label arithmetic")
            # numpy scalar (+) python int: value based casting (numpy 1.x) -> no wrap; result python-like
            return LV(p, "py", "py")
        return super().binop_hook(op, l, r, node)

    # -- attributes / methods -------------------------------------------------------------
    def get_attr(self, base, attr, node):
        if isinstance(base, VoxelArr):
            if attr == "dtype":
                return dt_sym(base.cont)
            if attr in ("size", "shape", "ndim"):
                return Unknown(f"array.{attr}")
            return _M(base, attr)
        if isinstance(base, (LArr1D, LUT)):
            if attr == "dtype":
                return dt_sym(base.cont)
            return _M(base, attr)
        if isinstance(base, IInfo):
            if attr == "max":
                return CAP[base.cont]
            if attr == "min":
                return 0 if base.cont.startswith("u") else -CAP[base.cont] - 1
            if attr == "bits":
                return {"u8": 8, "u16": 16, "u32": 32, "u64": 64, "i64": 64, "i32": 32}.get(base.cont, Unknown("bits"))
        if isinstance(base, Sym) and base.name in DT_SYM.values() and attr == "itemsize":
            return {"u8": 1, "u16": 2, "u32": 4, "u64": 8, "i64": 8, "i32": 4, "bool": 1, "f64": 8}[dtype_of(base)]
        return super().get_attr(base, attr, node)

    def apply(self, fv, args, kwargs, node):
        if isinstance(fv, _M):
            o, name = fv.o, fv.name
            if isinstance(o, VoxelArr):
                if name == "astype":
                    dt = dtype_of(args[0]) if args else None
                    if dt is None:
                        return Unknown("astype(unknown dtype)")
                    self.ev(node, f"cast of the {o.side.lower()} array", o.amax, dt)
                    return VoxelArr(o.side, o.value, dt, o.amax, fresh=True)
                if name == "copy":
                    return VoxelArr(o.side, o.value, o.cont, o.amax, fresh=True)
                if name == "max":
                    return LV(o.amax, o.cont, "nps")
                return Unknown(f"array.{name}")
            if isinstance(o, LArr1D):
                if name == "tolist" and not args:
                    return [LV(x.poly, "py", "py") for x in o.items]
                if name == "copy" and not args:
                    return LArr1D(list(o.items), o.cont)
                if name == "max":
                    return self.sym_max(o.items, node)
                if name == "astype":
                    dt = dtype_of(args[0]) if args else None
                    if dt is None:
                        return Unknown("astype(unknown dtype)")
                    for x in o.items:
                        self.ev(node, "cast of label table", x.poly, dt)
                    return LArr1D(o.items, dt)
                return Unknown(f"array1d.{name}")
        return super().apply(fv, args, kwargs, node)

    def sym_max(self, items, node):
        lvs = [self.lv(x) for x in items]
        if not lvs or any(x is None for x in lvs):
            return Unknown("max of non-labels")
        slacks = self.path_slacks()
        for e in lvs:
            if all(_proves(e.poly - o.poly, slacks) for o in lvs):
                return LV(e.poly, e.cont, e.kind)
        # not determined by the constraints so far: split on which element is the maximum
        uniq = []
        for e in lvs:
            if e not in uniq:
                uniq.append(e)
        for i, e in enumerate(uniq):
            if i == len(uniq) - 1:
                return LV(e.poly, e.cont, e.kind)
            ok = True
            for o in uniq:
                if o is e:
                    continue
                c = self._cmp(">=", e.poly, o.poly, node)
                if not (c is True or (not isinstance(c, bool) and self.decide(node, c))):
                    ok = False
                    break
            if ok:
                return LV(e.poly, e.cont, e.kind)
        return Unknown("max not determined")

    def call_builtin(self, name, args, kwargs, node):
        if name in ("max", "min") and args:
            items = list(args[0].items) if len(args) == 1 and isinstance(args[0], LArr1D) else (list(args[0]) if len(args) == 1 and isinstance(args[0], (list, tuple)) else list(args))
            if items and all(self.lv(x) is not None for x in items):
                if name == "max":
                    return self.sym_max(items, node)
        if name == "int" and args and isinstance(args[0], LV):
            return LV(args[0].poly, "py", "py")
        if name == "len" and args and isinstance(args[0], LArr1D):
            return len(args[0].items)
        if name == "enumerate" and len(args) == 1 and isinstance(args[0], LArr1D) and not kwargs:
            return list(enumerate(args[0].items))
        if name == "zip" and args and all(isinstance(a, (LArr1D, list, tuple)) for a in args):
            return list(zip(*[(a.items if isinstance(a, LArr1D) else a) for a in args]))
        if name in ("list", "tuple") and args and isinstance(args[0], LArr1D):
            return list(args[0].items) if name == "list" else tuple(args[0].items)
        return super().call_builtin(name, args, kwargs, node)

    def external_call(self, name, args, kwargs, node):
        if name.endswith("InstancePair") or name.endswith("InstancePair.__init__"):
            return Tagged(name.split(":")[-1].replace(".__init__", ""), args, kwargs)
        if name in ("max", "min"):
            return Unknown(name)
        if name in ("numpy.promote_types", "numpy.result_type") and len(args) == 2 and not kwargs:
            a_, b_ = dtype_of(args[0]), dtype_of(args[1])
            order = ["bool", "u8", "u16", "u32", "u64"]
            if a_ in order and b_ in order:
                return dt_sym(order[max(order.index(a_), order.index(b_))])  # the wider of two unsigned types
            return Unknown("promotion of dtypes other than unsigned ones")
        if name == "numpy.dtype" and len(args) == 1 and not kwargs and dtype_of(args[0]):
            return dt_sym(dtype_of(args[0]))
        if name == "numpy.iinfo" and args:
            dt = dtype_of(args[0])
            if dt:
                return IInfo(dt)
            return Unknown("iinfo")
        if name in ("numpy.array", "numpy.asarray") and args and isinstance(args[0], LArr1D):
            if kwargs.get("dtype") is None:
                return LArr1D(list(args[0].items), args[0].cont)
            dt = dtype_of(kwargs.get("dtype"))
            if dt is None:
                return Unknown("array with unknown dtype")
            for x in args[0].items:
                self.ev(node, "label table entry", x.poly, dt)
            return LArr1D(list(args[0].items), dt)
        if name in ("numpy.zeros", "numpy.zeros_like", "numpy.empty_like") and args and not (set(kwargs) - {"dtype"}):
            src_ = args[0]
            if isinstance(src_, (tuple, list)) and src_ and all(isinstance(x, LV) for x in src_) and name != "numpy.zeros":
                conts_ = {x.cont for x in src_ if x.kind == "nps"}
                src_ = LArr1D(list(src_), conts_.pop() if len(conts_) == 1 else "i64")  # (the label collection as the array this code keeps)
            n_ = src_ if isinstance(src_, int) and not isinstance(src_, bool) else len(src_.items) if isinstance(src_, LArr1D) else None
            dt = dtype_of(kwargs["dtype"]) if kwargs.get("dtype") is not None else (src_.cont if isinstance(src_, LArr1D) else "f64")
            if n_ is not None and dt is not None and name != "numpy.empty_like":
                return LArr1D([LV(Poly.const(0), dt, "nps") for _ in range(n_)], dt)
        if name == "numpy.arange" and len(args) == 2 and not kwargs and self.lv(args[0]) is not None and self.lv(args[1]) is not None:
            a_, b_ = self.lv(args[0]).poly, self.lv(args[1]).poly
            d_ = (b_ - a_)
            if not d_.terms or set(d_.terms) <= {()}:
                n_ = int(d_.terms.get((), 0)) if d_.terms else 0
                return LArr1D([LV(a_ + Poly.const(i), "i64", "nps") for i in range(max(n_, 0))], "i64")
        if name in ("numpy.isin", "numpy.in1d") and len(args) == 2 and isinstance(args[0], LArr1D) and isinstance(args[1], (list, tuple, LArr1D)) and not (set(kwargs) - {"assume_unique", "invert"}) and isinstance(kwargs.get("invert", False), bool):
            others = list(args[1].items) if isinstance(args[1], LArr1D) else list(args[1])
            inv = kwargs.get("invert", False)
            return Vec((self.truth(self.compare(ast.In(), x, others, node), node) != inv) for x in args[0].items)
        if name in ("numpy.array", "numpy.asarray") and args and isinstance(args[0], (list, tuple)):
            items = [self.lv(x) for x in args[0]]
            if any(x is None for x in items):
                return Unknown("array of non-labels")
            own = {x.cont for x in items if x.kind == "nps"}
            # numpy scalars of one dtype make an array of that dtype; python ints the default integer
            dt = dtype_of(kwargs.get("dtype")) if kwargs.get("dtype") is not None else (own.pop() if len(own) == 1 and all(x.kind == "nps" for x in items) else "i64")
            if dt is None:
                return Unknown("array with unknown dtype")
            for x in items:
                self.ev(node, "label table entry", x.poly, dt)
            return LArr1D(items, dt)
        if name == "numpy.arange" and args:
            n = self.lv(args[0])
            if n is None or len(args) > 1:
                return Unknown("arange")
            dt = dtype_of(kwargs.get("dtype")) if kwargs.get("dtype") is not None else "i64"
            if dt is None:
                return Unknown("arange with unknown dtype")
            self.ev(node, "largest entry of the lookup table", n.poly - Poly.const(1), dt)
            return LUT(n.poly, dt)
        if name == "numpy.unique" and args and isinstance(args[0], VoxelArr) and not kwargs:
            return [LV(args[0].value, args[0].cont, "nps")]
        if name in ("numpy.all", "numpy.any") and args and isinstance(args[0], list) and all(isinstance(x, bool) for x in args[0]):
            return all(args[0]) if name.endswith("all") else any(args[0])
        if name in ("numpy.uint64", "numpy.int64", "numpy.uint32", "numpy.uint16", "numpy.uint8") and args and isinstance(args[0], LV):
            dt = DTYPE_NAMES[name]
            self.ev(node, "scalar cast", args[0].poly, dt)
            return LV(args[0].poly, dt, "nps")
        if name == "numpy.dtype" and len(args) == 1 and not kwargs and dtype_of(args[0]) in DT_SYM:
            return dt_sym(dtype_of(args[0]))  # np.dtype(<dtype-like>) names the same dtype
        if name in ("numpy.can_cast", "numpy.promote_types", "numpy.result_type", "numpy.dtype"):
            return Unknown(name)
        return super().external_call(name, args, kwargs, node)

    # -- lookup table ---------------------------------------------------------------------
    def store_subscript_hook(self, base, idx, v, node):
        if isinstance(base, LUT) and isinstance(idx, LArr1D) and isinstance(v, LArr1D) and len(idx.items) == len(v.items):
            for k, val in zip(idx.items, v.items):
                self.ev(node, "lookup table value", val.poly, base.cont)
                self.root.index_checks.append((node, k.poly, base.size, "lookup-table key below the table size"))
                base.overrides.append((k, val))
            return
        if isinstance(base, LArr1D) and isinstance(idx, int) and not isinstance(idx, bool) and self.lv(v) is not None:
            if not -len(base.items) <= idx < len(base.items):
                raise RaiseSignal("IndexError", node)
            nv = self.lv(v)
            self.ev(node, "label table entry", nv.poly, base.cont)  # the value takes the vector's dtype
            base.items[idx] = LV(nv.poly, base.cont, "nps")
            return
        if isinstance(base, LArr1D) and isinstance(idx, Vec) and len(idx) == len(base.items) and all(isinstance(b, bool) for b in idx):
            pos = [i for i, b in enumerate(idx) if b]
            vals = list(v.items) if isinstance(v, LArr1D) else list(v) if isinstance(v, (list, tuple)) else [v] * len(pos)
            if len(vals) != len(pos) or any(self.lv(x) is None for x in vals):
                raise Undecided("masked store into a label vector with values of another length / kind")
            for i, x in zip(pos, vals):
                nv = self.lv(x)
                self.ev(node, "label table entry", nv.poly, base.cont)
                base.items[i] = LV(nv.poly, base.cont, "nps")
            return
        if isinstance(base, VoxelArr) and isinstance(idx, VMask):
            # sequential replacement  out[<mask>] = new
            t = self.truth(idx, node)
            nv = self.lv(v)
            if nv is None:
                raise Undecided("masked store of a non-label")
            # a mask computed from another array of the same shape selects the same generic voxel
            if t:
                self.ev(node, "in-place label replacement", nv.poly, base.cont)
                base.value = nv.poly
            return
        return super().store_subscript_hook(base, idx, v, node)

    def subscript_hook(self, base, idx, node):
        if isinstance(base, LArr1D) and isinstance(idx, int) and not isinstance(idx, bool):
            try:
                return base.items[idx]
            except IndexError:
                raise RaiseSignal("IndexError", node)
        if isinstance(base, LArr1D) and isinstance(idx, Vec) and len(idx) == len(base.items) and all(isinstance(b, bool) for b in idx):
            return LArr1D([x for x, b in zip(base.items, idx) if b], base.cont)
        if isinstance(base, LArr1D) and isinstance(idx, slice):
            return LArr1D(base.items[idx], base.cont)
        if isinstance(base, (tuple, list)) and base and isinstance(idx, Vec) and len(idx) == len(base) and all(isinstance(b, bool) for b in idx) and all(isinstance(x, LV) for x in base):
            # the pair's label collection selected by a boolean vector: it is kept as an array by this code
            # (the rule hands it in as a tuple of numpy scalars; as a collection of labels the two are the same)
            conts = {x.cont for x in base if x.kind == "nps"}
            return LArr1D([x for x, b in zip(base, idx) if b], conts.pop() if len(conts) == 1 else "i64")
        if isinstance(base, LUT) and isinstance(idx, VoxelArr):
            self.root.index_checks.append((node, idx.amax, base.size, "largest array label below the table size"))
            x = idx.value
            # later overrides win: scan from the end
            for k, val in reversed(base.overrides):
                c = self._cmp("==", x, k.poly, node)
                if c is True or (not isinstance(c, bool) and self.decide(node, c)):
                    return VoxelArr(idx.side, val.poly, base.cont, Poly.var("?amax"), fresh=True)
            return VoxelArr(idx.side, x, base.cont, Poly.var("?amax"), fresh=True)
        return super().subscript_hook(base, idx, node)

    def iterate(self, it, node):
        if isinstance(it, LArr1D):
            return list(it.items)
        return super().iterate(it, node)

    def isinstance_hook(self, v, klass, node):
        if isinstance(v, LV):
            ks = klass if isinstance(klass, tuple) else (klass,)
            return any(isinstance(k, Sym) and k.name in ("builtin:int",) for k in ks)
        return super().isinstance_hook(v, klass, node)


def _proves(target: Poly, slacks: list[Poly]) -> bool:
    from ..linarith import prove_nonneg

    return prove_nonneg(target, slacks)


def chains(n_ref=3, n_pred=5):
    """Strictly increasing label chains and the slacks expressing the label domain."""
    refs, preds = [], []
    cur = Poly()
    for i in range(1, n_ref + 1):
        cur = cur + Poly.const(1) + Poly.var(f"r{i}")
        refs.append(cur)
    cur = Poly()
    for i in range(1, n_pred + 1):
        cur = cur + Poly.const(1) + Poly.var(f"p{i}")
        preds.append(cur)
    return refs, preds
