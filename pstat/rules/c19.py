"""C19 - saving and loading a configuration reproduces the same evaluator."""

from __future__ import annotations

import ast
import io

from ..absval import EnumSym, Interp, Obj, Sym, Unknown
from ..model import AnchorMissing, Class, Func, Undecided, dotted, norm, walk_no_nested
from ..report import Ctx
from ..variants import Variant
from .evalrun import EvalInterp, construct
from .resultrun import ResultInterp, Tagged, metric_objs

INFO = {
    "explanation": "Rounds 4/5: parameter sets tell parameters of one type apart (three boolean patterns, explicit NONE next to a non-NONE default, thresholds 0.0). Writer/reader table agreement decided by interpreting both sides: for each of the 11 serialisable classes an object is built by interpreting its constructor on parameters varied away from their defaults (a truthy set and a set of falsy-but-non-default values such as threshold 0.0, empty metric list, False flags), then to_yaml (-> tagged mapping of _yaml_repr) and from_yaml (cls(**mapping)) are interpreted with stub representer/constructor: (R19.1) loading succeeds (keys are constructor parameters, nothing required is missing), (R19.2) the loaded object has identical settings, and saving it again gives the identical mapping; the tag is '!<ClassName>'; (R19.3) enum classes serialise the member name and load the member of that name (all members of the 7 enum classes); (R19.4) shipped YAML files are composed (not constructed): every tag names a registered class, mapping keys are constructor parameters of that class, required parameters are present, tagged scalars name existing enum members; (R19.5) constructors and from_yaml do not mutate default arguments (a load does not change what later default-constructed objects contain). R19.8: no stored sequence setting is ordered by iterating a set (found and repaired: LabelGroup kept list(set(labels))); the round trips also run on label sets with colliding hashes ([7, 15]). Further: R19.6 (YAML object state at load and dump, by abstract run), R19.7 (file names of named configurations: append-only, injective). Round 6: (R19.6 writes) _save_yaml is run on the abstract file system (target absent/existing, str/Path; temporary files, os.replace, copies, unlinks followed): afterwards the target holds the dump of the given object and nothing else is left; R19.4 asks the class's own from_yaml about keys the constructor does not name. Round 7: (R19.2) settings that are functions of small arguments (zero-TP handling: tp x instance counts) are compared by their answers; parameter sets with a fallback plus exactly one scenario. Round 8: classes that register for serialisation and are not in the rule table get their parameter sets from their constructor (defaults, the metrics the class accepts, both booleans); inherited _yaml_repr counts. Round 9: R15.10 delegated - what is saved are the settings, what runs may be something bound from them at construction.",
    "trusted_base": ["ruamel.yaml represents/constructs tagged mappings and scalars faithfully and recursively", "Python semantics of the modelled AST subset"],
    "assumptions": ["nested configurable objects round-trip by their own class's rule (compositional)"],
    "not_decided": ["ruamel's own behaviour", "identical results on every input follows from identical settings, not observed"],
}


_READ_CACHE: dict = {}


def observable_attrs(cls: Class) -> set:
    """Instance attributes that are read somewhere outside __init__ (a value stored by the
    constructor and never read again is not a setting)."""
    # cached on the class object itself: another program (a variant) has its own classes
    if "_observable_attrs" in cls.__dict__:
        return cls.__dict__["_observable_attrs"]
    out = set()
    for k in cls.mro() + cls.all_subclasses():
        for m in k.methods.values():
            if m.name == "__init__":
                continue
            for n in ast.walk(m.node):
                if isinstance(n, ast.Attribute) and isinstance(n.ctx, ast.Load):
                    out.add(n.attr)
                    out.add(k.mangle(n.attr))
    cls.__dict__["_observable_attrs"] = out
    return out


_PROG = {}


def _same_answers(a: Obj, b: Obj) -> bool:
    prog = _PROG.get("prog")
    call = a.cls.lookup("__call__")
    if prog is None or call is None or len(call.call_params) != 3 or a.cls.methods.get("__call__") is None and call.cls.qual.startswith("utils.constants"):
        return False
    names = [p.name for p in call.call_params]
    try:
        for tp in (0, 1):
            for n1 in (0, 3):
                for n2 in (0, 3):
                    res = []
                    for o in (a, b):
                        it = YamlInterp(prog, call, dict(zip(names, (tp, n1, n2))), self_obj=o)
                        it.root.metrics = getattr(call_cm, "metrics", [])
                        it.root.no_inline = set()
                        out = it.run()
                        if out.decisions:
                            return False
                        res.append((out.kind, out.exc, out.value))
                    if res[0][:2] != res[1][:2] or not deep_eq(res[0][2], res[1][2], 1):
                        return False
    except (Undecided, AnchorMissing):
        return False
    return True


def deep_eq(a, b, depth=0) -> bool:
    if depth > 12:
        return True
    if isinstance(a, Obj) and isinstance(b, Obj):
        if a is b:
            return True
        if a.cls is not b.cls:
            return False
        obs = observable_attrs(a.cls)
        ka = {k for k in a.attrs if not k.startswith("_tag") and k in obs}
        kb = {k for k in b.attrs if not k.startswith("_tag") and k in obs}
        if ka == kb and all(deep_eq(a.attrs[k], b.attrs[k], depth + 1) for k in ka):
            return True
        # objects that are nothing but a function of a few small arguments (the zero-TP handling: tp and the two
        # instance counts) are the same setting if they answer alike on every class of arguments
        return _same_answers(a, b)
    if isinstance(a, dict) and isinstance(b, dict):
        if len(a) != len(b):
            return False
        used = set()
        for k, v in a.items():
            hit = None
            for k2, v2 in b.items():
                if id(k2) in used:
                    continue
                if (k is k2 or deep_eq(k, k2, depth + 1)) and deep_eq(v, v2, depth + 1):
                    hit = k2
                    break
            if hit is None:
                return False
            used.add(id(hit))
        return True
    if isinstance(a, (list, tuple)) and isinstance(b, (list, tuple)):
        return len(a) == len(b) and all(deep_eq(x, y, depth + 1) for x, y in zip(a, b))
    try:
        return bool(a == b)
    except Exception:
        return a is b


class YamlInterp(EvalInterp):
    def external_call(self, name, args, kwargs, node):
        if name.endswith("represent_mapping"):
            return Tagged("mapping", [args[0], args[1]])
        if name.endswith("represent_scalar"):
            return Tagged("scalar", [args[0], args[1]])
        if name.endswith("construct_mapping"):
            n = args[0]
            if isinstance(n, Tagged) and n.name == "mapping":
                return dict(n.args[1])
            return Unknown("construct_mapping")
        return super().external_call(name, args, kwargs, node)

    def get_attr(self, base, attr, node):
        if isinstance(base, Tagged) and base.name == "scalar" and attr == "value":
            return base.args[1]
        return super().get_attr(base, attr, node)


def call_cm(prog, cls: Class, meth: str, args: list):
    f = cls.lookup(meth)
    if f is None:
        raise AnchorMissing(f"{cls.name}.{meth}")
    names = [p.name for p in f.call_params]
    it = YamlInterp(prog, f, dict(zip(names, args)), self_obj=cls)
    it.root.metrics = getattr(call_cm, "metrics", [])
    it.root.no_inline = set()
    out = it.run()
    return f, out, it


def param_sets(prog):
    ms = metric_objs(prog)
    call_cm.metrics = ms
    by = {m.attrs["_name_"]: m for m in ms}
    be = prog.cls("utils.constants:CCABackend")
    ecr = prog.cls("utils.edge_case_handling:EdgeCaseResult")
    it_cls = prog.cls("utils.processing_pair:InputType")
    lg = prog.cls("utils.label_group:LabelGroup")
    lmg = prog.cls("utils.label_group:LabelMergeGroup")

    def inputtype(name):
        mc = prog.resolve_class_expr(it_cls.module, it_cls.class_assigns()[name])
        return Obj(it_cls, {"value": mc, "_value_": mc, "name": name, "_name_": name})

    def R(n):
        return EnumSym(ecr, n)

    def build(clsq, kw):
        return construct(prog, prog.cls(clsq), kw, interp_cls=YamlInterp, metrics=ms)

    sets = {}
    sets["instance_matcher:NaiveThresholdMatching"] = [
        {"matching_metric": by["ASSD"], "matching_threshold": 0.7, "allow_many_to_one": True},
        {"matching_metric": by["DSC"], "matching_threshold": 0.0, "allow_many_to_one": False},
    ]
    sets["instance_matcher:MaximizeMergeMatching"] = [
        {"matching_metric": by["DSC"], "matching_threshold": 0.25},
        {"matching_metric": by["ASSD"], "matching_threshold": 0.0},
    ]
    sets["instance_approximator:ConnectedComponentsInstanceApproximator"] = [{"cca_backend": EnumSym(be, "scipy")}, {"cca_backend": None}]
    sets["utils.edge_case_handling:MetricZeroTPEdgeCaseHandling"] = [
        {"default_result": R("ONE"), "no_instances_result": R("NAN"), "empty_prediction_result": R("ZERO"), "empty_reference_result": R("INF"), "normal": None},
        {"default_result": None, "no_instances_result": R("NONE"), "empty_prediction_result": R("ONE"), "empty_reference_result": R("ZERO"), "normal": R("NAN")},
        # an explicit NONE next to a default that is not NONE ("not given" and "given as NONE" differ)
        {"default_result": R("ONE"), "no_instances_result": R("NONE"), "empty_prediction_result": None, "empty_reference_result": R("NAN"), "normal": R("ZERO")},
        # only the fallback and ONE specific scenario given (each scenario in turn): the others come from the fallback
        {"default_result": R("ONE"), "no_instances_result": None, "empty_prediction_result": None, "empty_reference_result": None, "normal": R("ZERO")},
        {"default_result": R("INF"), "no_instances_result": R("ZERO"), "empty_prediction_result": None, "empty_reference_result": None, "normal": None},
        {"default_result": R("NAN"), "no_instances_result": None, "empty_prediction_result": R("ONE"), "empty_reference_result": None, "normal": None},
        {"default_result": R("ZERO"), "no_instances_result": None, "empty_prediction_result": None, "empty_reference_result": R("ONE"), "normal": None},
    ]
    # [7, 15] / [16, 8]: labels whose hashes collide in a small set - the iteration order of a set of
    # them depends on the insertion order, so anything that orders settings by iterating a set shows
    sets["utils.label_group:LabelGroup"] = [{"value_labels": [3, 1, 2], "single_instance": False}, {"value_labels": 7, "single_instance": True}, {"value_labels": [7, 15], "single_instance": False}]
    sets["utils.label_group:LabelMergeGroup"] = [{"value_labels": [4, 5], "single_instance": False}, {"value_labels": [9], "single_instance": True}, {"value_labels": [16, 8, 1], "single_instance": False}]
    sets["utils.label_group:_LabelGroupAny"] = [{}]
    sets["utils.segmentation_class:_NoSegmentationClassGroups"] = [{}]

    def h(i):
        return build("utils.edge_case_handling:MetricZeroTPEdgeCaseHandling", sets["utils.edge_case_handling:MetricZeroTPEdgeCaseHandling"][i])

    sets["utils.edge_case_handling:EdgeCaseHandler"] = [
        {"listmetric_zeroTP_handling": {by["DSC"]: h(0), by["ASSD"]: h(1)}, "empty_list_std": R("ZERO")},
        {"listmetric_zeroTP_handling": {by["IOU"]: h(1)}, "empty_list_std": R("NONE")},
    ]
    sets["utils.segmentation_class:SegmentationClassGroups"] = [
        {"groups": {"Liver": build("utils.label_group:LabelGroup", {"value_labels": [1, 2], "single_instance": False}), "m-G": build("utils.label_group:LabelMergeGroup", {"value_labels": [3, 4], "single_instance": False})}},
        {"groups": [build("utils.label_group:LabelGroup", {"value_labels": 5, "single_instance": True})]},
    ]
    sets["panoptica_evaluator:Panoptica_Evaluator"] = [
        {
            "expected_input": inputtype("SEMANTIC"),
            "instance_approximator": build("instance_approximator:ConnectedComponentsInstanceApproximator", {"cca_backend": EnumSym(be, "cc3d")}),
            "instance_matcher": build("instance_matcher:MaximizeMergeMatching", {"matching_metric": by["DSC"], "matching_threshold": 0.3}),
            "edge_case_handler": build("utils.edge_case_handling:EdgeCaseHandler", sets["utils.edge_case_handling:EdgeCaseHandler"][0]),
            "segmentation_class_groups": build("utils.segmentation_class:SegmentationClassGroups", sets["utils.segmentation_class:SegmentationClassGroups"][0]),
            "instance_metrics": [by["IOU"], by["clDSC"]],
            "global_metrics": [by["IOU"], by["RVD"]],
            "decision_metric": by["IOU"],
            "decision_threshold": 0.6,
            # parameters of the same type take pairwise different values in at least one set, so that
            # two of them exchanged on the way (positional construction, key tables) are told apart
            "save_group_times": True,
            "log_times": False,
            "verbose": False,
        },
        {
            "expected_input": inputtype("UNMATCHED_INSTANCE"),
            "instance_approximator": None,
            "instance_matcher": build("instance_matcher:NaiveThresholdMatching", {"matching_metric": by["IOU"], "matching_threshold": 0.0, "allow_many_to_one": True}),
            "edge_case_handler": build("utils.edge_case_handling:EdgeCaseHandler", sets["utils.edge_case_handling:EdgeCaseHandler"][1]),
            "segmentation_class_groups": None,
            "instance_metrics": [by["ASSD"]],
            "global_metrics": [],
            "decision_metric": by["ASSD"],
            "decision_threshold": 0.0,
            "save_group_times": False,
            "log_times": True,
            "verbose": False,
        },
    ]
    third = dict(sets["panoptica_evaluator:Panoptica_Evaluator"][1])
    third.update({"save_group_times": False, "log_times": False, "verbose": True, "instance_metrics": [by["DSC"], by["IOU"]], "global_metrics": [by["DSC"]]})
    sets["panoptica_evaluator:Panoptica_Evaluator"].append(third)
    return sets, ms


def _auto_param_sets(prog, c: Class, ms) -> list:
    init = c.lookup("__init__")
    if init is None:
        return [{}]
    by = {m.attrs["_name_"]: m for m in ms}
    out = [{}, {}]
    for prm in init.call_params:
        if prm.kind not in ("pos", "kwonly"):
            continue
        ann = norm(prm.annotation) if prm.annotation is not None else ""
        d = prm.default.value if isinstance(prm.default, ast.Constant) else None
        n = prm.name.lower()
        if "Metric" in ann or "metric" in n:
            vals = (by.get("DSC"), by.get("IOU"))
        elif isinstance(d, bool) or ann.startswith("bool"):
            vals = (not bool(d), bool(d))
        elif "thr" in n or ann.startswith("float") or isinstance(d, float):
            vals = (0.25, 0.0)
        elif isinstance(d, int) or ann.startswith("int"):
            vals = ((d or 0) + 2, (d or 0) + 1)
        elif ann.startswith("str") or isinstance(d, str):
            vals = ("x", "y")
        elif prm.default is not None:
            continue  # keeps its default in both sets
        else:
            return []
        if vals[0] is None:
            return []
        out[0][prm.name], out[1][prm.name] = vals
    # sets the constructor itself refuses (a matcher restricted to some metrics) are tried with the other metric
    good = []
    for kw in out:
        for alt in (kw, {k: (by.get("IOU") if v is by.get("DSC") else by.get("DSC") if v is by.get("IOU") else v) for k, v in kw.items()}):
            try:
                construct(prog, c, dict(alt), interp_cls=YamlInterp, metrics=ms)
                good.append(alt)
                break
            except Exception:
                continue
    return good


def serialisable_classes(prog) -> list[Class]:
    base = prog.cls("utils.config:SupportsConfig")
    return [c for c in base.all_subclasses()]


def check_roundtrip(ctx: Ctx):
    prog = ctx.prog
    _PROG["prog"] = prog
    sets, ms = param_sets(prog)
    n_cls = 0
    for c in sorted(serialisable_classes(prog), key=lambda c: c.qual):
        yr = c.lookup("_yaml_repr")  # (inherited representations count: a subclass that adds a setting must write it too)
        abstract = yr is None or any(isinstance(n, ast.Raise) for n in walk_no_nested(yr.node))
        if abstract:
            # abstract intermediate class: nothing to serialise
            continue
        if c.qual not in sets:
            # a class the table does not know (a new matcher / approximator / group kind): parameter sets are
            # derived from its constructor - every parameter moved away from its default, once "up" and once "down"
            auto = _auto_param_sets(prog, c, ms)
            if not auto:
                ctx.undecided("R19.1", yr, yr.node, f"{c.qual}", "serialisable class without parameter sets in the rule table and with constructor parameters this rule cannot invent values for (new class?)")
                continue
            sets[c.qual] = auto
        n_cls += 1
        for i, kw in enumerate(sets[c.qual]):
            construct_ = f"{c.qual}:set{i}"
            try:
                o1 = construct(prog, c, dict(kw), interp_cls=YamlInterp, metrics=ms)
            except Undecided as e:
                ctx.undecided("R19.1", yr, None, construct_, f"constructor not evaluable: {e}")
                continue
            f, out, it = call_cm(prog, c, "to_yaml", [Sym("REP"), o1])
            if out.kind != "return" or out.decisions or not (isinstance(out.value, Tagged) and out.value.name == "mapping"):
                ctx.decide("R19.1", f, out.node, construct_ + ":save", "saving produces a tagged mapping", False if (out.kind == "raise" and not out.decisions) else None, {"outcome": out.kind, "exc": out.exc, "value": repr(out.value)[:80]})
                continue
            tag, mapping = out.value.args
            ctx.decide("R19.1", f, out.node, construct_ + ":tag", "the mapping is tagged with the class name", tag == "!" + c.name, {"tag": repr(tag)}, nontrivial=False)
            f2, out2, it2 = call_cm(prog, c, "from_yaml", [Sym("CONS"), out.value])
            if out2.kind != "return" or out2.decisions or not isinstance(out2.value, Obj):
                ctx.decide("R19.1", f2, out2.node, construct_ + ":load", "the saved mapping loads (every key is a constructor parameter, nothing required is missing)", False if (out2.kind == "raise" and not out2.decisions) else None, {"outcome": out2.kind, "exc": out2.exc, "keys": sorted(map(str, mapping)) if isinstance(mapping, dict) else repr(mapping)})
                continue
            o2 = out2.value
            same = deep_eq(o1, o2)
            diff = None
            if not same:
                diff = [k for k in (set(o1.attrs) | set(o2.attrs)) & observable_attrs(c) if not deep_eq(o1.attrs.get(k), o2.attrs.get(k))]
            ctx.decide("R19.2", yr or f, (yr or f).node, construct_ + ":same-settings", "the loaded object has identical settings", same, {"differing_attributes": sorted(diff)} if diff else None)
            f3, out3, it3 = call_cm(prog, c, "to_yaml", [Sym("REP"), o2])
            ok3 = out3.kind == "return" and isinstance(out3.value, Tagged) and deep_eq(out3.value.args[1], mapping) and out3.value.args[0] == tag
            ctx.decide("R19.2", yr or f, (yr or f).node, construct_ + ":resave", "saving the loaded object reproduces the same mapping", ok3, {"first": repr(mapping)[:120], "second": repr(getattr(out3.value, 'args', None))[:120]} if not ok3 else None)
    if n_cls < 11:
        ctx.undecided("R19.1.floor", None, None, "floor:R19.1", f"{n_cls} serialisable classes round-tripped, confirmed floor is 11")


def enum_classes(prog) -> list[Class]:
    base = prog.cls("utils.constants:_Enum_Compare")
    return base.all_subclasses()


def check_enums(ctx: Ctx):
    prog = ctx.prog
    ms = metric_objs(prog)
    call_cm.metrics = ms
    n = 0
    for c in sorted(enum_classes(prog), key=lambda c: c.qual):
        members = list(c.class_assigns())
        for mname in members:
            if mname.startswith("_"):
                continue
            if c.name == "Metric":
                member = next((m for m in ms if m.attrs["_name_"] == mname), None)
                if member is None:
                    continue
            elif c.name == "InputType":
                mc = prog.resolve_class_expr(c.module, c.class_assigns()[mname])
                member = EnumSym(c, mname)
            else:
                member = EnumSym(c, mname)
            f, out, it = call_cm(prog, c, "to_yaml", [Sym("REP"), member])
            construct_ = f"{c.qual}.{mname}"
            if out.kind != "return" or not (isinstance(out.value, Tagged) and out.value.name == "scalar"):
                ctx.decide("R19.3", f, out.node, construct_ + ":save", "an enum member is saved as a tagged scalar", False if out.kind == "raise" else None, {"outcome": out.kind, "value": repr(out.value)[:80]})
                continue
            tag, val = out.value.args
            ctx.decide("R19.3", f, out.node, construct_ + ":save", "the scalar is '!<Enum>' + the member's name", tag == "!" + c.name and val == mname, {"tag": repr(tag), "value": repr(val)})
            f2, out2, it2 = call_cm(prog, c, "from_yaml", [Sym("CONS"), out.value])
            got = out2.value
            ok = out2.kind == "return" and (got is member or got == member)
            ctx.decide("R19.3", f2, out2.node, construct_ + ":load", "loading the scalar yields the member of that name", ok, {"got": repr(got)[:80]})
            n += 1
    if n < 20:
        ctx.undecided("R19.3.floor", None, None, "floor:R19.3", f"{n} enum members round-tripped, confirmed floor is 20")


def check_shipped(ctx: Ctx):
    """R19.4: compose (not construct) each shipped YAML file and compare with the class tables."""
    prog = ctx.prog
    try:
        from ruamel.yaml import YAML
        from ruamel.yaml.nodes import MappingNode, ScalarNode, SequenceNode
    except Exception as e:  # pragma: no cover
        ctx.undecided("R19.4", None, None, "shipped-yaml", f"ruamel.yaml not importable: {e}")
        return
    classes = {c.name: c for c in serialisable_classes(prog)}
    enums = {c.name: c for c in enum_classes(prog)}
    files = {p: s for p, s in prog.sources.items() if p.endswith((".yaml", ".yml")) and "/configs/" in p}
    n_nodes = 0
    for path, src in sorted(files.items()):
        y = YAML(typ="safe")
        try:
            root = y.compose(io.StringIO(src))
        except Exception as e:
            ctx.violated("R19.4", None, None, f"{path}", f"shipped configuration does not parse: {e}")
            continue

        def visit(node, where):
            nonlocal n_nodes
            tag = node.tag if isinstance(node.tag, str) else str(node.tag)
            if isinstance(node, MappingNode):
                if tag.startswith("!"):
                    n_nodes += 1
                    cname = tag[1:]
                    c = classes.get(cname)
                    if c is None:
                        ctx.violated("R19.4", None, None, f"{path}:{where}", f"tag {tag} names no serialisable class", None)
                    else:
                        init = c.lookup("__init__")
                        params = init.call_params if init else []
                        pn = {p.name for p in params}
                        keys = [k.value for k, v in node.value if isinstance(k, ScalarNode) and not str(k.tag).startswith("!")]
                        unknown = [k for k in keys if k not in pn]
                        missing = [p.name for p in params if p.default is None and p.kind == "pos" and p.name not in keys]
                        if unknown:
                            # keys the constructor does not name may still be what the class's own loader (or a
                            # wrapper of the constructor) accepts: its from_yaml is run on a mapping with these keys
                            try:
                                _, o_, _ = call_cm(prog, c, "from_yaml", [Sym("CONSTRUCTOR"), Tagged("mapping", [tag, {k: Sym("V_" + k) for k in keys}])])
                                if not (o_.kind == "raise" and o_.exc == "TypeError"):
                                    unknown = []
                            except (Undecided, AnchorMissing):
                                pass
                        ctx.decide("R19.4", init, None, f"{path}:{where}:{tag}", "mapping keys are constructor parameters of the tagged class and every required parameter is present", not unknown and not missing, {"unknown": unknown, "missing": missing}, nontrivial=False)
                for k, v in node.value:
                    visit(k, where + "/key")
                    visit(v, where + "/" + (k.value if isinstance(k, ScalarNode) else "?"))
            elif isinstance(node, SequenceNode):
                for i, v in enumerate(node.value):
                    visit(v, where + f"[{i}]")
            elif isinstance(node, ScalarNode):
                if tag.startswith("!") and not tag.startswith("!!"):
                    n_nodes += 1
                    c = enums.get(tag[1:])
                    if c is None:
                        ctx.violated("R19.4", None, None, f"{path}:{where}", f"scalar tag {tag} names no enum class", None)
                    else:
                        ctx.decide("R19.4", None, None, f"{path}:{where}:{tag} {node.value}", "tagged scalar names an existing member", node.value in c.class_assigns(), {"member": node.value}, nontrivial=False)

        visit(root, "")
    if len(files) < 5 or n_nodes < 100:
        ctx.undecided("R19.4.floor", None, None, "floor:R19.4", f"{len(files)} shipped files / {n_nodes} tagged nodes inspected (confirmed: 5 files, >= 100 nodes)")


def check_defaults_untouched(ctx: Ctx):
    """R19.5: interpreting constructors / from_yaml must not change shared default arguments."""
    prog = ctx.prog
    ech = prog.cls("utils.edge_case_handling:EdgeCaseHandler")
    init = ech.lookup("__init__")
    ms = metric_objs(prog)
    call_cm.metrics = ms
    # one interpreter root = one "process": defaults are shared inside it
    f = ech.lookup("from_yaml")
    names = [p.name for p in f.call_params]
    by = {m.attrs["_name_"]: m for m in ms}
    ecr = prog.cls("utils.edge_case_handling:EdgeCaseResult")
    mz = prog.cls("utils.edge_case_handling:MetricZeroTPEdgeCaseHandling")
    h = construct(prog, mz, {"default_result": EnumSym(ecr, "ONE")}, interp_cls=YamlInterp, metrics=ms)
    mapping = Tagged("mapping", ["!EdgeCaseHandler", {"listmetric_zeroTP_handling": {by["IOU"]: h}, "empty_list_std": EnumSym(ecr, "ZERO")}])
    it = YamlInterp(prog, f, dict(zip(names, [Sym("CONS"), mapping])), self_obj=ech)
    it.root.metrics = ms
    it.root.no_inline = set()
    # default as seen before the load
    o_before = Obj(ech, {})
    it.call_func(init, [], {}, None, self_obj=o_before)
    before = dict(o_before.attrs.get("_EdgeCaseHandler__listmetric_zeroTP_handling", {}))
    out = it.run()
    o_after = Obj(ech, {})
    it.call_func(init, [], {}, None, self_obj=o_after)
    after = o_after.attrs.get("_EdgeCaseHandler__listmetric_zeroTP_handling", {})
    same = isinstance(after, dict) and len(after) == len(before) and all(any(k is k2 and v is after[k2] for k2 in after) for k, v in before.items())
    ctx.decide("R19.5", f, f.node, f"{ech.qual}:defaults-after-load", "loading a handler does not change the default handler of later default-constructed objects", same, {"default_metrics_before": len(before), "after": len(after) if isinstance(after, dict) else repr(after)})
    loaded = out.value if out.kind == "return" else None
    if isinstance(loaded, Obj):
        got = loaded.attrs.get("_EdgeCaseHandler__listmetric_zeroTP_handling")
        ctx.decide("R19.2", f, f.node, f"{ech.qual}:partial-coverage", "a handler covering only some metrics loads with exactly those metrics", isinstance(got, dict) and len(got) == 1, {"metrics": len(got) if isinstance(got, dict) else repr(got)})


class _YamlV:
    """a ruamel YAML() object: its typ and the attributes set on it"""

    def __init__(self, typ):
        self.typ = typ
        self.attrs = {}


class _YM:
    def __init__(self, o, name):
        self.o, self.name = o, name


def check_save_writes(ctx: Ctx):
    """R19.6 (writes): after _save_yaml returns, the file at the given path holds the dump of the given
    object - whether the path did not exist or held an older configuration, whether it is given as str or
    Path - and no other file is left behind.  Run on the abstract file system: yaml.dump(data, target)
    puts the marker of `data` into the file `target` names (a path or an open handle); temporary files,
    os.replace / copies / unlinks are followed."""
    from ..absval import enumerate_paths
    from .fsrun import FS, FSInterp, FileH, PathV

    prog = ctx.prog
    f = prog.func("utils.config:_save_yaml")
    ps = [p.name for p in f.call_params]
    dp = next((n for n in ps if "data" in n.lower() or "obj" in n.lower()), None)
    fp = next((n for n in ps if "file" in n.lower() or "path" in n.lower()), None)
    cp = next((n for n in ps if "class" in n.lower()), None)
    if dp is None or fp is None:
        raise AnchorMissing(f"{f.qual}: parameters {ps}")
    DATA = Sym("ARG_data")

    class YamlFS(FSInterp):
        def external_call(self, name, args, kwargs, node):
            if name.split(".")[-1] == "YAML" and "yaml" in name.lower():
                return _YamlV(kwargs.get("typ", args[0] if args else "rt"))
            return super().external_call(name, args, kwargs, node)

        def get_attr(self, base, attr, node):
            if isinstance(base, _YamlV):
                if attr in ("load", "dump", "register_class"):
                    return _YM(base, attr)
                return base.attrs.get(attr, Sym(f"yaml.{attr}"))
            return super().get_attr(base, attr, node)

        def store_attr_hook(self, base, attr, v, node):
            if isinstance(base, (_YamlV, Sym)):
                if isinstance(base, _YamlV):
                    base.attrs[attr] = v
                return
            return super().store_attr_hook(base, attr, v, node)

        def apply(self, fv, args, kwargs, node):
            if isinstance(fv, _YM):
                if fv.name == "dump" and len(args) >= 2:
                    tgt = args[1]
                    path = tgt.path if isinstance(tgt, FileH) else tgt.s if isinstance(tgt, PathV) else tgt if isinstance(tgt, str) else None
                    if path is None or (isinstance(tgt, FileH) and tgt.mode[0] not in "wa"):
                        raise Undecided(f"yaml.dump into {tgt!r}")
                    self.root.fs.files[path] = [["<yaml>", repr(args[0])]]
                    return None
                if fv.name == "register_class" and args:
                    return args[0]
                return None
            return super().apply(fv, args, kwargs, node)

        def load_global(self, name, node):
            if name == "supported_helper_classes":
                return [Sym("HELPER_CLASS")]
            return super().load_global(name, node)

        def isinstance_hook(self, v, klass, node):
            if v is DATA:
                return True  # the object handed in is an instance of the class it is saved as
            return super().isinstance_hook(v, klass, node)

    n = 0
    for existing in (False, True):
        for as_str in (False, True):
            target = "/d/cfg.yaml"
            fss = []

            def make(prefix):
                fs = FS({target: [["<yaml>", "OLD"]]} if existing else {})
                fss.append(fs)
                args = {dp: DATA, fp: target if as_str else PathV(target)}
                if cp:
                    args[cp] = Sym("REGISTERED_CLASS")
                return YamlFS(prog, f, args, fs=fs, prefix=prefix)

            construct = f"{f.qual}:writes[target {'exists' if existing else 'absent'}, given as {'str' if as_str else 'Path'}]"
            try:
                outs = enumerate_paths(make, max_paths=32)
            except Undecided as e:
                ctx.undecided("R19.6", f, f.node, construct, f"not evaluable on the abstract file system: {e}")
                continue
            for out, fs in zip(outs, fss):
                if out.kind == "raise":
                    continue
                n += 1
                got = fs.files.get(target)
                left = sorted(k for k in fs.files if k != target)
                dtxt = "; ".join(f"{norm(nd) if isinstance(nd, ast.AST) else '?'}={d}" for nd, v, d in out.decisions)
                ctx.decide("R19.6", f, out.node or f.node, construct + (f"[{dtxt}]" if dtxt else ""), "after saving, the file at the given path holds the dump of the given object and nothing else is left behind", got == [["<yaml>", repr(DATA)]] and not left, {"file": repr(got), "other_files": left})
    if n < 4:
        ctx.undecided("R19.6.floor", None, None, "floor:R19.6w", f"{n} returning save paths evaluated, confirmed floor is 4")


def check_yaml_dialect(ctx: Ctx):
    """R19.6: the YAML object that dumps a configuration and the one that loads it are set up
    alike where that changes how scalars resolve: same `typ`, same `version` (YAML 1.1 reads
    yes/no/on/off/y/n as booleans, 1.2 - the dumper's default - writes them as plain strings).
    _load_yaml and _save_yaml are run abstractly (helpers inlined); the state of the YAML object
    at the load / dump call is compared."""
    from ..absval import Interp, enumerate_paths

    prog = ctx.prog

    class YamlInterp(Interp):
        def external_call(self, name, args, kwargs, node):
            if name.split(".")[-1] == "YAML" and "yaml" in name.lower():
                typ = kwargs.get("typ", args[0] if args else "rt")
                return _YamlV(typ)
            if name.endswith("Path"):
                return Sym("PATH")
            return super().external_call(name, args, kwargs, node)

        def get_attr(self, base, attr, node):
            if isinstance(base, _YamlV):
                if attr in ("load", "dump", "register_class"):
                    return _YM(base, attr)
                if attr in base.attrs:
                    return base.attrs[attr]
                return Sym(f"yaml.{attr}")
            return super().get_attr(base, attr, node)

        def store_attr_hook(self, base, attr, v, node):
            if isinstance(base, _YamlV):
                base.attrs[attr] = v
                return
            return super().store_attr_hook(base, attr, v, node)

        def apply(self, fv, args, kwargs, node):
            if isinstance(fv, _YM):
                if fv.name in ("load", "dump"):
                    self.root.yaml_calls.append((fv.name, fv.o.typ, fv.o.attrs.get("version", "default"), node, set(fv.o.attrs.get("_registered", ())), list(args)))
                    return Sym("DATA") if fv.name == "load" else None
                if fv.name == "register_class" and args:
                    fv.o.attrs.setdefault("_registered", set()).add(repr(args[0]))
                    return args[0]
                return None
            return super().apply(fv, args, kwargs, node)

        def load_global(self, name, node):
            if name == "supported_helper_classes":
                return [Sym("HELPER_CLASS")]  # whatever has been registered so far
            return super().load_global(name, node)

    states = {}
    for role, ref in (("load", "utils.config:_load_yaml"), ("dump", "utils.config:_save_yaml")):
        f = prog.func(ref)
        holder = []

        def make(prefix, f=f):
            args = {}
            for p in f.call_params:
                args[p.name] = Sym("REGISTERED_CLASS") if "class" in p.name else Sym("ARG_" + p.name)
            it = YamlInterp(prog, f, args, prefix=prefix)
            it.root.yaml_calls = []
            holder.append(it)
            return it

        try:
            outs = enumerate_paths(make, max_paths=32)
        except Undecided as e:
            ctx.undecided("R19.6", f, f.node, f"{f.qual}:yaml-object", f"not evaluable: {e}")
            return
        st = set()
        for out, it in zip(outs, holder):
            if out.kind == "raise":
                continue
            mine = [c for c in it.root.yaml_calls if c[0] == role]
            if role == "dump":
                # (where the dump ends up is decided on the abstract file system, check_save_writes)
                ctx.decide("R19.6", f, out.node or f.node, f"{f.qual}:dumps", "saving dumps the given object on every returning path", len(mine) >= 1 and all(c[5] and c[5][0] == Sym("ARG_data_dict") for c in mine), {"dump_calls": len(mine), "args": [repr(a) for c in mine for a in c[5]][:4]})
            for nm, typ, ver, node, reg, cargs in mine:
                st.add((repr(typ), repr(ver)))
                need = {repr(Sym("HELPER_CLASS")), repr(Sym("REGISTERED_CLASS"))}
                ctx.decide("R19.6", f, node, f"{f.qual}:registered-classes", f"the helper classes and the object's class are registered on the YAML object before {role}", need <= reg, {"registered": sorted(reg)})
        if not st:
            ctx.undecided("R19.6", f, f.node, f"{f.qual}:yaml-object", f"no yaml.{role}(...) call observed")
            return
        states[role] = (f, st)
    (fl, sl), (fd, sd) = states["load"], states["dump"]
    ctx.decide("R19.6", fl, fl.node, "yaml:dialect-agreement", "loader and dumper use the same YAML typ and version (scalars resolve alike on both sides)", sl == sd and len(sl) == 1, {"load (typ, version)": sorted(sl), "dump (typ, version)": sorted(sd)})


def check_config_names(ctx: Ctx):
    """R19.7: saving by name and loading by name meet at the same file, and different names never
    share one: the file name is the given name, with '.yaml' appended unless it already ends
    with it (nothing of the name is replaced).  config_dir_by_name is run on concrete names."""
    from .fsrun import FS, FSInterp, PathV

    prog = ctx.prog
    f = prog.func("utils.filepath:config_dir_by_name")
    p0 = f.call_params[0].name
    names = ["cfg", "cfg.yaml", "x.iou", "x.dsc", "v1.2", "v1.3", "run.final.yaml", "a.b.c"]
    got = {}
    for nm in names:
        it = FSInterp(prog, f, {p0: nm}, fs=FS({}))
        try:
            out = it.run()
        except Undecided as e:
            ctx.undecided("R19.7", f, f.node, f"{f.qual}:name={nm}", f"not evaluable: {e}")
            return
        if out.kind != "return" or out.decisions or not isinstance(out.value, tuple) or len(out.value) != 2:
            ctx.undecided("R19.7", f, out.node, f"{f.qual}:name={nm}", f"not evaluable: {out.kind} {out.exc}")
            return
        v = out.value[1]
        got[nm] = v.s if isinstance(v, PathV) else v
    want = {nm: nm if nm.endswith(".yaml") else nm + ".yaml" for nm in names}
    bad = {nm: got[nm] for nm in names if got[nm] != want[nm]}
    coll = [(a, b) for i, a in enumerate(names) for b in names[i + 1 :] if got[a] == got[b] and want[a] != want[b]]
    ctx.decide("R19.7", f, f.node, f"{f.qual}:file-names", "the file of a named configuration is <name> with '.yaml' appended if missing; distinct names give distinct files", not bad and not coll, {"unexpected": bad, "collisions": coll[:3]})


def check_set_order(ctx: Ctx):
    """R19.8: a setting a constructor stores must not get its order from iterating a set.  The
    iteration order of a set is not a function of its elements (colliding hashes are placed by
    insertion order), so `list(set(x))` kept as a setting makes save -> load -> save unstable.
    Accepted: sorted(set(x)), order-free uses (len, membership, set algebra)."""
    prog = ctx.prog
    n = 0
    for c in sorted(serialisable_classes(prog), key=lambda c: c.qual):
        for m in c.methods.values():
            if m.name not in ("__init__", "_yaml_repr"):
                continue
            n += 1

            def is_set_expr(e):
                if isinstance(e, (ast.Set, ast.SetComp)):
                    return True
                if isinstance(e, ast.Call) and isinstance(e.func, ast.Name) and e.func.id in ("set", "frozenset"):
                    return True
                if isinstance(e, ast.Name):
                    from .common import single_def

                    d = single_def(m, e.id)
                    return d is not None and d is not e and is_set_expr(d)
                return False

            for node in walk_no_nested(m.node):
                ordered = None
                if isinstance(node, ast.Call) and isinstance(node.func, ast.Name) and node.func.id in ("list", "tuple") and len(node.args) == 1 and is_set_expr(node.args[0]):
                    ordered = node
                elif isinstance(node, ast.ListComp) and len(node.generators) == 1 and is_set_expr(node.generators[0].iter):
                    ordered = node
                if ordered is not None:
                    ctx.violated("R19.8", m, ordered, f"{m.qual}:{norm(ordered)[:60]}", "a stored setting takes its order from iterating a set: the order depends on how the set was built, so the saved file is not reproduced by the loaded object", {"expression": norm(ordered)[:100]})
    if n < 8:
        ctx.undecided("R19.8.floor", None, None, "floor:R19.8", f"{n} constructors / _yaml_repr of serialisable classes inspected, confirmed floor is 8")
    else:
        ctx.ok("R19.8", None, None, "serialisable-classes:set-order", f"{n} constructors / _yaml_repr methods inspected: no sequence setting is ordered by set iteration", None, nontrivial=False)


def _run_rule(ctx, name, fn):
    """a sub-rule that cannot be evaluated is recorded as undecided; the remaining rules still run"""
    try:
        return fn(ctx)
    except (Undecided, AnchorMissing) as e:
        ctx.undecided(name, None, None, f"{name}:analysis", f"{type(e).__name__}: {e}")
        return 0


def check(ctx: Ctx):
    _run_rule(ctx, "check_set_order", check_set_order)
    _run_rule(ctx, "check_roundtrip", check_roundtrip)
    _run_rule(ctx, "check_enums", check_enums)
    _run_rule(ctx, "check_shipped", check_shipped)
    _run_rule(ctx, "check_defaults_untouched", check_defaults_untouched)
    for fn, rule in ((check_yaml_dialect, "R19.6"), (check_save_writes, "R19.6"), (check_config_names, "R19.7")):
        try:
            fn(ctx)
        except (Undecided, AnchorMissing) as e:
            ctx.undecided(rule, None, None, f"{rule}:{fn.__name__}", f"{type(e).__name__}: {e}")
    # R19.5b: serialised state is stable through use (a saved configuration of a used object equals
    # the one it was loaded from): configuration objects write their attributes only in __init__
    from . import c15

    _run_rule(ctx, "check_state_writers", c15.check_state_writers)
    # what is saved are the settings; what runs may be something bound from them when the object was built (R15.10)
    _run_rule(ctx, "R15.10", c15.check_derived_state)


_E = "panoptica/panoptica_evaluator.py"
_M = "panoptica/instance_matcher.py"
_C = "panoptica/utils/config.py"
_K = "panoptica/utils/constants.py"
_H = "panoptica/utils/edge_case_handling.py"
_L = "panoptica/utils/label_group.py"

VARIANTS = [
    Variant("C19-m-set-order", "R19", "mutant", [("panoptica/utils/label_group.py", "        value_labels = sorted(set(value_labels))\n", "        value_labels = list(set(value_labels))\n")]),
    Variant("C19-m-loader-yaml11", "R19.6", "mutant", [(_C, "    yaml = YAML(typ=\"safe\")\n    _register_helper_classes(yaml)\n    if registered_class is not None:\n        yaml.register_class(registered_class)\n    yaml.default_flow_style = None\n    data = yaml.load(file)", "    yaml = YAML(typ=\"safe\")\n    yaml.version = (1, 1)\n    _register_helper_classes(yaml)\n    if registered_class is not None:\n        yaml.register_class(registered_class)\n    yaml.default_flow_style = None\n    data = yaml.load(file)")], control=True),
    Variant("C19-m-loader-no-helpers", "R19.6", "mutant", [(_C, "    yaml = YAML(typ=\"safe\")\n    _register_helper_classes(yaml)\n    if registered_class is not None:\n        yaml.register_class(registered_class)\n    yaml.default_flow_style = None\n    data = yaml.load(file)", "    yaml = YAML(typ=\"safe\")\n    if registered_class is not None:\n        yaml.register_class(registered_class)\n    yaml.default_flow_style = None\n    data = yaml.load(file)")]),
    Variant("C19-m-name-with-suffix", "R19.7", "mutant", [("panoptica/utils/filepath.py", "    if not name.endswith(\".yaml\"):\n        name += \".yaml\"\n    return directory, name", "    name = str(Path(name).with_suffix(\".yaml\"))\n    return directory, name")]),
    Variant("C19-m-key-dropped", "R19.2", "mutant", [(_M, "            \"matching_threshold\": node._matching_threshold,\n            \"allow_many_to_one\": node._allow_many_to_one,", "            \"matching_threshold\": node._matching_threshold,")], control=True),
    Variant("C19-m-key-renamed", "R19.1", "mutant", [(_M, "            \"allow_many_to_one\": node._allow_many_to_one,", "            \"many_to_one\": node._allow_many_to_one,")]),
    Variant("C19-m-key-crossed", "R19.2", "mutant", [(_E, "            \"log_times\": node.__log_times,\n            \"verbose\": node.__verbose,", "            \"log_times\": node.__verbose,\n            \"verbose\": node.__log_times,")], control=True),
    Variant("C19-m-metrics-crossed", "R19.2", "mutant", [(_E, "            \"instance_metrics\": node.__eval_metrics,\n            \"global_metrics\": node.__global_metrics,", "            \"instance_metrics\": node.__global_metrics,\n            \"global_metrics\": node.__eval_metrics,")]),
    Variant("C19-m-falsy-filter", "R19.2", "mutant", [(_C, "        return representer.represent_mapping(\"!\" + cls.__name__, cls._yaml_repr(node))", "        return representer.represent_mapping(\"!\" + cls.__name__, {k: v for k, v in cls._yaml_repr(node).items() if v})")]),
    Variant("C19-m-enum-by-value", "R19.3", "mutant", [(_K, "        return cls[node.value]", "        return cls(node.value)")]),
    Variant("C19-m-enum-str", "R19.3", "mutant", [(_K, "        return representer.represent_scalar(\"!\" + cls.__name__, str(node.name))", "        return representer.represent_scalar(\"!\" + cls.__name__, str(node))")]),
    Variant("C19-m-edgecase-scenario-crossed", "R19.2", "mutant", [(_H, "            \"empty_prediction_result\": node._edgecase_dict[EdgeCaseZeroTP.EMPTY_PRED],\n            \"empty_reference_result\": node._edgecase_dict[EdgeCaseZeroTP.EMPTY_REF],", "            \"empty_prediction_result\": node._edgecase_dict[EdgeCaseZeroTP.EMPTY_REF],\n            \"empty_reference_result\": node._edgecase_dict[EdgeCaseZeroTP.EMPTY_PRED],")]),
    Variant("C19-m-shipped-unknown-key", "R19.4", "mutant", [("panoptica/configs/panoptica_evaluator_unmatched_instance.yaml", "log_times: true\n", "log_times: true\nlog_memory: true\n")]),
    Variant("C19-m-shipped-bad-member", "R19.4", "mutant", [("panoptica/configs/panoptica_evaluator_unmatched_instance.yaml", "expected_input: !InputType UNMATCHED_INSTANCE", "expected_input: !InputType UNMATCHED")]),
    Variant("C19-m-default-update", "R19.5", "mutant", [(_H, "    @property\n    def listmetric_zeroTP_handling(self):\n        return self.__listmetric_zeroTP_handling\n", "    @classmethod\n    def from_yaml(cls, constructor, node):\n        data = constructor.construct_mapping(node, deep=True)\n        handling = cls().listmetric_zeroTP_handling\n        handling.update(data.get(\"listmetric_zeroTP_handling\", {}))\n        return cls(listmetric_zeroTP_handling=handling, empty_list_std=data[\"empty_list_std\"])\n\n    @property\n    def listmetric_zeroTP_handling(self):\n        return self.__listmetric_zeroTP_handling\n")]),
    Variant("C19-t-dict-call", "R19.2", "twin", [(_M, "        return {\n            \"matching_metric\": node._matching_metric,\n            \"matching_threshold\": node._matching_threshold,\n        }", "        return dict(matching_threshold=node._matching_threshold, matching_metric=node._matching_metric)")]),
    Variant("C19-t-none-filter", "R19.2", "twin", [(_C, "        return representer.represent_mapping(\"!\" + cls.__name__, cls._yaml_repr(node))", "        return representer.represent_mapping(\"!\" + cls.__name__, {k: v for k, v in cls._yaml_repr(node).items()})")]),
]
