"""Abstract file system, paths, csv and locks for runs of the aggregator / statistics code.

File contents are lists of rows (lists of cells); paths are concrete representative strings;
every file-system operation is logged together with the set of locks held (LOCKSET) so that
the same runs serve the lock discipline (C16), the header/claim typestate and crash cut
points (C17), and the writer/reader agreement (C18, C20).
"""

from __future__ import annotations

import ast
import math
import posixpath
from typing import Any, Optional

from ..absval import BoundMethod, Interp, Obj, Outcome, RaiseSignal, Sym, Unknown, _Return, enumerate_paths
from ..model import AnchorMissing, Class, Func, Program, Undecided, dotted, norm
from .resultrun import ResultInterp, Tagged


class PathV:
    def __init__(self, s: str):
        self.s = s

    def __repr__(self):
        return f"Path({self.s!r})"

    def __eq__(self, o):
        return isinstance(o, PathV) and o.s == self.s

    def __hash__(self):
        return hash(("PathV", self.s))


class LockV:
    def __init__(self, name, kind):
        self.name = name
        self.kind = kind  # 'multiprocessing.Lock' ...

    def __repr__(self):
        return f"<lock {self.name}>"


class FileH:
    def __init__(self, path: str, mode: str, kwargs: dict):
        self.path = path
        self.mode = mode
        self.kwargs = kwargs
        self.closed = False
        self.pos = 0  # byte offset of a binary handle (shared by every copy of the handle, as after fork())
        self.inode = None


class TextBuf:
    """io.StringIO(text)"""

    def __init__(self, text: str, kwargs: dict):
        self.text = text
        self.kwargs = kwargs


def inode_of(fs, path):
    """identity of the file currently at `path` (a new one after remove + create)"""
    ino = fs.__dict__.setdefault("inodes", {})
    if path not in ino:
        fs.__dict__["_next_inode"] = fs.__dict__.get("_next_inode", 100) + 1
        ino[path] = fs.__dict__["_next_inode"]
    return ino[path]


class CsvR:
    """csv.reader: an iterator over the rows of the file (position kept between reads)"""

    def __init__(self, h: FileH, opts: dict):
        self.h = h
        self.opts = opts
        self.pos = 0


class MemRows:
    """csv.reader over a list of text lines: an iterator over the parsed rows"""

    def __init__(self, rows):
        self.rows = rows
        self.pos = 0


def render_text(fs, path) -> Optional[str]:
    """The exact text csv.writer produced for the rows of an abstract file (cells are concrete, so
    quoting of cells with the delimiter, quotes or line breaks is the real module's)."""
    import csv as _csv
    import io

    rows = fs.files.get(path, [])
    opts = dict(fs.__dict__.get("writer_opts", {}).get(path, {"delimiter": "\t", "lineterminator": "\n"}))
    buf = io.StringIO()
    try:
        w = _csv.writer(buf, **{k: v for k, v in opts.items() if isinstance(v, (str, int))})
        toks = fs.__dict__.setdefault("_sym_tokens", {})
        for r in rows:
            if r == ["<raw>"]:
                return None
            out = []
            for c in r:
                if isinstance(c, (str, int, float)) or c is None:
                    out.append(c)
                elif isinstance(c, Sym):
                    # a symbolic number: its text has no delimiter, quote or line break
                    tok = f"\u27eaS{len(toks) if repr(c) not in [repr(v) for v in toks.values()] else [k for k, v in toks.items() if repr(v) == repr(c)][0][2:-1]}\u27eb"
                    toks.setdefault(tok, c)
                    out.append(tok)
                else:
                    return None
            w.writerow(out)
    except Exception:
        return None
    return buf.getvalue()


class CsvW:
    def __init__(self, h: FileH, opts: dict):
        self.h = h
        self.opts = opts


class _Meth:
    def __init__(self, o, name):
        self.o = o
        self.name = name


class _OuterSignal(BaseException):
    """Control flow (return / break / continue) of a with-body travelling through the frames of
    the @contextmanager function that wraps it."""

    def __init__(self, inner):
        self.inner = inner


class ExitStackV:
    """contextlib.ExitStack: the context managers entered through it, released in reverse."""

    def __init__(self):
        self.entered = []


class CtxGen:
    """Call of a @contextmanager generator function, not started yet."""

    def __init__(self, func, args, kwargs):
        self.func = func
        self.args = args
        self.kwargs = kwargs


class FS:
    def __init__(self, files: Optional[dict] = None):
        self.files: dict[str, list] = {k: [list(r) for r in v] for k, v in (files or {}).items()}
        self.log: list = []  # (op, path, frozenset(lock names), detail)
        self.dirs = {"/d", "/"}

    def clone(self) -> "FS":
        f = FS(self.files)
        f.dirs = set(self.dirs)
        return f

    def snapshot(self):
        return {k: [list(r) for r in v] for k, v in self.files.items()}


def cell(v) -> Any:
    """What csv.writer writes for a value (as read back by csv.reader)."""
    if isinstance(v, bool):
        return str(v)
    if isinstance(v, int):
        return str(v)
    if isinstance(v, float):
        return repr(v)
    if v is None:
        return ""
    if isinstance(v, str):
        return v
    return v  # symbolic cell


class FSInterp(ResultInterp):
    max_depth = 12

    def __init__(self, *a, fs: Optional[FS] = None, **kw):
        super().__init__(*a, **kw)
        r = self.root
        r.fs = fs if fs is not None else FS()
        r.locks_held = []
        r.lock_objs = {}
        r.global_objs = {}
        r.lock_events = []
        r.acq_counter = 0
        r.acq_ids = {}
        r.late_locks = []
        r.atexit = []
        r.csv_sites = []
        r.open_sites = []

    # -- globals: locks are module-level objects with identity ------------------------------
    def load_global(self, name, node):
        r = self.prog.resolve_name(self.module, name)
        if isinstance(r, tuple) and r[0] == "global":
            _, m, n = r
            val = m.assigns[n]
            if isinstance(val, ast.Call):
                ext = self.prog.external_name(m, val.func)
                if ext and ext.split(".")[-1] in ("Lock", "RLock", "Semaphore"):
                    key = (m.name, n)
                    if key not in self.root.lock_objs:
                        self.root.lock_objs[key] = LockV(n, ext)
                    return self.root.lock_objs[key]
                # other module-level objects created by a call keep their identity
                key = (m.name, n)
                if key in self.root.lock_objs:
                    return self.root.lock_objs[key]
                rc = self.prog.resolve_dotted(m, val.func)
                if isinstance(rc, Class):
                    v = super().load_global(name, node)
                    if isinstance(v, Obj):
                        v.attrs.setdefault("_global_name", n)
                        self.root.lock_objs[key] = v
                    return v
        return super().load_global(name, node)

    def held(self):
        return frozenset(l.name for l in self.root.locks_held)

    def held_ids(self):
        return frozenset((l.name, self.root.acq_ids.get(id(l))) for l in self.root.locks_held)

    def fslog(self, op, path, detail=None):
        fs = self.root.fs
        snap = fs.snapshot() if op in ("append-row", "remove", "open-append", "open-truncate", "create", "raw-write") else None
        fs.log.append((op, path, self.held(), detail, self.held_ids(), snap))

    def _acquire(self, v, node, how):
        r = self.root
        if v in r.locks_held and not v.kind.endswith("RLock"):
            r.lock_events.append(("self-deadlock", v.name, self.held(), node))
            raise RaiseSignal("Deadlock", node, payload=v.name)
        r.lock_events.append((how, v.name, self.held(), node))
        r.acq_counter += 1
        r.acq_ids[id(v)] = r.acq_counter
        r.locks_held.append(v)

    # -- with: lock acquisition / release -----------------------------------------------------
    def call_func(self, f, args, kwargs, node, self_obj=None):
        if any(d.split(".")[-1] == "contextmanager" for d in f.decorators):
            return CtxGen(BoundMethod(f, self_obj) if self_obj is not None else f, list(args), dict(kwargs))
        return super().call_func(f, args, kwargs, node, self_obj=self_obj)

    def ev_Yield(self, e):
        stack = self.root.__dict__.setdefault("_ctx_stack", [])
        if stack and stack[-1]["func"] == self.func.qual and not stack[-1]["used"]:
            # the single yield of a @contextmanager function: the body of the with statement runs here
            entry = stack[-1]
            entry["used"] = True
            val = self.eval(e.value) if e.value is not None else None
            entry["body"](val)
            return None
        return super().ev_Yield(e)

    def _run_ctxgen(self, g: "CtxGen", st: ast.With, idx: int):
        """`with g as x: body`  ==  the generator function's statements with the with-body in place
        of its yield; an exception / return / continue of the body unwinds through the generator's
        own with/try statements (as contextlib re-raises it at the yield)."""
        f = g.func.func if isinstance(g.func, BoundMethod) else g.func
        outer = self

        def body(val):
            it = st.items[idx]
            if it.optional_vars is not None:
                outer.assign(it.optional_vars, val)
            try:
                outer._with_from(st, idx + 1)
            except RaiseSignal:
                raise
            except Undecided:
                raise
            except Exception as ex:  # _Return / _Break / _Continue of the enclosing function
                raise _OuterSignal(ex)

        stack = self.root.__dict__.setdefault("_ctx_stack", [])
        entry = {"func": f.qual, "used": False, "body": body}
        stack.append(entry)
        try:
            Interp.call_func(self, f, g.args, g.kwargs, st, self_obj=g.func.self_obj if isinstance(g.func, BoundMethod) else None)
        except _OuterSignal as sig:
            raise sig.inner
        finally:
            stack.remove(entry)
        if not entry["used"]:
            raise Undecided(f"context manager {f.qual} did not yield")

    def _with_from(self, st: ast.With, idx: int):
        """Execute `with items[idx:]: body`."""
        if idx >= len(st.items):
            self.exec_block(st.body)
            return
        it = st.items[idx]
        v = self.eval(it.context_expr)
        if isinstance(v, CtxGen):
            self._run_ctxgen(v, st, idx)
            return
        acquired = []
        try:
            if isinstance(v, LockV):
                self._acquire(v, st, "acquire")
                acquired.append(v)
            elif isinstance(v, ExitStackV):
                pass
            elif isinstance(v, Obj) and v.cls.lookup("__enter__") is not None:
                before = list(self.root.locks_held)
                n_new = len(self.root.__dict__.setdefault("created_locks", []))
                self.call_func(v.cls.lookup("__enter__"), [], {}, st, self_obj=v)
                for lk in self.root.locks_held:
                    if lk not in before:
                        lk.name = v.attrs.get("_global_name", lk.name)
                        acquired.append(lk)
                if len(self.root.created_locks) > n_new:
                    self.root.late_locks.append((v.attrs.get("_global_name", v.cls.name), st))
            if it.optional_vars is not None:
                self.assign(it.optional_vars, v)
            self._with_from(st, idx + 1)
        finally:
            if isinstance(v, ExitStackV):
                acquired = list(v.entered)
                v.entered = []
            for lk in reversed(acquired):
                if lk in self.root.locks_held:
                    self.root.locks_held.remove(lk)

    def exec_stmt(self, st):
        if isinstance(st, ast.With):
            self._tick()
            self._with_from(st, 0)
            return
        return super().exec_stmt(st)

    def _exec_stmt_old_with(self, st):
        if isinstance(st, ast.With):
            self._tick()
            acquired = []
            try:
                for it in st.items:
                    v = self.eval(it.context_expr)
                    if isinstance(v, LockV):
                        self._acquire(v, st, "acquire")
                        acquired.append(v)
                    elif isinstance(v, Obj) and v.cls.lookup("__enter__") is not None:
                        before = list(self.root.locks_held)
                        n_new = len(self.root.__dict__.setdefault("created_locks", []))
                        self.call_func(v.cls.lookup("__enter__"), [], {}, st, self_obj=v)
                        for lk in self.root.locks_held:
                            if lk not in before:
                                lk.name = v.attrs.get("_global_name", lk.name)
                                acquired.append(lk)
                        if len(self.root.created_locks) > n_new:
                            self.root.late_locks.append((v.attrs.get("_global_name", v.cls.name), st))
                    if it.optional_vars is not None:
                        self.assign(it.optional_vars, v)
                self.exec_block(st.body)
            finally:
                for v in reversed(acquired):
                    if v in self.root.locks_held:
                        self.root.locks_held.remove(v)
            return
        return super().exec_stmt(st)

    # -- attribute access --------------------------------------------------------------------
    def get_attr(self, base, attr, node):
        if isinstance(base, PathV):
            if attr == "parent":
                return PathV(posixpath.dirname(base.s) or "/")
            if attr == "name":
                return posixpath.basename(base.s)
            if attr == "stem":
                b = posixpath.basename(base.s)
                return b[: b.rindex(".")] if "." in b[1:] else b
            if attr == "suffix":
                b = posixpath.basename(base.s)
                return b[b.rindex(".") :] if "." in b[1:] else ""
            return _Meth(base, attr)
        if isinstance(base, (FileH, CsvR, CsvW, LockV, ExitStackV)):
            return _Meth(base, attr)
        if isinstance(base, Sym):
            n = base.name
            if n in ("ext:numpy",):
                if attr == "inf":
                    return float("inf")
                if attr == "nan":
                    return float("nan")
            if n == "ext:os" and attr == "name":
                return "posix"
        if isinstance(base, float) and attr in ("is_integer",):
            return _Meth(base, attr)
        return super().get_attr(base, attr, node)

    def apply(self, fv, args, kwargs, node):
        if isinstance(fv, _Meth):
            return self.meth(fv.o, fv.name, args, kwargs, node)
        return super().apply(fv, args, kwargs, node)

    def meth(self, o, name, args, kwargs, node):
        fs = self.root.fs
        if isinstance(o, PathV):
            if name == "exists":
                self.fslog("exists", o.s)
                return o.s in fs.files or o.s in fs.dirs
            if name == "is_file":
                self.fslog("exists", o.s)
                return o.s in fs.files
            if name == "joinpath":
                return PathV(posixpath.join(o.s, *[a.s if isinstance(a, PathV) else a for a in args]))
            if name == "mkdir":
                fs.dirs.add(o.s)
                return None
            if name in ("with_suffix",) and args and isinstance(args[0], str):
                b = o.s
                base = b[: b.rindex(".")] if "." in posixpath.basename(b)[1:] else b
                return PathV(base + args[0])
            if name in ("with_name",) and args and isinstance(args[0], str):
                return PathV(posixpath.join(posixpath.dirname(o.s), args[0]))
            if name == "unlink":
                if o.s in fs.files:
                    self.fslog("remove", o.s)
                    del fs.files[o.s]
                    fs.__dict__.setdefault("inodes", {}).pop(o.s, None)
                elif not kwargs.get("missing_ok", False):
                    raise RaiseSignal("FileNotFoundError", node)
                return None
            if name == "is_dir":
                return o.s in fs.dirs
            if name == "is_symlink":
                return False
            if name in ("replace", "rename") and args and isinstance(args[0], (str, PathV)):
                return self.external_call("os.replace", [o, args[0]], {}, node)
            if name == "touch":
                self.fslog("create", o.s)
                fs.files.setdefault(o.s, [])
                return None
            if name in ("resolve", "absolute", "expanduser"):
                return o
            if name == "open":
                return self.do_open(o.s, args[0] if args else kwargs.get("mode", "r"), kwargs, node)
            return Unknown(f"Path.{name}")
        if isinstance(o, FileH):
            if name == "close":
                o.closed = True
                return None
            if name in ("__enter__",):
                return o
            if name in ("write", "writelines"):
                self.fslog("raw-write", o.path, repr(args)[:60])
                fs.files.setdefault(o.path, []).append(["<raw>"])
                return None
            if "b" in str(o.mode) and name in ("seek", "tell", "fileno", "readall", "read"):
                if name == "fileno":
                    return Tagged("fd", [o])
                if name == "tell":
                    return o.pos
                if name == "seek" and args and isinstance(args[0], int) and (len(args) == 1 or args[1] == 0):
                    o.pos = args[0]
                    return o.pos
                if name == "seek" and len(args) == 2 and isinstance(args[0], int) and (args[1] == 2 or (isinstance(args[1], Sym) and args[1].name.endswith("SEEK_END"))):
                    txt = render_text(fs, o.path) if o.path in fs.files else ""
                    if txt is None:
                        return Unknown("seek from the end of an unrendered file")
                    o.pos = max(len(txt.encode("utf8")) + args[0], 0)
                    return o.pos
                if name == "read" and len(args) == 1 and isinstance(args[0], int) and not isinstance(args[0], bool) and args[0] >= 0:
                    self.fslog("raw-read", o.path)
                    if inode_of(fs, o.path) != o.inode or o.path not in fs.files:
                        return b""
                    txt = render_text(fs, o.path)
                    if txt is None:
                        return Unknown("raw read")
                    data = txt.encode("utf8")
                    out = data[o.pos : o.pos + args[0]]
                    o.pos = min(o.pos + args[0], max(o.pos, len(data)))
                    return out
                if name in ("readall", "read") and not args:
                    self.fslog("raw-read", o.path)
                    if inode_of(fs, o.path) != o.inode or o.path not in fs.files:
                        return b""  # the file this handle was opened on is gone: nothing more arrives
                    txt = render_text(fs, o.path)
                    if txt is None:
                        return Unknown("raw read")
                    data = txt.encode("utf8")
                    out = data[o.pos :]
                    o.pos = max(o.pos, len(data))
                    return out
                return Unknown(f"file.{name}")
            if name in ("read", "readlines") and not args and "r" in str(o.mode) and "b" not in str(o.mode):
                self.fslog("raw-read", o.path)
                txt = render_text(fs, o.path)
                if txt is not None:
                    fs.__dict__.setdefault("raw_reads", []).append((o.path, node, self.func.qual))
                    if o.kwargs.get("newline", None) is None:
                        txt = txt.replace("\r\n", "\n").replace("\r", "\n")  # universal newlines
                    self.root.__dict__["_last_raw_handle"] = o
                    return txt if name == "read" else txt.splitlines(keepends=True)
                return Unknown("raw read")
            if name in ("read", "readlines", "readline"):
                self.fslog("raw-read", o.path)
                return Unknown("raw read")
            return Unknown(f"file.{name}")
        if isinstance(o, CsvW):
            if name == "writerow":
                row = [cell(x) for x in (args[0] if args and isinstance(args[0], (list, tuple)) else [])]
                if o.h.mode[0] not in "aw":
                    raise RaiseSignal("UnsupportedOperation", node)
                self.fslog("append-row", o.h.path, row)
                fs.files.setdefault(o.h.path, []).append(row)
                fs.__dict__.setdefault("writer_opts", {})[o.h.path] = {k: v for k, v in o.opts.items() if isinstance(v, (str, int))}
                return None
            if name == "writerows":
                for r_ in args[0]:
                    self.meth(o, "writerow", [r_], {}, node)
                return None
        if isinstance(o, ExitStackV):
            if name == "enter_context" and len(args) == 1:
                cm = args[0]
                if isinstance(cm, LockV):
                    self._acquire(cm, node, "acquire")
                    o.entered.append(cm)
                    return cm
                raise Undecided("ExitStack.enter_context of an unmodelled context manager")
            if name == "close":
                for lk in reversed(o.entered):
                    if lk in self.root.locks_held:
                        self.root.locks_held.remove(lk)
                o.entered = []
                return None
            raise Undecided(f"ExitStack.{name}")
        if isinstance(o, LockV):
            if name == "acquire":
                self._acquire(o, node, "raw-acquire")
                return True
            if name == "release":
                self.root.lock_events.append(("raw-release", o.name, self.held(), node))
                if o in self.root.locks_held:
                    self.root.locks_held.remove(o)
                return None
        if isinstance(o, float) and name == "is_integer":
            return o.is_integer()
        return Unknown(f"{type(o).__name__}.{name}")

    def do_open(self, path, mode, kwargs, node):
        fs = self.root.fs
        if isinstance(path, PathV):
            path = path.s
        if not isinstance(path, str) or not isinstance(mode, str):
            return Unknown("open of abstract path")
        self.root.open_sites.append((node, mode, dict(kwargs), self.func.qual))
        if mode[0] == "r":
            self.fslog("open-read", path)
            if path not in fs.files:
                raise RaiseSignal("FileNotFoundError", node, payload=path)
        elif mode[0] == "a":
            self.fslog("open-append", path)
            fs.files.setdefault(path, [])
        elif mode[0] in "wx":
            self.fslog("open-truncate", path)
            fs.files[path] = []
        h = FileH(path, mode, kwargs)
        h.inode = inode_of(fs, path)
        return h

    _DIALECT_KEYS = ("delimiter", "quotechar", "doublequote", "skipinitialspace", "lineterminator", "quoting", "escapechar", "strict")

    def _dialect_options(self, d, node):
        import csv as _csv

        from ..model import Class as _Class

        def plain(v):
            if isinstance(v, Sym) and v.name.replace("ext:", "").startswith("csv.QUOTE_"):
                return getattr(_csv, v.name.split(".")[-1], None)
            return v

        if isinstance(d, str):
            try:
                real = _csv.get_dialect(d)
            except _csv.Error:
                return None
            return {k: getattr(real, k) for k in self._DIALECT_KEYS if getattr(real, k, None) is not None}
        cls = d if isinstance(d, _Class) else d.cls if isinstance(d, Obj) else None
        if cls is None:
            return None
        out = {}
        for k in self._DIALECT_KEYS:
            for c in cls.mro():
                ca = c.class_assigns().get(k)
                if ca is not None:
                    v = plain(self.eval_in_module(c.module, ca))
                    if v is not None:
                        out[k] = v
                    break
        return out

    def _csv_rows(self, rd) -> list:
        """The rows a csv.reader on this handle yields.  Cells without line-break characters come back as
        written; as soon as one has a carriage return or line feed the exact text (the real csv module's
        rendering) is translated as the handle's newline mode says and parsed by the real csv.reader."""
        fs = self.root.fs
        rows = [list(r) for r in fs.files.get(rd.h.path, [])]
        if not any(isinstance(c, str) and ("\r" in c or "\n" in c) for r in rows for c in r):
            if rd.opts.get("skipinitialspace"):
                # the reader drops the blanks that follow a delimiter: leading blanks of every cell are lost
                rows = [[c.lstrip(" ") if isinstance(c, str) else c for c in r] for r in rows]
            return rows
        txt = render_text(fs, rd.h.path)
        if txt is None:
            return rows
        if rd.h.kwargs.get("newline", None) is None:
            txt = txt.replace("\r\n", "\n").replace("\r", "\n")  # universal newlines
        import csv as _csv
        import io as _io

        toks = fs.__dict__.get("_sym_tokens", {})
        try:
            return [[toks.get(c, c) for c in r] for r in _csv.reader(_io.StringIO(txt, newline=""), **{k: v for k, v in rd.opts.items() if isinstance(v, (str, int))})]
        except _csv.Error:
            return rows

    def iterate(self, it, node):
        if isinstance(it, MemRows):
            rest = it.rows[it.pos :]
            it.pos = len(it.rows)
            return rest
        if isinstance(it, CsvR):
            self.fslog("read-rows", it.h.path)
            rows = self._csv_rows(it)
            rest = rows[it.pos :]
            it.pos = len(rows)
            return rest
        if isinstance(it, FileH) and "r" in str(it.mode) and it.path in self.root.fs.files:
            # the file is parsed by hand, line by line: recorded (the rows of the abstract file
            # system are csv rows; a hand parser sees their unquoted text only)
            self.root.fs.__dict__.setdefault("raw_reads", []).append((it.path, node, self.func.qual))
            self.fslog("read-rows", it.path)
            txt = render_text(self.root.fs, it.path)
            if txt is not None:
                return txt.splitlines(keepends=True)
            return ["\t".join(str(c) for c in r) + "\n" for r in self.root.fs.files.get(it.path, [])]
        return super().iterate(it, node)

    def isinstance_hook(self, v, klass, node):
        ks = klass if isinstance(klass, tuple) else (klass,)
        if isinstance(v, PathV):
            return any(isinstance(k, Sym) and k.name.split(".")[-1] in ("Path", "PurePath", "PosixPath", "PathLike") for k in ks)
        if isinstance(v, str) or isinstance(v, (int, float)):
            return False
        return super().isinstance_hook(v, klass, node)

    def call_builtin(self, name, args, kwargs, node):
        if name == "next" and 1 <= len(args) <= 2 and isinstance(args[0], MemRows):
            rd = args[0]
            if rd.pos < len(rd.rows):
                rd.pos += 1
                return list(rd.rows[rd.pos - 1])
            if len(args) == 2:
                return args[1]
            raise RaiseSignal("StopIteration", node)
        if name == "next" and 1 <= len(args) <= 2 and isinstance(args[0], CsvR):
            rd = args[0]
            rows = self._csv_rows(rd)
            self.fslog("read-rows", rd.h.path)
            if rd.pos < len(rows):
                rd.pos += 1
                return list(rows[rd.pos - 1])
            if len(args) == 2:
                return args[1]
            raise RaiseSignal("StopIteration", node)
        if name == "str" and args and isinstance(args[0], PathV):
            return args[0].s
        if name == "open":
            return self.do_open(args[0], args[1] if len(args) > 1 else kwargs.get("mode", "r"), {k: v for k, v in kwargs.items() if k != "mode"}, node)
        if name == "hash" and args:
            return Tagged("hash", [args[0]])
        if name == "float" and args and isinstance(args[0], str):
            try:
                return float(args[0])
            except ValueError:
                raise RaiseSignal("ValueError", node)
        if name == "float" and args and isinstance(args[0], float):
            return args[0]
        if name == "len" and args and isinstance(args[0], str):
            return len(args[0])
        if name in ("min", "max") and args and isinstance(args[0], (list, tuple)) and args[0] and all(isinstance(x, (int, float)) for x in args[0]):
            return (min if name == "min" else max)(args[0])
        return super().call_builtin(name, args, kwargs, node)

    def external_call(self, name, args, kwargs, node):
        fs = self.root.fs
        if name in ("pathlib.Path", "pathlib.PurePath", "pathlib.PosixPath"):
            a = args[0] if args else "."
            if isinstance(a, PathV):
                return a
            if isinstance(a, str):
                return PathV(a)
            return Unknown("Path of abstract value")
        if name == "csv.reader" and args and isinstance(args[0], (list, tuple)) and all(isinstance(x, str) for x in args[0]) and all(isinstance(v, (str, int)) for v in kwargs.values()):
            import csv as _csv

            h_ = self.root.__dict__.get("_last_raw_handle")
            if h_ is not None:
                self.root.csv_sites.append(("reader", dict(kwargs), node, self.func.qual, h_))
            try:
                toks = fs.__dict__.get("_sym_tokens", {})
                return MemRows([[toks.get(c, c) for c in r] for r in _csv.reader(list(args[0]), **kwargs)])
            except _csv.Error:
                raise RaiseSignal("Error", node)
        if name == "os.stat" and len(args) == 1 and isinstance(args[0], (str, PathV)) and not kwargs:
            import types

            pth = args[0].s if isinstance(args[0], PathV) else args[0]
            self.fslog("stat", pth)
            if pth not in fs.files:
                raise RaiseSignal("FileNotFoundError", node, payload=pth)
            txt = render_text(fs, pth)
            if txt is None:
                return Unknown("stat of a file with unmodelled content")
            return types.SimpleNamespace(st_size=len(txt.encode("utf8")), st_ino=inode_of(fs, pth))
        if name == "os.fstat" and len(args) == 1 and isinstance(args[0], Tagged) and args[0].name == "fd":
            import types

            h_ = args[0].args[0]
            same = inode_of(fs, h_.path) == h_.inode and h_.path in fs.files
            txt = render_text(fs, h_.path) if same else ""
            if txt is None:
                return Unknown("fstat of a file with unmodelled content")
            return types.SimpleNamespace(st_size=len(txt.encode("utf8")), st_ino=h_.inode)
        if name == "io.StringIO" and len(args) <= 1 and all(isinstance(v, (str, type(None))) for v in kwargs.values()) and (not args or isinstance(args[0], str)):
            return TextBuf(args[0] if args else "", dict(kwargs))
        if name == "csv.reader" and args and isinstance(args[0], TextBuf) and all(isinstance(v, (str, int)) for v in kwargs.values()):
            import csv as _csv
            import io as _io

            h_ = self.root.__dict__.get("_last_raw_handle")
            toks = fs.__dict__.get("_sym_tokens", {})
            try:
                return MemRows([[toks.get(c, c) for c in r] for r in _csv.reader(_io.StringIO(args[0].text, newline=args[0].kwargs.get("newline")), **kwargs)])
            except _csv.Error:
                raise RaiseSignal("Error", node)
        if name in ("csv.reader", "csv.writer") and args and isinstance(args[0], FileH) and ("dialect" in kwargs or len(args) == 2):
            # a dialect (class with the options as attributes, an instance of one, or a registered name) spelled out
            # as the keyword options it stands for; explicit keywords win
            d = kwargs.get("dialect", args[1] if len(args) == 2 else None)
            opts = self._dialect_options(d, node)
            if opts is None:
                return Unknown(f"{name} with an unmodelled dialect")
            kwargs = {**opts, **{k: v for k, v in kwargs.items() if k != "dialect"}}
            args = [args[0]]
        if name == "csv.reader" and args and isinstance(args[0], FileH):
            self.root.csv_sites.append(("reader", dict(kwargs), node, self.func.qual, args[0]))
            return CsvR(args[0], kwargs)
        if name == "csv.writer" and args and isinstance(args[0], FileH):
            self.root.csv_sites.append(("writer", dict(kwargs), node, self.func.qual, args[0]))
            return CsvW(args[0], kwargs)
        if name == "os.fspath" and len(args) == 1 and isinstance(args[0], (str, PathV)):
            return args[0].s if isinstance(args[0], PathV) else args[0]
        if name in ("os.remove", "os.unlink"):
            p = args[0].s if isinstance(args[0], PathV) else args[0]
            self.fslog("remove", p)
            if p in fs.files:
                del fs.files[p]
                fs.__dict__.setdefault("inodes", {}).pop(p, None)
                return None
            raise RaiseSignal("FileNotFoundError", node)
        if name in ("os.replace", "os.rename", "shutil.move") and len(args) == 2 and all(isinstance(a, (str, PathV)) for a in args):
            a, b = [x.s if isinstance(x, PathV) else x for x in args]
            if a not in fs.files:
                raise RaiseSignal("FileNotFoundError", node)
            self.fslog("rename", a, b)
            fs.files[b] = fs.files.pop(a)
            ino = fs.__dict__.setdefault("inodes", {})
            if a in ino:
                ino[b] = ino.pop(a)
            return None
        if name in ("shutil.copyfile", "shutil.copy", "shutil.copy2") and len(args) == 2 and all(isinstance(a, (str, PathV)) for a in args):
            a, b = [x.s if isinstance(x, PathV) else x for x in args]
            if a not in fs.files:
                raise RaiseSignal("FileNotFoundError", node)
            self.fslog("copy", a, b)
            fs.files[b] = [list(r) for r in fs.files[a]]
            return b
        if name in ("shutil.copymode", "shutil.copystat", "os.chmod", "os.utime"):
            return None  # permission bits / times: no content
        if name in ("os.path.realpath", "os.path.abspath", "os.path.normpath", "os.path.expanduser") and len(args) == 1 and isinstance(args[0], (str, PathV)):
            return args[0].s if isinstance(args[0], PathV) else args[0]
        if name == "os.access" and args and isinstance(args[0], (str, PathV)):
            return True  # the directories and files of the abstract file system are accessible
        if name == "os.getpid":
            return 4242
        if name == "os.path.isdir" and len(args) == 1 and isinstance(args[0], (str, PathV)):
            return (args[0].s if isinstance(args[0], PathV) else args[0]) in fs.dirs
        if name == "os.path.isfile" and len(args) == 1 and isinstance(args[0], (str, PathV)):
            return (args[0].s if isinstance(args[0], PathV) else args[0]) in fs.files
        if name == "os.path.exists":
            p = args[0].s if isinstance(args[0], PathV) else args[0]
            self.fslog("exists", p)
            return p in fs.files or p in fs.dirs
        if name == "atexit.register":
            self.root.atexit.append(args[0] if args else None)
            return None
        if name in ("numpy.isnan", "math.isnan") and args and isinstance(args[0], float):
            return math.isnan(args[0])
        if name in ("numpy.isinf", "math.isinf") and args and isinstance(args[0], float):
            return math.isinf(args[0])
        if name in ("numpy.isfinite", "math.isfinite") and args and isinstance(args[0], float):
            return math.isfinite(args[0])
        if name == "contextlib.ExitStack" and not args and not kwargs:
            return ExitStackV()
        if name in ("multiprocessing.Lock", "threading.Lock", "multiprocessing.RLock", "threading.RLock"):
            lk = LockV(f"local@{getattr(node, 'lineno', 0)}", name)
            self.root.__dict__.setdefault("created_locks", []).append((lk, self.func.qual, node))
            return lk
        return super().external_call(name, args, kwargs, node)

    def compare(self, op, l, r, node):
        if isinstance(l, float) and isinstance(r, float):
            return super().compare(op, l, r, node)
        if isinstance(l, PathV) and isinstance(r, PathV) and isinstance(op, (ast.Eq, ast.NotEq)):
            return (l.s == r.s) if isinstance(op, ast.Eq) else (l.s != r.s)
        # lock objects are compared by identity
        if isinstance(l, LockV) and isinstance(op, (ast.In, ast.NotIn)) and isinstance(r, (list, tuple, set)):
            res = any(x is l for x in r)
            return res if isinstance(op, ast.In) else not res
        if isinstance(l, LockV) and isinstance(r, LockV) and isinstance(op, (ast.Is, ast.IsNot, ast.Eq, ast.NotEq)):
            res = l is r
            return res if isinstance(op, (ast.Is, ast.Eq)) else not res
        return super().compare(op, l, r, node)

    def binop_hook(self, op, l, r, node):
        if isinstance(l, PathV) and isinstance(op, ast.Div) and isinstance(r, (str, PathV)):
            return PathV(posixpath.join(l.s, r.s if isinstance(r, PathV) else r))
        return super().binop_hook(op, l, r, node)
