"""C04 - relabelling after matching preserves both segmentations."""

from __future__ import annotations

import ast

from ..absval import Obj, Sym, Unknown, enumerate_paths
from ..linarith import constraint_slack, decide_leq, find_counterexample, prove_nonneg
from ..model import AnchorMissing, Func, Undecided, norm, walk_no_nested
from ..poly import Poly, to_poly
from ..report import Ctx
from ..symint import decide_cmp
from ..variants import Variant
from .common import labelmap_api
from .labelrun import CAP, LBLMAX, LUT, LV, RelabelInterp, VoxelArr, chains, dt_sym
from .resultrun import Tagged

INFO = {
    "explanation": "Delegated (round 4): R03.1/R03.4 - the label map the relabelling applies holds only overlapping (ref > 0, pred > 0) pairs that met the threshold. map_instance_labels (with _map_labels and _get_smallest_fitting_uint inlined) is run symbolically for every input dtype in {uint8,16,32,64} and every voxel class of the prediction (background, matched predictions incl. two predictions of one reference, unmatched predictions): labels are exact polynomials in strictly increasing chains, the matcher's label map is {P2->R1, P3->R1, P5->R3}. Decided: (R04.1) the reference array reaches the result unchanged (same voxel value, widened at most); (R04.2/R04.5) background stays background, a matched prediction receives exactly its reference's label, every unmatched prediction receives a label provably greater than every reference label and provably different from the other fresh labels; (R04.3) the lookup table is indexed within its size; (R04.4) every value stored or cast into an integer container provably fits it under the path and domain constraints (labels <= dtype maximum for uint8/16, < 2^24 otherwise; any number of instances), otherwise a concrete witness valuation is reported; prediction and reference leave with the same dtype; (R04.6) no chained in-place relabelling. Delegated (anchored here as well): capacity table of the dtype selector (R05.4) and dtype/count plumbing of the approximator (R05.1-R05.3). Further delegated: R09.6 (the label tuples the relabelling starts from are the values present), R15.8 (relabelling never writes into its input arrays). Thorough tier: five (n_ref, n_pred, matching) configurations instead of one. Round 7: symbolic label vectors (zeros, element / masked stores with dtype-fit events, arange(a, b), isin, elementwise comparison, boolean selection) and position-wise equality of label sequences.",
    "trusted_base": ["numpy: fancy indexing table[arr], np.arange, np.array(list, dtype=...) wrap silently when a value exceeds the dtype (numpy 1.x)", "Python semantics of the modelled AST subset"],
    "assumptions": ["labels are within the property's stated domain; the matcher's label map maps prediction labels to reference labels"],
    "not_decided": ["numpy's implementation of unique / fancy indexing"],
}

MATCH = {2: 1, 3: 1, 5: 3}  # prediction index -> reference index (1-based chains)
VOXELS = ["0", "P1", "P2", "P3", "P4", "P5"]
# (n_ref, n_pred, matching): the quick tier analyses the first; the thorough tier all of them
CONFIGS = [
    (3, 5, {2: 1, 3: 1, 5: 3}),  # many-to-one, unmatched first/middle prediction, unmatched reference R2
    (3, 5, {}),  # nothing matched: every prediction gets a fresh label
    (3, 3, {1: 3, 2: 2, 3: 1}),  # everything matched, order reversed: no fresh label at all
    (1, 1, {}),  # the smallest pair
    (2, 4, {4: 2}),  # only the last prediction matched
]


def infeasible(slacks) -> bool:
    for i, s in enumerate(slacks):
        others = slacks[:i] + slacks[i + 1 :]
        if prove_nonneg(-to_poly(s) - Poly.const(1), others):
            return True
    return False


def setup(prog, IN: str, voxel: str, cfg=None):
    n_ref, n_pred, MATCH = cfg or CONFIGS[0]
    refs, preds = chains(n_ref, n_pred)
    m, pmax = refs[-1], preds[-1]
    L = LBLMAX[IN]
    domain = [Poly.const(L) - m, Poly.const(L) - pmax]
    vval = Poly() if voxel == "0" else preds[int(voxel[1:]) - 1]
    ucls = prog.cls("utils.processing_pair:UnmatchedInstancePair")
    lmcls = prog.cls("utils.instancelabelmap:InstanceLabelMap")
    pred_arr = VoxelArr("PRED", vval, IN, pmax)
    ref_arr = VoxelArr("REF", refs[min(1, n_ref - 1)], IN, m)
    pair = Obj(ucls, {
        "_prediction_arr": pred_arr,
        "_reference_arr": ref_arr,
        "_ref_labels": tuple(LV(r, IN, "nps") for r in refs),
        "_pred_labels": tuple(LV(p, IN, "nps") for p in preds),
        "n_prediction_instance": n_pred,
        "n_reference_instance": n_ref,
    })
    lm = Obj(lmcls, {labelmap_api(prog)["dict_attr"]: {LV(preds[p - 1]): LV(refs[r - 1]) for p, r in MATCH.items()}})
    return refs, preds, domain, pair, lm, pred_arr, ref_arr


def run_relabel(ctx: Ctx, IN: str, voxel: str, cfg=None):
    prog = ctx.prog
    f = prog.func("instance_matcher:map_instance_labels")
    mcls = prog.cls("utils.processing_pair:MatchedInstancePair")
    minit = mcls.lookup("__init__")
    holder = []

    def make(prefix):
        refs, preds, domain, pair, lm, pa, ra = setup(prog, IN, voxel, cfg)
        args = {}
        for p in f.call_params:
            n = p.name.lower()
            if "pair" in n:
                args[p.name] = pair
            elif "labelmap" in n or "map" in n:
                args[p.name] = lm
        if len(args) != 2:
            raise AnchorMissing(f"{f.qual}: parameters not recognised as (pair, labelmap)")
        it = RelabelInterp(prog, f, args, prefix=prefix)
        it.root.no_inline = {minit.qual}
        it.root.domain_slacks = domain
        holder.append((it, refs, preds, domain, pa, ra))
        return it

    try:
        outs = enumerate_paths(make, max_paths=96)
    except Undecided as e:
        ctx.undecided("R04.2", f, f.node, f"{f.qual}:dtype={IN},voxel={voxel}", f"relabelling not evaluable: {e}")
        return f, []
    return f, list(zip(outs, holder))


def check_relabel(ctx: Ctx):
    n_paths = 0
    f = None
    cfgs = CONFIGS if ctx.tier == "thorough" else CONFIGS[:1]
    for ci, IN, voxel in [(ci, IN, v) for ci in range(len(cfgs)) for IN in ("u8", "u16", "u32", "u64") for v in ["0"] + [f"P{k}" for k in range(1, cfgs[ci][1] + 1)]]:
        if True:
            cfg = cfgs[ci]
            MATCH = cfg[2]
            f, runs = run_relabel(ctx, IN, voxel, cfg)
            for out, (it, refs, preds, domain, pa, ra) in runs:
                slacks = list(domain)
                opaque = False
                for node, v, d in out.decisions:
                    pv = getattr(v, "pv", None)
                    if pv and len(pv) == 3:
                        slacks += constraint_slack(pv[0], pv[1], pv[2], d)
                    else:
                        opaque = True
                if infeasible(slacks):
                    continue
                n_paths += 1
                dtxt = "; ".join(f"{norm(nd) if isinstance(nd, ast.AST) else '?'}={d}" for nd, v, d in out.decisions)
                base = f"{f.qual}:dtype={IN},voxel={voxel}" + (f",config={ci}" if ci else "")
                construct = base + (f"[{dtxt}]" if dtxt else "")
                m = refs[-1]
                if out.kind == "raise":
                    w = find_counterexample(Poly.const(-1), slacks)
                    if w is not None and not opaque:
                        ctx.violated("R04.2", f, out.node, construct, f"relabelling raises {out.exc} for a valid label map", {"valuation": _show(w, refs, preds)})
                    else:
                        ctx.undecided("R04.2", f, out.node, construct, f"relabelling may raise {out.exc}")
                    continue
                v = out.value
                kw = None
                if isinstance(v, Tagged) and v.name.endswith("MatchedInstancePair"):
                    kw = dict(v.kwargs)
                    names = [p.name for p in ctx.prog.cls("utils.processing_pair:MatchedInstancePair").lookup("__init__").call_params]
                    for i, a in enumerate(v.args):
                        kw[names[i]] = a
                if kw is None:
                    ctx.undecided("R04.1", f, out.node, construct, f"result is not a MatchedInstancePair construction: {v!r}")
                    continue
                po, ro = kw.get("prediction_arr"), kw.get("reference_arr")
                # R04.1 reference unchanged
                ok_ref = isinstance(ro, VoxelArr) and ro.side == "REF" and ro.value == ra.value
                ctx.decide("R04.1", f, out.node, construct + ":reference", "reference voxels reach the result unchanged", ok_ref if isinstance(ro, VoxelArr) else None, {"got": repr(ro)}, nontrivial=False)
                if not isinstance(po, VoxelArr):
                    ctx.undecided("R04.2", f, out.node, construct, f"prediction output not modelled: {po!r}")
                    continue
                ctx.decide("R04.4", f, out.node, construct + ":same-dtype", "prediction and reference leave with the same dtype", (po.cont == ro.cont) if isinstance(ro, VoxelArr) else None, {"prediction": po.cont, "reference": getattr(ro, "cont", None)}, nontrivial=False)
                # R04.2 / R04.5 voxel semantics
                if voxel == "0":
                    ctx.decide("R04.2", f, out.node, construct + ":background", "background stays background", po.value.is_zero(), {"got": repr(po.value)})
                else:
                    k = int(voxel[1:])
                    if k in MATCH:
                        want = refs[MATCH[k] - 1]
                        ctx.decide("R04.5", f, out.node, construct + ":matched", f"matched prediction P{k} carries exactly the label of its reference R{MATCH[k]}", po.value == want, {"got": repr(po.value), "want": repr(want)})
                    else:
                        # fresh: provably above every reference label
                        t = po.value - m - Poly.const(1)
                        if prove_nonneg(t, slacks):
                            ctx.ok("R04.2", f, out.node, construct + ":fresh", f"unmatched prediction P{k} receives a label above every reference label", {"label": repr(po.value)})
                        else:
                            w = find_counterexample(t, slacks)
                            if w is not None and not opaque:
                                ctx.violated("R04.2", f, out.node, construct + ":fresh", f"unmatched prediction P{k} can receive a label that is not above every reference label (collides with a reference / matched label)", {"label": repr(po.value), "valuation": _show(w, refs, preds)})
                            else:
                                ctx.undecided("R04.2", f, out.node, construct + ":fresh", "freshness of the label not decided", {"label": repr(po.value)})
                        it.root.__dict__.setdefault("fresh_out", {})
                        ctx.notes.append((f"{IN}" + (f",config={ci}" if ci else ""), k, dtxt, po.value))
                # R04.4 containers
                seen = set()
                for evn in it.root.events:
                    key = (evn.what, repr(evn.value), evn.cont)
                    if key in seen:
                        continue
                    seen.add(key)
                    ok, w = decide_leq(evn.value, CAP[evn.cont], slacks)
                    c2 = f"{base}:{evn.what}:{evn.cont}"
                    if ok is True:
                        ctx.ok("R04.4", f, evn.node, c2, f"{evn.what} fits {evn.cont} (value {evn.value!r} <= {CAP[evn.cont]})", None)
                    elif ok is False and not opaque:
                        ctx.violated("R04.4", f, evn.node, c2, f"{evn.what} does not fit {evn.cont}: value {evn.value!r} can exceed {CAP[evn.cont]} and wraps around", {"valuation": _show(w, refs, preds), "path": dtxt})
                    else:
                        ctx.undecided("R04.4", f, evn.node, c2, f"could not decide whether {evn.value!r} <= {CAP[evn.cont]}", {"path": dtxt})
                # output container holds the output value
                ok, w = decide_leq(po.value, CAP.get(po.cont, 0), slacks)
                if ok is False and not opaque:
                    ctx.violated("R04.4", f, out.node, base + ":output", f"relabelled prediction does not fit its dtype {po.cont}", {"valuation": _show(w, refs, preds)})
                # R04.3 index bounds
                for node, val, size, what in it.root.index_checks:
                    if "?amax" in val.variables():
                        continue
                    t = size - val - Poly.const(1)
                    if prove_nonneg(t, slacks):
                        ctx.ok("R04.3", f, node, f"{base}:index:{what}", f"{what}", None, nontrivial=False)
                    else:
                        w = find_counterexample(t, slacks)
                        if w is not None and not opaque:
                            ctx.violated("R04.3", f, node, f"{base}:index:{what}", f"lookup table too short: {what} fails", {"valuation": _show(w, refs, preds)})
                        else:
                            ctx.undecided("R04.3", f, node, f"{base}:index:{what}", "table bound not decided")
    # distinctness of the fresh labels among each other (same dtype, same path text)
    by = {}
    for IN, k, dtxt, val in ctx.notes:
        by.setdefault((IN, dtxt), {})[k] = val
    for (IN, dtxt), d in by.items():
        ks = sorted(d)
        for i in range(len(ks)):
            for j in range(i + 1, len(ks)):
                a, b = d[ks[i]], d[ks[j]]
                t, _ = decide_cmp("!=", a, b, True)
                construct = f"instance_matcher:map_instance_labels:dtype={IN}:fresh-distinct(P{ks[i]},P{ks[j]})" + (f"[{dtxt}]" if dtxt else "")
                if t is True:
                    ctx.ok("R04.2", f, None, construct, "two unmatched predictions receive different labels", {"labels": [repr(a), repr(b)]})
                else:
                    ctx.violated("R04.2", f, None, construct, "two unmatched predictions can receive the same label (instances merged)", {"labels": [repr(a), repr(b)]})
    ctx.notes.clear()
    if n_paths < 24:
        ctx.undecided("R04.floor", f, None, "floor:R04", f"only {n_paths} feasible (dtype, voxel, path) runs evaluated, confirmed floor is 24")


def _show(w, refs, preds):
    if not w:
        return w
    from ..symint import evaluate

    out = {f"R{i + 1}": int(evaluate(r, w)) for i, r in enumerate(refs)}
    out.update({f"P{i + 1}": int(evaluate(p, w)) for i, p in enumerate(preds)})
    return out


def check_chained_replacement(ctx: Ctx):
    """R04.6 [N]: sequential in-place replacement  out[out == old] = new  inside a loop over
    the label map chains: a voxel relabelled to `new` is relabelled again when `new` is a later
    `old`.  Comparing against the *unmodified* input (out[arr == old] = new) is fine."""
    prog = ctx.prog
    for q in ("_functionals:_map_labels", "instance_matcher:map_instance_labels"):
        f = prog.func(q)
        found = False
        for loop in [n for n in walk_no_nested(f.node) if isinstance(n, ast.For)]:
            for st in ast.walk(loop):
                if isinstance(st, ast.Assign) and len(st.targets) == 1 and isinstance(st.targets[0], ast.Subscript):
                    t = st.targets[0]
                    if isinstance(t.value, ast.Name) and isinstance(t.slice, ast.Compare) and isinstance(t.slice.left, ast.Name) and t.slice.left.id == t.value.id and isinstance(t.slice.ops[0], ast.Eq):
                        found = True
                        ctx.violated("R04.6", f, st, f"{f.qual}:chained-replacement", "labels are replaced one by one in place while comparing against the array being written: a label assigned earlier is replaced again when it equals a later key (predictions merged / wrong label)", {"stmt": norm(st)})
        if not found:
            ctx.ok("R04.6", f, f.node, f"{f.qual}:chained-replacement", "no in-place sequential relabelling against the array being written", None, nontrivial=False)


def _run_rule(ctx, name, fn):
    """a sub-rule that cannot be evaluated is recorded as undecided; the remaining rules still run"""
    try:
        return fn(ctx)
    except (Undecided, AnchorMissing) as e:
        ctx.undecided(name, None, None, f"{name}:analysis", f"{type(e).__name__}: {e}")
        return 0


def check(ctx: Ctx):
    # instance counts and label tuples come from the label enumeration helpers (R09.6)
    from . import c03 as _c03e
    from .labelenum import check_label_enumeration as _cle

    _c03e._guarded(ctx, "R09.6", _cle)
    _run_rule(ctx, "check_chained_replacement", check_chained_replacement)
    _run_rule(ctx, "check_relabel", check_relabel)
    # dtype chosen after approximation (anchored in C04 as well): selector capacity + plumbing
    from . import c03, c05

    c03._guarded(ctx, "R05.4", c05.fitting_uint_table)
    c03._guarded(ctx, "R05.1", c05.check_dispatch)
    c03._guarded(ctx, "R05.2", c05.check_library_calls)
    # results of later evaluations (another group, a flipped copy, the exchanged pair, a second
    # threshold) are only meaningful if no step writes into the caller's arrays (R15.8)
    from . import c15 as _c15
    from . import c03 as _c03

    _c03._guarded(ctx, "R15.8", _c15.check_param_aliasing)
    # "the foreground is kept": the label map only maps predictions to labels of reference instances
    # they overlap - the candidate pairs are exactly the overlapping (ref > 0, pred > 0) pairs (R03.1);
    # a pair with reference label 0 relabels an instance to background
    _c03._guarded(ctx, "R03.1", _c03.check_codec)
    _c03._guarded(ctx, "R03.4", _c03.check_naive)


_M = "panoptica/instance_matcher.py"
_F = "panoptica/_functionals.py"
_WIDEN = """    reference_arr = processing_pair._reference_arr
    required_dtype = _get_smallest_fitting_uint(label_counter)
    if np.iinfo(required_dtype).max > np.iinfo(prediction_arr.dtype).max:
        prediction_arr = prediction_arr.astype(required_dtype)
        reference_arr = reference_arr.astype(required_dtype)
"""

VARIANTS = [
    Variant("C04-m-d5", "R04.4", "mutant", [(_M, _WIDEN, "    reference_arr = processing_pair._reference_arr\n")], control=True, note="defect D5 of the original tree"),
    Variant("C04-m-cast-unconditional", "R04.4", "mutant", [(_M, "    if np.iinfo(required_dtype).max > np.iinfo(prediction_arr.dtype).max:\n        prediction_arr = prediction_arr.astype(required_dtype)\n        reference_arr = reference_arr.astype(required_dtype)\n", "    prediction_arr = prediction_arr.astype(required_dtype)\n    reference_arr = reference_arr.astype(required_dtype)\n")]),
    Variant("C04-m-cast-pred-only", "R04.4", "mutant", [(_M, "        prediction_arr = prediction_arr.astype(required_dtype)\n        reference_arr = reference_arr.astype(required_dtype)\n", "        prediction_arr = prediction_arr.astype(required_dtype)\n")]),
    Variant("C04-m-counter-from-max", "R04.2", "mutant", [(_M, "    label_counter = int(max(ref_labels) + 1)", "    label_counter = int(max(ref_labels))")], control=True),
    Variant("C04-m-counter-no-increment", "R04.2", "mutant", [(_M, "        pred_labelmap[p] = label_counter\n        label_counter += 1\n", "        pred_labelmap[p] = label_counter\n")]),
    Variant("C04-m-keep-free-label", "R04.2", "mutant", [(_M, "        pred_labelmap[p] = label_counter\n        label_counter += 1\n", "        if p in ref_labels:\n            pred_labelmap[p] = label_counter\n            label_counter += 1\n        else:\n            pred_labelmap[p] = int(p)\n")]),
    Variant("C04-m-ref-replaced", "R04.1", "mutant", [(_M, "        prediction_arr=prediction_arr_relabeled,\n        reference_arr=reference_arr,\n    )\n    return matched_instance_pair", "        prediction_arr=prediction_arr_relabeled,\n        reference_arr=prediction_arr,\n    )\n    return matched_instance_pair")]),
    Variant("C04-m-table-short", "R04.3", "mutant", [(_F, "    max_value = max(arr.max(), max(k), max(v)) + 1\n", "    max_value = max(arr.max(), max(k), max(v))\n")]),
    Variant("C04-m-kv-swapped", "R04.5", "mutant", [(_F, "    mapping_ar[k] = v\n", "    mapping_ar[v] = k\n")]),
    Variant("C04-m-chained", "R04.6", "mutant", [(_F, "    mapping_ar = np.arange(max_value, dtype=arr.dtype)\n", "    if max_value > arr.size:\n        out = arr.copy()\n        for old, new in zip(k, v):\n            if old != new:\n                out[out == old] = new\n        return out\n    mapping_ar = np.arange(max_value, dtype=arr.dtype)\n")]),
    Variant("C04-t-widen-ge-guard", "R04.4", "twin", [(_M, "    if np.iinfo(required_dtype).max > np.iinfo(prediction_arr.dtype).max:", "    if not (np.iinfo(required_dtype).max <= np.iinfo(prediction_arr.dtype).max):")]),
    Variant("C04-t-table-uint64", "R04.4", "twin", [(_F, "    k = np.array(list(label_map.keys()), dtype=arr.dtype)\n    v = np.array(list(label_map.values()), dtype=arr.dtype)\n", "    k = np.array(list(label_map.keys()), dtype=np.uint64)\n    v = np.array(list(label_map.values()), dtype=arr.dtype)\n")]),
    Variant("C04-t-counter-plus2", "R04.2", "twin", [(_M, "    label_counter = int(max(ref_labels) + 1)", "    label_counter = int(max(ref_labels)) + 2")]),
]
