"""Abstract runs of the edge-case handler, Evaluation_List_Metric and PanopticaResult.

Objects are built by abstractly running the real constructors on symbolic arguments, so the
checks see what the code does with them, not what their names suggest.
"""

from __future__ import annotations

import ast
from typing import Any, Optional

from ..absval import Vec, BoundMethod, Interp, Obj, Outcome, Sym, Unknown, enumerate_paths
from ..model import AnchorMissing, Class, Func, Program, Undecided, norm, walk_no_nested
from .common import make_metric_objs, metric_enum_class, metric_registry

SCENARIOS = ["NO_INSTANCES", "EMPTY_PRED", "EMPTY_REF", "NORMAL"]
PARAM_OF_SCENARIO = {
    "NO_INSTANCES": "no_instances_result",
    "EMPTY_PRED": "empty_prediction_result",
    "EMPTY_REF": "empty_reference_result",
    "NORMAL": "normal",
}


def scenario_of(tp: int, n_pred: int, n_ref: int) -> Optional[str]:
    if tp != 0:
        return None
    if n_pred == 0 and n_ref == 0:
        return "NO_INSTANCES"
    if n_ref == 0:
        return "EMPTY_REF"
    if n_pred == 0:
        return "EMPTY_PRED"
    return "NORMAL"


class Tagged:
    """Result of an external reducer / call: name + arguments, compared structurally."""

    def __init__(self, name, args=(), kwargs=None):
        self.name = name
        self.args = tuple(args)
        self.kwargs = dict(kwargs or {})

    def __eq__(self, o):
        return isinstance(o, Tagged) and (self.name, self.args, sorted(self.kwargs.items(), key=str)) == (o.name, o.args, sorted(o.kwargs.items(), key=str))

    def __hash__(self):
        return hash((self.name, len(self.args)))

    def __repr__(self):
        kw = "".join(f", {k}={v!r}" for k, v in self.kwargs.items())
        return f"{self.name}({', '.join(map(repr, self.args))}{kw})"


class _FluentM:
    def __init__(self, obj, method):
        self.obj, self.method = obj, method


class ResultInterp(Interp):
    """Interp specialised for the result/edge-case classes."""

    max_depth = 10

    def __init__(self, prog, func, args, metrics=None, **kw):
        super().__init__(prog, func, args, **kw)
        self.root.metrics = metrics or []  # list of Metric member Obj
        self.root.kernel_calls = []
        self.root.ext_calls = []
        self.root.no_inline = set()

    def should_inline(self, f: Func) -> bool:
        return f.qual not in self.root.no_inline

    def class_member(self, cls: Class, attr: str, node):
        if cls.name == "Metric":
            for m in getattr(self.root, "metrics", []):
                if m.attrs.get("_name_") == attr:
                    return m
        return super().class_member(cls, attr, node)

    def iterate_class(self, cls, node):
        if cls.name == "Metric":
            return list(getattr(self.root, "metrics", []))
        return super().iterate_class(cls, node)

    def subscript_hook(self, base, idx, node):
        return Unknown("subscript")

    def get_attr(self, base, attr, node):
        if isinstance(base, _ReV):
            return _ReM(base, attr)
        # enum protocol of Metric members: .name/.value are provided by the objects themselves
        if isinstance(base, Obj) and base.cls.name == "Metric" and attr == "value" and base.cls.lookup("value") is None:
            return base.attrs["value"]
        if isinstance(base, str):
            return _StrMethod(base, attr)
        if isinstance(base, Tagged):
            # an object whose construction is an observation point (not inlined): a method of its
            # class all of whose returns hand back `self` (fluent bookkeeping) yields the object itself
            cname = base.name.split(":")[-1].split(".")[-1]
            for c in self.prog.classes.values():
                if c.name == cname:
                    m = c.lookup(attr)
                    if m is not None and m.self_name and not m.is_property:
                        rets = [r for r in walk_no_nested(m.node) if isinstance(r, ast.Return)]
                        if rets and all(isinstance(r.value, ast.Name) and r.value.id == m.self_name for r in rets):
                            return _FluentM(base, m)
        return super().get_attr(base, attr, node)

    def apply(self, fv, args, kwargs, node):
        if isinstance(fv, _FluentM):
            return fv.obj
        if isinstance(fv, _ReM):
            if fv.name in ("match", "fullmatch", "search") and args and isinstance(args[0], str):
                return getattr(fv.rv.rx, fv.name)(args[0]) is not None
            return Unknown("regex method")
        if isinstance(fv, _StrMethod):
            def plain(a):
                return isinstance(a, (str, int)) or (isinstance(a, (list, tuple)) and all(isinstance(x, str) for x in a))

            try:
                if all(plain(a) for a in args) and all(plain(v) for v in kwargs.values()) and fv.name in _STR_METHODS:
                    return getattr(fv.s, fv.name)(*args, **kwargs)
            except (ValueError, IndexError) as e:
                from ..absval import RaiseSignal

                raise RaiseSignal(type(e).__name__, node)
            except Exception:
                pass
            return Unknown("strmethod")
        return super().apply(fv, args, kwargs, node)

    def external_call(self, name, args, kwargs, node):
        r = self.root
        if name.startswith("kernel:"):
            r.kernel_calls.append((name, list(args), dict(kwargs), node))
            return Tagged(name, args, kwargs)
        if name.startswith("numpy.") and args and (any(isinstance(a, Vec) for a in args) or (isinstance(args[0], (list, tuple)) and args[0] and all(isinstance(x, str) for x in args[0]))):
            # vectors of names / of concrete values: numpy's set routines, unique, sort, selections
            v_ = self._vec_call(name, args, kwargs, node)
            if v_ is not NotImplemented:
                return v_
        if name in REDUCER_FUNCS or name in ("max", "min", "sum", "len", "math.sqrt", "math.fsum", "statistics.pstdev", "statistics.stdev", "statistics.mean", "statistics.fmean"):
            a = [tuple(x) if isinstance(x, list) else x for x in args]
            if name in ("numpy.float64", "numpy.float32") and a and a[0] is None:
                return float("nan")  # numpy turns None into nan
            if name in ("numpy.asarray", "numpy.asanyarray", "numpy.array", "numpy.float64", "float") and a:
                return a[0]
            return Tagged(name, a, {k: v for k, v in kwargs.items() if k != "dtype"})
        if name == "re.compile" and args and isinstance(args[0], str):
            import re

            try:
                return _ReV(re.compile(args[0], *[a for a in args[1:] if isinstance(a, int)]))
            except re.error:
                return Unknown("re.compile")
        if name in ("re.match", "re.fullmatch", "re.search") and len(args) >= 2 and isinstance(args[0], str) and isinstance(args[1], str):
            import re

            return getattr(re, name.split(".")[1])(args[0], args[1]) is not None
        if name in ("numpy.all", "numpy.any") and args and isinstance(args[0], (list, tuple)) and all(isinstance(x, bool) for x in args[0]):
            return all(args[0]) if name.endswith("all") else any(args[0])
        r.ext_calls.append((name, node))
        return super().external_call(name, args, kwargs, node)

    def compare_hook(self, op, l, r, node):
        if isinstance(op, (ast.Eq, ast.NotEq)) and isinstance(l, Obj) and isinstance(r, Obj) and l.cls.name == "Metric" and r.cls.name == "Metric":
            same = l is r or l.attrs.get("_name_") == r.attrs.get("_name_")
            return same if isinstance(op, ast.Eq) else not same
        if isinstance(l, Tagged) and isinstance(r, Tagged) and isinstance(op, (ast.Eq, ast.NotEq)) and l.name == r.name == "hash":
            return (l == r) if isinstance(op, ast.Eq) else not (l == r)
        return Unknown(f"cmp {norm(node) if isinstance(node, ast.AST) else ''}")

    def binop_hook(self, op, l, r, node):
        if isinstance(l, Tagged) or isinstance(r, Tagged):
            return Tagged("binop:" + type(op).__name__, [l, r])
        # a value list that went through np.asarray(...) is an array: arithmetic is elementwise
        if (isinstance(l, tuple) or isinstance(r, tuple)) and getattr(self.root, "lists_are_arrays", False) and isinstance(op, (ast.Mult, ast.Add, ast.Sub, ast.Pow, ast.Div)):
            return Tagged("binop:" + type(op).__name__, [l, r])
        return super().binop_hook(op, l, r, node)


_STR_METHODS = {"join", "split", "rsplit", "partition", "rpartition", "lower", "upper", "strip", "lstrip", "rstrip", "startswith", "endswith", "replace", "isdigit", "isnumeric", "isdecimal", "isalpha", "find", "rfind", "index", "count", "format", "title", "removeprefix", "removesuffix", "splitlines", "zfill", "casefold"}

REDUCER_FUNCS = {
    "numpy.average", "numpy.mean", "numpy.std", "numpy.sum", "numpy.min", "numpy.max", "numpy.amin", "numpy.amax", "numpy.nanmean",
    "numpy.nanstd", "numpy.median", "numpy.var", "numpy.sqrt", "numpy.nansum", "numpy.square", "numpy.power", "numpy.asarray",
    "numpy.array", "numpy.asanyarray", "numpy.float64", "numpy.abs", "numpy.subtract", "numpy.nanmin", "numpy.nanmax",
}


def _is(t, *names):
    return isinstance(t, Tagged) and t.name in names


def _mean_of(t, vals):
    return _is(t, "numpy.mean", "numpy.average", "statistics.mean", "statistics.fmean") and t.args[:1] == (vals,) and not t.kwargs


def _square_of(t, inner_pred):
    if _is(t, "numpy.square") and inner_pred(t.args[0]):
        return True
    if _is(t, "binop:Pow", "numpy.power") and inner_pred(t.args[0]) and t.args[1] == 2:
        return True
    if _is(t, "binop:Mult") and inner_pred(t.args[0]) and inner_pred(t.args[1]):
        return True
    return False


def obj_attr(prog, o, name, default=None, metrics=None):
    """what reading `o.<name>` yields: the stored attribute, else the class's own __getattr__ (statistics computed on
    first use ...) run on the object; `default` if neither gives a value"""
    if not isinstance(o, Obj):
        return default
    if name in o.attrs:
        return o.attrs[name]
    ga = o.cls.lookup("__getattr__")
    if ga is None:
        return default
    try:
        pn = [p.name for p in ga.call_params]
        out = ResultInterp(prog, ga, {pn[0]: name} if pn else {}, self_obj=o, **({"metrics": metrics} if metrics is not None else {})).run()
    except Undecided:
        return default
    if out.kind != "return" or out.decisions:
        return default
    return out.value


def reducer_verdict(kind: str, term, vals: tuple):
    """True: recognised correct reducer of the whole list; False: recognised wrong one;
    None: not recognised (undecided)."""
    def other_values(names):
        # the right reducer applied to a different collection of values
        return _is(term, *names) and term.args and isinstance(term.args[0], tuple) and term.args[0] != vals

    if kind == "AVG":
        if _mean_of(term, vals):
            return True
        if other_values(("numpy.mean", "numpy.average", "statistics.mean", "statistics.fmean")):
            return False
        if _is(term, "binop:Div") and _is(term.args[0], "numpy.sum", "sum", "math.fsum") and term.args[0].args[:1] == (vals,) and (term.args[1] == len(vals) or (_is(term.args[1], "len") and term.args[1].args[:1] == (vals,))):
            return True
        if _is(term, "numpy.median", "numpy.sum", "numpy.max", "numpy.min", "numpy.std", "numpy.nanmean"):
            return False
        return None
    if kind == "STD":
        if _is(term, "numpy.std") and term.args[:1] == (vals,):
            dd = term.kwargs.get("ddof", 0)
            rest = {k: v for k, v in term.kwargs.items() if k != "ddof"}
            if rest:
                return None
            return dd == 0
        if _is(term, "statistics.pstdev") and term.args[:1] == (vals,):
            return True
        if _is(term, "statistics.stdev", "numpy.nanstd", "numpy.var", "numpy.mean", "numpy.average", "numpy.sum", "numpy.min", "numpy.max", "numpy.median"):
            return False
        if other_values(("numpy.std", "statistics.pstdev")):
            return False
        if _is(term, "numpy.sqrt", "math.sqrt"):
            inner = term.args[0]
            if _is(inner, "max", "numpy.maximum") and len(inner.args) == 2 and inner.args[1] in (0, 0.0):
                inner = inner.args[0]  # clamped radicand: sqrt(max(.., 0))
            if _is(inner, "numpy.var") and inner.args[:1] == (vals,) and inner.kwargs.get("ddof", 0) == 0:
                return True
            # E[x^2] - E[x]^2 : catastrophic cancellation (negative radicand / nan for tied values)
            if _is(inner, "binop:Sub"):
                a, b = inner.args
                is_vals = lambda x: x == vals
                if _is(a, "numpy.mean", "numpy.average") and _square_of(a.args[0], is_vals) and _square_of(b, lambda x: _mean_of(x, vals)):
                    return False
        return None
    simple = {"SUM": ("numpy.sum", "sum", "math.fsum"), "MIN": ("numpy.min", "numpy.amin", "min"), "MAX": ("numpy.max", "numpy.amax", "max")}[kind]
    others = {"numpy.sum", "numpy.min", "numpy.amin", "numpy.max", "numpy.amax", "numpy.mean", "numpy.average", "min", "max", "sum"} - set(simple)
    if _is(term, *simple) and term.args[:1] == (vals,) and not term.kwargs:
        return True
    if other_values(simple):
        return False
    if _is(term, *others):
        return False
    return None


class _ReV:
    def __init__(self, rx):
        self.rx = rx


class _ReM:
    def __init__(self, rv, name):
        self.rv = rv
        self.name = name


class _StrMethod:
    def __init__(self, s, name):
        self.s = s
        self.name = name


def metric_objs(prog: Program, names=("DSC", "IOU", "ASSD", "RVD", "clDSC")) -> list[Obj]:
    reg = metric_registry(prog)
    out = []
    for member, rec in reg.items():
        mv, me = make_metric_objs(prog, bool(rec["decreasing"]), rec["name"] or member)
        me.attrs["_name_"] = member
        mv.attrs["long_name"] = rec["long_name"] or member
        out.append(me)
    if not out:
        raise AnchorMissing("Metric registry is empty")
    return out


class NoneResult:
    """An edge-case result whose configured value is Python None (EdgeCaseResult.NONE)."""

    value = None
    name = "NONE"

    def __repr__(self):
        return "EdgeCaseResult.NONE"


def build_zero_tp_handler(prog: Program, tag: str, given: dict[str, bool], default: bool, none_values: bool = False) -> tuple[Optional[Obj], Outcome]:
    """Run MetricZeroTPEdgeCaseHandling.__init__ abstractly.  `given[scenario]`: whether that
    scenario's parameter is passed (else None); `default`: whether default_result is passed."""
    cls = prog.cls("utils.edge_case_handling:MetricZeroTPEdgeCaseHandling")
    init = cls.lookup("__init__")
    if init is None:
        raise AnchorMissing("MetricZeroTPEdgeCaseHandling.__init__")
    args = {}
    pnames = [p.name for p in init.call_params]
    for sc, pn in PARAM_OF_SCENARIO.items():
        if pn not in pnames:
            raise AnchorMissing(f"MetricZeroTPEdgeCaseHandling.__init__ has no parameter {pn}")
        args[pn] = (NoneResult() if none_values else Sym(f"{tag}.{sc}")) if given.get(sc) else None
    if "default_result" not in pnames:
        raise AnchorMissing("MetricZeroTPEdgeCaseHandling.__init__ has no parameter default_result")
    args["default_result"] = Sym(f"{tag}.DEFAULT") if default else None
    o = Obj(cls, {})
    it = ResultInterp(prog, init, args, self_obj=o)
    out = it.run()
    return (o if out.kind in ("end", "return") else None), out


def call_method(prog: Program, obj: Obj, meth: str, args: dict, metrics=None, no_inline=()) -> tuple[list[Outcome], list[ResultInterp]]:
    f = obj.cls.lookup(meth)
    if f is None:
        raise AnchorMissing(f"{obj.cls.name}.{meth}")
    its: list[ResultInterp] = []

    def make(prefix):
        it = ResultInterp(prog, f, dict(args), metrics=metrics, self_obj=obj, prefix=prefix)
        it.root.no_inline = set(no_inline)
        its.append(it)
        return it

    outs = enumerate_paths(make)
    return outs, its


def build_edge_case_handler(prog: Program, metrics: list[Obj], none_values: bool = False) -> tuple[Obj, dict]:
    """EdgeCaseHandler whose per-metric handlers carry distinct symbolic results
    H_<metric>.<SCENARIO>, built by running the constructors."""
    cls = prog.cls("utils.edge_case_handling:EdgeCaseHandler")
    init = cls.lookup("__init__")
    handlers = {}
    for m in metrics:
        name = m.attrs["_name_"]
        h, out = build_zero_tp_handler(prog, f"H_{name}", {s: True for s in SCENARIOS}, default=False, none_values=none_values)
        if h is None:
            raise Undecided(f"MetricZeroTPEdgeCaseHandling.__init__ did not complete: {out.kind} {out.exc}")
        handlers[m] = h
    pn = [p.name for p in init.call_params]
    if "listmetric_zeroTP_handling" not in pn or "empty_list_std" not in pn:
        raise AnchorMissing(f"EdgeCaseHandler.__init__ parameters {pn}")
    o = Obj(cls, {})
    it = ResultInterp(prog, init, {"listmetric_zeroTP_handling": handlers, "empty_list_std": Sym("ELS")}, metrics=metrics, self_obj=o)
    out = it.run()
    if out.kind not in ("end", "return"):
        raise Undecided(f"EdgeCaseHandler.__init__ did not complete: {out.kind} {out.exc}")
    return o, handlers
