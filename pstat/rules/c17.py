"""C17 - aggregation survives crashes, restarts and neighbouring aggregators."""

from __future__ import annotations

import ast

from ..absval import Obj, Sym
from ..model import AnchorMissing, Undecided, norm
from ..report import Ctx
from ..variants import Variant
from .aggrun import GROUPS, KEYS, agg_class, agg_paths, call, evaluate_subject, header_row, new_session
from .fsrun import FS, PathV

INFO = {
    "explanation": "Rounds 4/5: (R17.8) decided semantically - the abstract file system renders the exact csv text of its rows; an existing file with finished subjects whose printable names contain quotes, commas, leading/trailing blanks is continued and every resubmitted subject is recognised. Typestate of the output/claim files over abstract sessions: the aggregator's constructor and evaluate are interpreted over an abstract file system (files = lists of rows, paths = representative shapes: with .tsv, without extension, two-dot names, str and Path). (R17.2/R17.3/R17.7) for every initial state of the output file {absent, empty, header only, header + finished rows} and every path shape the constructor ends with the header present exactly once at the canonical path, finished rows kept and the claims rebuilt from exactly the finished subjects (header cell excluded); (R17.4/R17.5) crash cut points: a two-subject session is cut after every file-modifying operation, a fresh default session on the surviving files plus resubmission of all subjects yields exactly the rows of the uninterrupted run (also after a clean exit that ran the exit handler); (R17.1) two aggregators on sibling output files in one directory (incl. names differing only after the first dot) use different claim files and both record every subject; (R17.6) the exit handler removes only the claim file. Further: R17.2 (permuted / exchanged / prefix headers are rejected), R17.8 (csv-written files are only read through csv.reader); delegated R15.7. Round 6: R17.8 reads cells with line breaks through the real csv module on the exact text with the handle's newline mode; names include embedded \\n and \\r\\n; a name with a lone carriage return is its own obligation (known finding D17 on Python < 3.13). Round 7: the aggregator's output and claim file are found among the paths the object keeps (not by attribute name); R17.1 includes singular/plural, one-more-letter and upper/lower-case sibling names. Round 8: (R17.1) a neighbouring file of the same stem and another extension does not count as the session's own output. Round 9: binary handles on abstract files seek from the end and read n bytes (probing the last byte of a file); csv dialects given as a class, an instance or a registered name are spelled out as their options; skipinitialspace is applied on the reading side.",
    "trusted_base": ["OS: append of one csv row is atomic w.r.t. crashes (a row is either absent or complete)", "csv module round-trips the cells", "Python semantics of the modelled AST subset"],
    "assumptions": ["a crash can happen between any two file operations, not inside one"],
    "not_decided": ["torn writes inside one write call", "OS-level file semantics"],
    "technique": "static analysis: typestate analysis of the output/claim-file automaton by abstract interpretation of constructor and evaluate over an abstract file system, enumerated over initial states and crash cut points",
}

SHAPES = [("str.tsv", "/d/out.tsv", "/d/out.tsv"), ("Path.tsv", PathV("/d/out.tsv"), "/d/out.tsv"), ("str-noext", "/d/out", "/d/out.tsv"), ("two-dots", "/d/scores.v1.tsv", "/d/scores.v1.tsv")]


def _row(subj):
    return [subj] + [Sym(f"v[{subj},{g},{k}]") for g in GROUPS for k in KEYS]


def _rows_of(fs: FS, path: str):
    return fs.files.get(path)


def _check_final(rows, subjects, header):
    """(ok, why) for an output file: header exactly once as first row, one row per subject."""
    if rows is None:
        return False, "output file missing"
    if not rows or rows[0] != header:
        return False, f"first row is not the header: {rows[:1]}"
    if sum(1 for r in rows if r == header) != 1:
        return False, "header present more than once"
    names = [r[0] for r in rows[1:]]
    for s in subjects:
        if names.count(s) != 1:
            return False, f"subject {s!r} has {names.count(s)} rows"
    for r in rows[1:]:
        if r[0] in subjects and r != _row(r[0]):
            return False, f"row of {r[0]!r} differs from the uninterrupted run"
    return True, ""


def check_constructor_states(ctx: Ctx):
    prog = ctx.prog
    header = header_row()
    init = agg_class(prog).lookup("__init__")
    n = 0
    for sname, arg, canon in SHAPES:
        states = {
            "absent": {},
            "empty": {canon: []},
            "header-only": {canon: [list(header)]},
            "header+rows": {canon: [list(header), _row("s1")]},
            "header+rows+stale-claims": {canon: [list(header), _row("s1")], "STALE": [["s1"], ["s9"]]},
        }
        for stname, files in states.items():
            fs = FS(files)
            construct = f"{init.qual}:path={sname},file={stname}"
            agg, out, it = new_session(prog, fs, arg)
            if "STALE" in fs.files:
                # stale claim file of a killed session sits at the buffer path the constructor uses
                fs2 = FS({k: v for k, v in files.items() if k != "STALE"})
                a0, o0, i0 = new_session(prog, fs2, arg)
                bpath = agg_paths(a0)[1] if a0 else None
                if bpath is None:
                    continue
                files2 = {k: v for k, v in files.items() if k != "STALE"}
                files2[bpath] = files["STALE"]
                fs = FS(files2)
                agg, out, it = new_session(prog, fs, arg)
            n += 1
            if out.decisions:
                ctx.undecided("R17.2", init, out.node, construct, f"constructor splits on {[norm(d[0]) for d in out.decisions if isinstance(d[0], ast.AST)][:3]}")
                continue
            if agg is None:
                ctx.violated("R17.2", init, out.node, construct, f"constructor fails on a valid output path/file state: {out.exc} {out.value if out.value else ''}", {"files": {k: len(v) for k, v in fs.files.items()}})
                continue
            rows = fs.files.get(canon)
            finished = ["s1"] if "rows" in stname else []
            ok, why = _check_final(rows, finished, header)
            ctx.decide("R17.2", init, init.node, construct + ":header", "after construction the output file has the header exactly once as first row and keeps the finished rows", ok, {"why": why} if not ok else None)
            # no stray file at the un-normalised path
            stray = [p for p in fs.files if p not in (canon,) and not p.endswith("_tmp.tsv") and "tmp" not in p]
            ctx.decide("R17.3", init, init.node, construct + ":canonical-path", "only the canonical output path (with .tsv) and the claim file are touched", not stray, {"stray": stray})
            bpath = agg_paths(agg)[1]
            claims = [r[0] for r in fs.files.get(bpath, [["<missing>"]])]
            ctx.decide("R17.7", init, init.node, construct + ":claims", "claims are rebuilt from exactly the finished subjects (header cell and stale claims excluded)", claims == finished, {"claims": claims, "finished": finished})
            outp = outs = agg_paths(agg)[0]
            ctx.decide("R17.3", init, init.node, construct + ":rows-path", "rows will be written to the canonical output path", outs == canon, {"output_file": repr(outp)}, nontrivial=False)
    check_header_rejection(ctx)
    if n < 16:
        ctx.undecided("R17.floor", init, None, "floor:R17.2", f"{n} constructor states evaluated")


def check_no_hand_parsing(ctx: Ctx):
    """R17.8: the claim file and the output file are written with csv.writer, which quotes cells
    containing the delimiter, quotes or line breaks - and subject names are arbitrary.  Whatever reads
    these files back (a csv.reader, or a faster hand-written path behind a guard) must recover exactly
    the names that were written.  A session is run on the abstract file system (whose raw text is the
    real csv module's rendering of the rows): an existing file holds finished subjects with adversarial
    names; submitting each of them again must be recognised as finished - no second row."""
    prog = ctx.prog
    ev = agg_class(prog).lookup("evaluate")
    width = len(header_row()) - 1

    def session(names, tag):
        rows0 = [header_row()] + [[nm] + ["0.5"] * width for nm in names]
        fs = FS({"/d/out.tsv": [list(r) for r in rows0]})
        fs.__dict__.setdefault("writer_opts", {})["/d/out.tsv"] = {"delimiter": "\t", "lineterminator": "\n"}
        agg, out, it = new_session(prog, fs, "/d/out.tsv")
        if agg is None:
            if out.kind == "raise" and not out.decisions:
                return {"<constructor>": f"an existing file with such names is not continued: {out.exc}"}, fs
            ctx.undecided("R17.8", ev, ev.node, f"adversarial-names:{tag}:session", f"aggregator constructor not evaluable on an existing file: {out.kind} {out.exc}")
            return None, fs
        bad = {}
        for nm in names + ["fresh"]:
            before = len(fs.files.get("/d/out.tsv", []))
            o, _ = evaluate_subject(prog, agg, fs, nm, lock_objs=it.root.lock_objs)
            after = len(fs.files.get("/d/out.tsv", []))
            if o.decisions:
                ctx.undecided("R17.8", ev, ev.node, f"adversarial-names:{tag}:{nm!r}", "session not evaluable without splitting")
                return None, fs
            if nm == "fresh":
                if after != before + 1 and o.kind != "raise":
                    bad[repr(nm)] = "a subject that was never evaluated gets no row"
            elif after != before:
                bad[repr(nm)] = f"finished subject evaluated again: {after - before} more row(s)"
            elif o.kind == "raise" and o.exc not in (None, "ValueError"):
                bad[repr(nm)] = f"resubmitting a finished subject raises {o.exc}"
        return bad, fs

    # the characters csv.writer reacts to: the quote character, the delimiter, line feeds (cell gets quoted,
    # quotes doubled) - a quoted cell may hold any line break, which a reader opened with newline="" hands back
    # as is.  One file per kind of name: a reader that switches strategy on what it sees anywhere in the file
    # (a fast path with a fallback) must be right for each kind on its own
    bad_all, sites_all, undecided = {}, set(), False
    for tag, names in (("quotes", ["plain", 's"q', '"', 'a""b', " lead", "x,y", "q'r", "trail "]), ("line-feed", ["plain", "two\nlines"]), ("crlf", ["plain", "dos\r\nbreak"])):
        bad, fs = session(names, tag)
        if bad is None:
            undecided = True
            continue
        bad_all.update(bad)
        sites_all |= {(q, getattr(n, "lineno", 0)) for _, n, q in fs.__dict__.get("raw_reads", [])}
    if not undecided:
        ctx.decide("R17.8", ev, ev.node, "adversarial-names:aggregator", "finished subjects are recognised whatever characters their names contain (names quoted by csv.writer are recovered exactly when the file is read back)", not bad_all, {"not_recognised": bad_all, "line_by_line_reads": [f"{q}:{ln}" for q, ln in sorted(sites_all)]} if bad_all else None)
    # a carriage return without a line feed: csv.writer quotes only the characters of its lineterminator
    # (before Python 3.13), the reader ends a row at any bare carriage return
    bad, fs = session(["mac\rbreak"], "lone-carriage-return")
    if bad is not None:
        ctx.decide("R17.8", ev, ev.node, "adversarial-names:lone-carriage-return", "a finished subject whose name contains a carriage return without a line feed is recognised (on this interpreter's csv module)", not bad, {"not_recognised": bad} if bad else None)


def check_header_rejection(ctx: Ctx):
    """R17.2: rows are written by position, so an existing file is continued only if its header
    is exactly the header this aggregator would write: other columns, the same columns in another
    order (groups declared in another order), or a prefix of them are rejected."""
    prog = ctx.prog
    init = agg_class(prog).lookup("__init__")
    own = header_row()
    cases = {
        "other-columns": ["subject_name", "other-metric"],
        "same-columns-other-order": [own[0]] + list(reversed(own[1:])),
        "groups-exchanged": [own[0]] + own[1 + (len(own) - 1) // 2 :] + own[1 : 1 + (len(own) - 1) // 2],
        "prefix": own[:-1],
    }
    for name, hdr in cases.items():
        fs = FS({"/d/out.tsv": [list(hdr), ["s0"] + ["0.5"] * (len(hdr) - 1)]})
        agg, out, it = new_session(prog, fs, "/d/out.tsv")
        ok = (agg is None and out.kind == "raise") if not out.decisions else None
        ctx.decide("R17.2", init, out.node, f"{init.qual}:header-mismatch:{name}", "an output file whose header differs from this aggregator's header (columns or their order) is rejected, not continued", ok, {"outcome": out.kind, "existing_header": hdr[:4]})
    # the identical header is accepted
    fs = FS({"/d/out.tsv": [list(own)]})
    agg, out, it = new_session(prog, fs, "/d/out.tsv")
    ctx.decide("R17.2", init, out.node, f"{init.qual}:header-identical", "a file with exactly this aggregator's header is continued", agg is not None, {"outcome": out.kind}, nontrivial=False)


def _session(prog, fs, arg, subjects, lock_objs=None):
    """init + evaluate each subject; returns (agg, interps, ok)"""
    agg, out, it = new_session(prog, fs, arg)
    if agg is None:
        return None, out
    lo = it.root.lock_objs
    for s in subjects:
        o, i2 = evaluate_subject(prog, agg, fs, s, lock_objs=lo)
        if o.kind == "raise" or o.decisions:
            return agg, o
    return agg, None


def check_crash_points(ctx: Ctx):
    prog = ctx.prog
    header = header_row()
    cls = agg_class(prog)
    ev = cls.lookup("evaluate")
    subjects = ["s1", "s2"]
    for sname, arg, canon in (SHAPES[0], SHAPES[2]):
        for initial in ("absent", "header+rows"):
            files = {} if initial == "absent" else {canon: [list(header), _row("s0")]}
            fs = FS(files)
            agg, bad = _session(prog, fs, arg, subjects)
            base = f"{ev.qual}:path={sname},initial={initial}"
            if agg is None or bad is not None:
                ctx.violated("R17.5", ev, (bad.node if bad else None), base, f"uninterrupted session fails: {getattr(bad, 'exc', None)}")
                continue
            ok, why = _check_final(fs.files.get(canon), subjects, header)
            ctx.decide("R17.5", ev, ev.node, base + ":uninterrupted", "an uninterrupted session records every subject exactly once", ok, {"why": why} if not ok else None)
            snaps = [(i, e) for i, e in enumerate(fs.log) if e[5] is not None]
            cuts = 0
            for i, e in snaps:
                crash_fs = FS(e[5])
                cuts += 1
                a2, bad2 = _session(prog, crash_fs, arg, subjects)
                what = f"{e[0]} {e[1]}"
                c2 = base + f":cut-after#{cuts}"
                if a2 is None or bad2 is not None:
                    ctx.violated("R17.5", ev, (bad2.node if bad2 is not None else None), c2, f"restart after a crash following '{what}' fails: {getattr(bad2, 'exc', None)} {getattr(bad2, 'value', '')}", {"surviving_files": {k: [r[0] if r else None for r in v] for k, v in e[5].items()}})
                    continue
                ok, why = _check_final(crash_fs.files.get(canon), subjects, header)
                ctx.decide("R17.5", ev, ev.node, c2, "restart (default: continue) + resubmission after a crash yields exactly one row per subject and the header once", ok, {"crash_after": what, "why": why, "surviving_files": {k: [r[0] if r else None for r in v] for k, v in e[5].items()}} if not ok else {"crash_after": what})
            # clean exit (exit handler ran) then a new session
            fs3 = FS(fs.snapshot())
            h = cls.lookup("_Panoptica_Aggregator__exist_handler") or cls.lookup("__exist_handler")
            if h is not None:
                o3, i3 = call(prog, agg, h.name, {}, fs3)
                outp = fs3.files.get(canon)
                ctx.decide("R17.6", h, h.node, base + ":exit-handler", "the exit handler removes only the claim file", outp == fs.files.get(canon) and all(("tmp" not in p) for p in fs3.files), {"files": sorted(fs3.files)})
                a4, bad4 = _session(prog, fs3, arg, subjects + ["s3"])
                ok, why = (False, "restart fails") if (a4 is None or bad4 is not None) else _check_final(fs3.files.get(canon), subjects + ["s3"], header)
                ctx.decide("R17.5", ev, ev.node, base + ":after-clean-exit", "a new session after a clean exit skips finished subjects and records new ones", ok, {"why": why} if not ok else None)
            if cuts < 5:
                ctx.undecided("R17.floor", ev, None, "floor:R17.5", f"only {cuts} crash cut points in the session")


def check_neighbours(ctx: Ctx):
    prog = ctx.prog
    header = header_row()
    ev = agg_class(prog).lookup("evaluate")
    for nm, pa, pb in (("a/b", "/d/a.tsv", "/d/b.tsv"), ("two-dot siblings", "/d/scores.v1.tsv", "/d/scores.v2.tsv"), ("prefix", "/d/run.tsv", "/d/run_panoptica_aggregator_tmp.tsv"[:-4] + "x.tsv"), ("singular/plural", "/d/result.tsv", "/d/results.tsv"), ("one more letter of the extension", "/d/stat.tsv", "/d/statt.tsv"), ("upper/lower case", "/d/Run.tsv", "/d/run.tsv"), ("same stem, other extension?", "/d/run.tsv", "/d/run.csv"), ("same stem, other extension (txt)?", "/d/run.tsv", "/d/run.txt")):
        optional = nm.endswith("?")
        fs = FS()
        A, oa, ia = new_session(prog, fs, pa)
        B, ob, ib = new_session(prog, fs, pb)
        base = f"{ev.qual}:neighbours={nm}"
        if optional and (A is None or B is None):
            continue  # a file name this version does not accept as an output file (another extension): nothing to compare
        if A is None or B is None:
            ctx.violated("R17.1", ev, None, base, "two aggregators on sibling output files cannot be constructed")
            continue
        sa, sb = agg_paths(A)[1], agg_paths(B)[1]
        ctx.decide("R17.1", ev, ev.node, base + ":claim-files", "aggregators writing to different output files use different claim files", sa != sb and sa not in (pa, pb) and sb not in (pa, pb), {"A": sa, "B": sb})
        lo = ia.root.lock_objs
        bad = None
        for agg, s in ((A, "s1"), (B, "s1"), (B, "s2"), (A, "s2")):
            o, _ = evaluate_subject(prog, agg, fs, s, lock_objs=lo)
            if o.kind == "raise" or o.decisions:
                bad = o
        # a later third session on B while A is still running must not disturb A
        B2, ob2, ib2 = new_session(prog, fs, pb)
        for agg, s in ((A, "s3"), (A, "s1")):
            o, _ = evaluate_subject(prog, agg, fs, s, lock_objs=lo)
        for p, subj in ((pa, ["s1", "s2", "s3"]), (pb, ["s1", "s2"])):
            ok, why = _check_final(fs.files.get(p), subj, header)
            ctx.decide("R17.1", ev, ev.node, base + f":{p}", "each aggregator records all of its own subjects exactly once", ok and bad is None, {"why": why} if not ok else None)


def check_double_crash(ctx: Ctx):
    """Thorough tier: every cut point of a three-subject session, then every cut point of the
    restarted session, then a final complete session."""
    prog = ctx.prog
    header = header_row()
    ev = agg_class(prog).lookup("evaluate")
    subjects = ["s1", "s2", "s3"]
    arg, canon = "/d/out.tsv", "/d/out.tsv"
    fs = FS()
    agg, bad = _session(prog, fs, arg, subjects)
    if agg is None or bad is not None:
        ctx.violated("R17.5", ev, None, f"{ev.qual}:double-crash", "uninterrupted three-subject session fails")
        return
    first = [e for e in fs.log if e[5] is not None]
    n = 0
    seen = set()
    for i, e in enumerate(first):
        fs1 = FS(e[5])
        a1, b1 = _session(prog, fs1, arg, subjects)
        if a1 is None or b1 is not None:
            ctx.violated("R17.5", ev, None, f"{ev.qual}:double-crash:cut{i}", f"restart after '{e[0]} {e[1]}' fails")
            continue
        for j, e2 in enumerate([x for x in fs1.log if x[5] is not None]):
            key = repr(sorted((k, [tuple(map(str, r)) for r in v]) for k, v in e2[5].items()))
            if key in seen:
                continue
            seen.add(key)
            fs2 = FS(e2[5])
            a2, b2 = _session(prog, fs2, arg, subjects)
            n += 1
            ok, why = (False, "second restart fails") if (a2 is None or b2 is not None) else _check_final(fs2.files.get(canon), subjects, header)
            if not ok:
                ctx.violated("R17.5", ev, None, f"{ev.qual}:double-crash:cut{i}.{j}", "two successive crashes followed by a complete default session do not yield exactly one row per subject", {"first_crash_after": f"{e[0]} {e[1]}", "second_crash_after": f"{e2[0]} {e2[1]}", "why": why})
    ctx.ok("R17.5", ev, ev.node, f"{ev.qual}:double-crash", f"{n} distinct file states after two successive crashes all recover to exactly one row per subject", {"states": n})


def _run_rule(ctx, name, fn):
    """a sub-rule that cannot be evaluated is recorded as undecided; the remaining rules still run"""
    try:
        return fn(ctx)
    except (Undecided, AnchorMissing) as e:
        ctx.undecided(name, None, None, f"{name}:analysis", f"{type(e).__name__}: {e}")
        return 0


def check(ctx: Ctx):
    _run_rule(ctx, "check_constructor_states", check_constructor_states)
    _run_rule(ctx, "check_crash_points", check_crash_points)
    _run_rule(ctx, "check_neighbours", check_neighbours)
    if ctx.tier == "thorough":
        check_double_crash(ctx)
    _run_rule(ctx, "check_no_hand_parsing", check_no_hand_parsing)
    # the header an aggregator writes / compares is determined by its own evaluator alone (R15.7)
    from . import c03, c15

    c03._guarded(ctx, "R15.7", c15.check_globals)
    # the lists that fix the layout of rows and tables (group names, metric keys) are not handed to functions
    # that modify their list parameter in place (R15.6, through callees)
    c03._guarded(ctx, "R15.6", c15.check_state_through_callees)


_A = "panoptica/panoptica_aggregator.py"

VARIANTS = [
    Variant("C17-m-d8a", "R17.1", "mutant", [(_A, "            output_file.stem + \"_panoptica_aggregator_tmp.tsv\"", "            \"panoptica_aggregator_tmp.tsv\"")], control=True, note="defect D8a of the original tree"),
    Variant("C17-m-d8b", "R17.2", "mutant", [(_A, "                _write_content(output_file, [header])\n                continue_file = True", "                continue_file = True")], control=True, note="defect D8b"),
    Variant("C17-m-d13", "R17.", "mutant", [(_A, "            out_file_path += \".tsv\"  # add extension\n        output_file = Path(out_file_path)\n", "            out_file_path += \".tsv\"  # add extension\n"), (_A, "        out_buffer_file: Path = output_file.parent.joinpath(\n            output_file.stem + \"_panoptica_aggregator_tmp.tsv\"", "        out_buffer_file: Path = Path(out_file_path).parent.joinpath(\n            Path(out_file_path).stem + \"_panoptica_aggregator_tmp.tsv\"")], note="defect D13"),
    Variant("C17-m-d14", "R17.7", "mutant", [(_A, "                    id_list = _load_first_column_entries(\n                        self.__output_file, skip_header=True\n                    )", "                    id_list = _load_first_column_entries(self.__output_file)")], note="defect D14"),
    Variant("C17-m-first-dot", "R17.1", "mutant", [(_A, "            output_file.stem + \"_panoptica_aggregator_tmp.tsv\"", "            output_file.name.split(\".\")[0] + \"_panoptica_aggregator_tmp.tsv\"")]),
    Variant("C17-m-keep-buffer", "R17.", "mutant", [(_A, "        if out_buffer_file.exists():\n            os.remove(out_buffer_file)\n        open(out_buffer_file, \"a\").close()", "        open(out_buffer_file, \"a\").close()")]),
    Variant("C17-m-no-continue-default", "R17.5", "mutant", [(_A, "        continue_file: bool = True,", "        continue_file: bool = False,")]),
    Variant("C17-m-header-always", "R17.2", "mutant", [(_A, "        if not output_file.exists():\n            # write header\n            _write_content(output_file, [header])\n        else:", "        _write_content(output_file, [header])\n        if output_file.exists():")]),
    Variant("C17-m-exit-removes-output", "R17.6", "mutant", [(_A, "            os.remove(str(self.__output_buffer_file))", "            os.remove(str(self.__output_buffer_file))\n            os.remove(str(self.__output_file))")]),
    Variant("C17-m-claim-after-eval", "R17.5", "mutant", [(_A, "            _write_content(self.__output_buffer_file, [[subject_name]])\n\n        # Run Evaluation (allowed in parallel)", "            pass\n\n        # Run Evaluation (allowed in parallel)"), (_A, "        # Add to file\n        self._save_one_subject(subject_name, res)", "        # Add to file\n        self._save_one_subject(subject_name, res)\n        _write_content(self.__output_buffer_file, [[subject_name]])")], note="claim written after the row: harmless for crashes; concurrency rule R16.2 flags it", kind="twin") if False else Variant("C17-t-unlink", "R17.4", "twin", [(_A, "        if out_buffer_file.exists():\n            os.remove(out_buffer_file)\n        open(out_buffer_file, \"a\").close()", "        out_buffer_file.unlink(missing_ok=True)\n        out_buffer_file.touch()")]),
    Variant("C17-t-with-suffix", "R17.3", "twin", [(_A, "            output_file.stem + \"_panoptica_aggregator_tmp.tsv\"", "            output_file.name[: -len(\".tsv\")] + \"_panoptica_aggregator_tmp.tsv\"")]),
]
