"""C14 - the merge matcher only merges when it improves the match."""

from __future__ import annotations

import ast
from typing import Optional

from ..flow import implication, is_stale, path_condition
from ..model import AnchorMissing, Func, Undecided, bind_args, dotted, norm, walk_no_nested
from ..report import Ctx
from ..variants import Variant
from .c03 import BEATS_REF, _ancestors, _neg, _score_thr_key, add_entry_func, pure_labelmap_method
from .common import MatcherAtoms, assignments_to, labelmap_api, calls_resolving_to, matcher_loop, metric_enum_class, resolve_alias, single_def

INFO = {
    "explanation": "Path conditions of both add_labelmap_entry sites of MaximizeMergeMatching._match_instances are evaluated on the full truth table over (prediction assigned, reference assigned, metric direction, ordering(score,threshold), ordering(new combined score, recorded score)): (R14.1) prediction unassigned at both sites; (R14.2) a reference is first matched only by a single prediction meeting the threshold; (R14.3) a merge is accepted exactly on strict improvement in the metric's direction; (R14.4) the recorded score of the reference is updated with the justifying score in the same branch; (R14.5) the combined score is the matching metric on (reference array, prediction array, reference label, already matched predictions + candidate) of the uncropped pair. Delegated: the candidate scores the merge decisions start from are those of the pair's own arrays (R03.7). Further delegated: R03.3 (inclusive, exact threshold comparison), R03.1/R09.1 (no candidate pair lost), R15.8. Round 6: (R14.7) the merging matcher is run abstractly on four candidates (three predictions on one reference, one also on a second), all orderings, all outcomes of threshold tests and score comparisons, both metric directions, and replayed against the specification with the same outcomes; merged scores are named after the predictions actually handed to the metric, so a stale member list, a wrong recorded score or a non-strict comparison shows up; R14.3-R14.5 defer to it where the recorded score is kept in a form they do not read. Round 8: R03.9 delegated (the enum's copy of a direction helper - the one the matcher calls - agrees with the value class's copy, also at a non-zero margin); scores plus / minus a zero margin are that score in the merge run.",
    "trusted_base": ["Python semantics of the modelled AST subset", "InstanceLabelMap predicates are inlined from their bodies"],
    "assumptions": ["all combinations of (prediction assigned, reference assigned) are reachable in the loop"],
    "not_decided": ["numerical value of the metric (C06/C07)", "that the final score >= best single candidate: follows from R14.2-R14.4 by induction, argued not mechanised"],
}

STRICT_REF = {(False, ">"), (True, "<")}


def merge_matcher(ctx: Ctx):
    c = ctx.prog.cls("instance_matcher:MaximizeMergeMatching")
    f = c.methods.get("_match_instances")
    if f is None:
        raise AnchorMissing("MaximizeMergeMatching._match_instances")
    return c, f


def _cmp_key_between(form, a_keys: set[str], b_pred) -> Optional[tuple[str, bool]]:
    for k in form.domains:
        if k.startswith("cmp:"):
            x, y = k[4:].split("|", 1)
            if x in a_keys and b_pred(y):
                return k, False
            if y in a_keys and b_pred(x):
                return k, True
    return None


def _run_rule(ctx, name, fn):
    """a sub-rule that cannot be evaluated is recorded as undecided; the remaining rules still run"""
    try:
        return fn(ctx)
    except (Undecided, AnchorMissing) as e:
        ctx.undecided(name, None, None, f"{name}:analysis", f"{type(e).__name__}: {e}")
        return 0


def check(ctx: Ctx):
    _run_rule(ctx, "check_merge", check_merge)
    # the scores the merge decisions compare are those of the pair's own arrays (R03.7)
    from . import c03

    c03._guarded(ctx, "R03.7", c03.check_candidate_call)
    # "at least as good as its best single candidate": no candidate pair may be lost (R03.1, R09.1)
    from . import c09

    _run_rule(ctx, "check_no_pruning", c03.check_no_pruning)
    c03._guarded(ctx, "R03.3", c03.check_beats)  # "meets the threshold" is the exact, inclusive comparison
    c03._guarded(ctx, "R03.9", c03.check_metric_twins)  # the enum's copies of the decision helpers (the ones the matcher calls) agree with the value class's
    c03._guarded(ctx, "R03.1", c03.check_codec)
    c03._guarded(ctx, "R09.1", c09.check_codec_width)
    c03._guarded(ctx, "R09.1", c09.check_codec_width_relational)
    # results of later evaluations (another group, a flipped copy, the exchanged pair, a second
    # threshold) are only meaningful if no step writes into the caller's arrays (R15.8)
    from . import c15 as _c15
    from . import c03 as _c03

    _c03._guarded(ctx, "R15.8", _c15.check_param_aliasing)


def check_merge(ctx: Ctx):
    prog = ctx.prog
    cls, f = merge_matcher(ctx)
    add = add_entry_func(ctx)
    loop, score, ref, pred = matcher_loop(prog, f)
    ncs = cls.lookup("new_combination_score")
    calls = calls_resolving_to(prog, f, add)
    if len(calls) < 2:
        ctx.undecided("R14.floor", f, f.node, "floor:R14", f"expected >= 2 add_labelmap_entry sites (first match, merge), found {len(calls)}")
    # variables holding a combined score: assigned from a call to new_combination_score
    new_vars = set()
    if ncs is not None:
        for n in walk_no_nested(f.node):
            if isinstance(n, ast.Assign) and isinstance(n.value, ast.Call) and ncs in prog.resolve_call(f, n.value):
                for t in n.targets:
                    if isinstance(t, ast.Name):
                        new_vars.add(t.id)

    def is_old(key: str) -> bool:
        # score_ref[<ref var>]  : a subscript of a local dict by the reference label
        try:
            e = ast.parse(key, mode="eval").body
        except SyntaxError:
            return False
        if isinstance(e, ast.Name):
            d = single_def(f, e.id)
            e = d if d is not None else e
        if isinstance(e, ast.Call) and isinstance(e.func, ast.Attribute) and e.func.attr == "get" and isinstance(e.func.value, ast.Name) and e.args and isinstance(e.args[0], ast.Name) and e.args[0].id == ref:
            return True  # <dict>.get(ref): the recorded score (None only while the reference is unmatched)
        return isinstance(e, ast.Subscript) and isinstance(e.slice, ast.Name) and e.slice.id == ref and isinstance(e.value, ast.Name)

    # the matcher itself on bounded scenarios, replayed against the specification (c03.merge_run)
    from . import c03 as _c03m
    from ..absval import RaiseSignal

    try:
        mv_, mw_, mruns = _c03m.merge_run(ctx, cls, f)
    except (Undecided, AnchorMissing, RaiseSignal) as e:
        mv_, mw_, mruns = None, {"why": f"{type(e).__name__}: {e}"}, 0
    if mv_ is not None:
        ctx.decide("R14.7", f, f.node, f"{f.qual}:merge-run", "on every ordering of four candidates (three predictions on one reference, one also on another), every outcome of the threshold tests and score comparisons and both directions, the label map is the specified one: first match by threshold, merge iff the merged prediction scores strictly better than the recorded score", mv_, mw_ or {"runs": mruns})
    run_ok = mv_ is True

    kinds: dict[int, str] = {}
    for c in calls:
        atoms = MatcherAtoms(ctx, f, pred, ref, score)
        form = atoms.form
        construct = f"{f.qual}->add_labelmap_entry"
        binding, _ = bind_args(add, c)
        pa = binding.get(add.call_params[0].name)
        ra = binding.get(add.call_params[1].name) if len(add.call_params) > 1 else None
        pa_r = resolve_alias(f, pa) if isinstance(pa, ast.Name) else pa
        ra_r = resolve_alias(f, ra) if isinstance(ra, ast.Name) else ra
        okb = isinstance(pa_r, ast.Name) and pa_r.id == pred and isinstance(ra_r, ast.Name) and ra_r.id == ref
        # both arguments are candidate labels but not in their own parameters: decided wrong
        crossed = isinstance(pa_r, ast.Name) and isinstance(ra_r, ast.Name) and {pa_r.id, ra_r.id} <= {pred, ref} and not okb
        pcs = path_condition(f, c)
        stale = [pc for pc in pcs if is_stale(pc, pure_labelmap_method(prog))]
        prem = [atoms.form.compile(pc.expr) if pc.polarity else _neg(atoms.form.compile(pc.expr)) for pc in pcs if pc not in stale]
        pc_txt = " and ".join(pc.text() for pc in pcs)
        dec_key = next((k for k in form.domains if k.startswith("dec:")), None)
        thr_key = _score_thr_key(form, score)
        new_key = _cmp_key_between(form, new_vars, is_old)
        # which kind of site is it?  decided by the path condition itself: does it imply cr or not cr
        v_cr, _ = implication(form, prem, lambda a: a["cr"])
        v_ncr, _ = implication(form, prem, lambda a: not a["cr"])
        kind = "merge" if v_cr is True else "first" if v_ncr is True else "unknown"
        kinds[id(c)] = kind if okb else "unknown"
        construct = f"{construct}[{kind}]"
        ctx.decide("R14.1", f, c, construct + ":binding", "label map entry binds (prediction label -> reference label) of the candidate", True if okb else (False if crossed else None), {"pred_arg": norm(pa) if pa else None, "ref_arg": norm(ra) if ra else None})

        def dec(v, w):
            return (None if (stale and v is False) else v), ({"row": w, "path_condition": pc_txt} if w else {"path_condition": pc_txt})

        v, w = implication(form, prem, lambda a: not a["cp"])
        v, wit = dec(v, w)
        ctx.decide("R14.1", f, c, construct, "path condition implies: prediction label not yet assigned (each prediction goes to at most one reference)", v, wit)
        if kind == "unknown":
            ctx.violated("R14.2", f, c, construct, "assignment reachable both for matched and unmatched references: neither the first-match rule (single prediction meets the threshold) nor the merge rule (strict improvement) guards it", {"path_condition": pc_txt})
            continue
        if kind == "first":
            if dec_key and thr_key:
                key, flip = thr_key

                def beats(a, key=key, flip=flip, dec_key=dec_key):
                    c_ = a[key]
                    if flip:
                        c_ = {"<": ">", ">": "<", "=": "="}[c_]
                    return (a[dec_key], c_) in BEATS_REF

                v, w = implication(form, prem, beats)
                v, wit = dec(v, w)
                ctx.decide("R14.2", f, c, construct, "a reference is first matched only if the single prediction's score meets the threshold (inclusive, direction-aware)", v, wit)
                # maximality of the first match: eligible single candidate with both free is taken
                pcf = lambda a, prem=prem: all(p(a) for p in prem)
                v, w = implication(form, [lambda a: not a["cp"], lambda a: not a["cr"], beats], pcf)
                ctx.decide("R14.2", f, c, construct + ":complete", "an unassigned prediction meeting the threshold on an unmatched reference is matched", v, {"row": w, "path_condition": pc_txt} if w else None)
            else:
                ctx.decide("R14.2", f, c, construct, "first match of a reference is guarded by the score/threshold comparison", None if form.opaque else False, {"path_condition": pc_txt, "unmodelled_conditions": sorted(form.opaque.values())[:4]})
            _check_score_update(ctx, prog, f, c, construct, ref, {score}, run_ok)
        else:
            if dec_key and new_key:
                key, flip = new_key

                def strict(a, key=key, flip=flip, dec_key=dec_key):
                    c_ = a[key]
                    if flip:
                        c_ = {"<": ">", ">": "<", "=": "="}[c_]
                    return (a[dec_key], c_) in STRICT_REF

                v, w = implication(form, prem, strict)
                v, wit = dec(v, w)
                ctx.decide("R14.3", f, c, construct, "a further prediction is merged only if the combined score is strictly better than the recorded score in the metric's direction", v, wit)
            elif new_key and not dec_key:
                # comparison present but direction-blind: evaluate with an explicit direction variable
                form.domains.setdefault("dec:(any)", [False, True])
                key, flip = new_key

                def strict2(a, key=key, flip=flip):
                    c_ = a[key]
                    if flip:
                        c_ = {"<": ">", ">": "<", "=": "="}[c_]
                    return (a["dec:(any)"], c_) in STRICT_REF

                v, w = implication(form, prem, strict2)
                v, wit = dec(v, w)
                ctx.decide("R14.3", f, c, construct, "a further prediction is merged only if the combined score is strictly better than the recorded score in the metric's direction", v, wit)
            elif not run_ok:
                # the recorded score is not kept in a form this rule reads (a local dict keyed by the reference):
                # decided by the run of the matcher when that is available
                ctx.decide("R14.3", f, c, construct, "merge is guarded by a comparison of the combined score with the recorded score of the reference", None if (form.opaque or mv_ is False) else False, {"path_condition": pc_txt, "combined_score_vars": sorted(new_vars), "unmodelled_conditions": sorted(form.opaque.values())[:4]})
            _check_score_update(ctx, prog, f, c, construct, ref, new_vars, run_ok)
    bad = [n for n in ast.walk(loop) if isinstance(n, (ast.Break, ast.Return, ast.Raise))]
    ctx.decide("R14.1", f, loop, f"{f.qual}:loop", "candidate loop has no break/return/raise", not bad)
    if ncs is None:
        ctx.undecided("R14.5", f, f.node, "new_combination_score", "combined-score helper not found")
    else:
        _check_combination(ctx, cls, f, ncs, ref, pred, kinds, calls, run_ok)


def _check_score_update(ctx, prog, f, call, construct, ref, score_vars: set[str], run_ok: bool = False):
    """R14.4: in the block of the accepted assignment, <dict>[ref] = <justifying score>."""
    pm = prog.parents(f)
    st = call
    while id(st) in pm and not isinstance(st, ast.stmt):
        st = pm[id(st)]
    parent = pm.get(id(st))
    block = None
    for fld in ("body", "orelse", "finalbody"):
        b = getattr(parent, fld, None)
        if isinstance(b, list) and st in b:
            block = b
    # the score dictionary: the local dict that is compared with / read as the recorded score
    # (<dict>[ref] on the right-hand side or in a comparison somewhere in the function)
    read_dicts = set()
    for n in walk_no_nested(f.node):
        if isinstance(n, ast.Subscript) and isinstance(n.ctx, ast.Load) and isinstance(n.value, ast.Name) and isinstance(n.slice, ast.Name) and n.slice.id == ref:
            par = pm.get(id(n))
            # reads that feed a score comparison or a local score alias (not list copies / appends)
            if isinstance(par, (ast.Compare, ast.Assign, ast.BoolOp)) or (isinstance(par, ast.Call) and not (isinstance(par.func, ast.Name) and par.func.id in ("list", "tuple", "set", "sorted"))):
                if not (isinstance(par, ast.Call) and isinstance(par.func, ast.Attribute) and par.func.value is n):
                    read_dicts.add(n.value.id)
    found = None
    cands = []
    for s in block or []:
        if isinstance(s, ast.Assign) and len(s.targets) == 1 and isinstance(s.targets[0], ast.Subscript):
            t = s.targets[0]
            if isinstance(t.slice, ast.Name) and t.slice.id == ref and isinstance(t.value, ast.Name):
                cands.append(s)
    scored = [s for s in cands if isinstance(s.value, ast.Name) and s.value.id in score_vars]
    in_read = [s for s in cands if s.targets[0].value.id in read_dicts]
    found = (scored or in_read or cands or [None])[-1]
    if found is None:
        if not run_ok:  # (a score kept in another form than <dict>[ref] = <score> is decided by the run, R14.7)
            ctx.violated("R14.4", f, call, construct, "accepted assignment does not record the score of the reference in the same branch", None)
        return
    if run_ok and not isinstance(found.value, (ast.Name, ast.Constant, ast.Subscript)):
        return  # a record built from the score: what it holds is decided by the run
    ok = isinstance(found.value, ast.Name) and found.value.id in score_vars
    ctx.decide("R14.4", f, found, construct, f"recorded score of the reference is the score that justified the assignment ({'/'.join(sorted(score_vars))})", True if ok else False, {"assigned": norm(found.value)})


def _block_of(pm, node):
    """(statement, statement list) that directly contains `node`."""
    st = node
    while id(st) in pm and not isinstance(st, ast.stmt):
        st = pm[id(st)]
    parent = pm.get(id(st))
    for fld in ("body", "orelse", "finalbody"):
        b = getattr(parent, fld, None)
        if isinstance(b, list) and st in b:
            return st, b
    return st, None


def _mirror_index(prog, f: Func, name: str, ref: str, pred: str, kinds: dict, calls: list) -> Optional[str]:
    """Is the local dict `name` a mirror of the label map, keyed by reference label with the list of
    predictions assigned to it in assignment order?  Returns None if it is, else the reason it is not.

    The invariant  name[r] == labelmap.get_pred_labels_matched_to_ref(r)  holds by induction if
      * `name` starts empty (one definition, an empty dict) and so does the label map,
      * every add_labelmap_entry(p, r) site has, in its own block, exactly one update of `name` with
        the same (p, r):  name[r].append(p)  /  name.setdefault(r, []).append(p)  anywhere, or
        name[r] = [p]  at a site that is only reached for an unassigned reference,
      * `name` is not updated, passed on or aliased anywhere else."""
    pm = prog.parents(f)
    defs = [a for a in assignments_to(f, name) if not (isinstance(a, ast.Assign) and all(isinstance(t, ast.Subscript) and isinstance(t.value, ast.Name) and t.value.id == name for t in a.targets))]
    if len(defs) != 1:
        return f"{name} has {len(defs)} definitions"
    d = defs[0]
    dv = d.value if isinstance(d, (ast.Assign, ast.AnnAssign)) else None
    empty = (isinstance(dv, ast.Dict) and not dv.keys) or (isinstance(dv, ast.Call) and not dv.args and not dv.keywords and dotted(dv.func) in ("dict",))
    if not empty:
        return f"{name} is not created as an empty dict"

    def upd(n) -> Optional[tuple[str, ast.AST]]:
        # name[ref].append(pred) / name.setdefault(ref, []).append(pred)
        if isinstance(n, ast.Call) and isinstance(n.func, ast.Attribute) and n.func.attr == "append" and len(n.args) == 1 and isinstance(n.args[0], ast.Name) and n.args[0].id == pred:
            b = n.func.value
            if isinstance(b, ast.Subscript) and isinstance(b.value, ast.Name) and b.value.id == name and isinstance(b.slice, ast.Name) and b.slice.id == ref:
                return "append", n
            if isinstance(b, ast.Call) and isinstance(b.func, ast.Attribute) and b.func.attr == "setdefault" and isinstance(b.func.value, ast.Name) and b.func.value.id == name and len(b.args) == 2 and isinstance(b.args[0], ast.Name) and b.args[0].id == ref and isinstance(b.args[1], ast.List) and not b.args[1].elts:
                return "append", n
        if isinstance(n, ast.Assign) and len(n.targets) == 1:
            t = n.targets[0]
            if isinstance(t, ast.Subscript) and isinstance(t.value, ast.Name) and t.value.id == name and isinstance(t.slice, ast.Name) and t.slice.id == ref:
                v = n.value
                if isinstance(v, ast.List) and len(v.elts) == 1 and isinstance(v.elts[0], ast.Name) and v.elts[0].id == pred:
                    return "init", n
        return None

    updates: dict[int, tuple[str, ast.AST]] = {}
    consumed: set[int] = set()
    for n in walk_no_nested(f.node):
        u = upd(n)
        if u is not None:
            st, _ = _block_of(pm, u[1])
            updates[id(st)] = (u[0], st)
            for m in ast.walk(u[1]):
                if isinstance(m, ast.Name) and m.id == name:
                    consumed.add(id(m))
    # every other occurrence of the name must be a pure read:  name[ref] (copied, iterated, len) or `in`
    for n in walk_no_nested(f.node):
        if isinstance(n, ast.Name) and n.id == name and id(n) not in consumed and n is not getattr(d, "targets", [None])[0] and n is not getattr(d, "target", None):
            par = pm.get(id(n))
            if isinstance(par, ast.Subscript) and par.value is n and isinstance(par.ctx, ast.Load):
                gp = pm.get(id(par))
                pure = (
                    (isinstance(gp, ast.Call) and par in gp.args and isinstance(gp.func, ast.Name) and gp.func.id in ("list", "tuple", "len", "sorted"))
                    or (isinstance(gp, ast.Subscript) and gp.value is par and isinstance(gp.ctx, ast.Load))
                    or (isinstance(gp, ast.Attribute) and gp.attr == "copy")
                    or isinstance(gp, (ast.Starred, ast.BinOp, ast.For, ast.comprehension))
                )
                if pure:
                    continue
                return f"{name}[...] escapes or is modified at line {n.lineno}: {norm(gp) if gp is not None else ''}"
            if isinstance(par, ast.Compare) and n in par.comparators and all(isinstance(o, (ast.In, ast.NotIn)) for o in par.ops):
                continue
            return f"{name} is used other than as a mirror at line {n.lineno}: {norm(par) if par is not None else ''}"
    seen_sites = set()
    for c in calls:
        st, block = _block_of(pm, c)
        if block is None or not (isinstance(st, ast.Expr) and st.value is c):
            return f"label map update at line {c.lineno} is not a plain statement"
        us = [updates[id(s)] for s in block if id(s) in updates]
        k = kinds.get(id(c), "unknown")
        if not us and k in ("first", "merge") and not any(name in {m.id for m in ast.walk(s_) if isinstance(m, ast.Name)} for s_ in block):
            return f"!label map update at line {c.lineno} ({k} site) is not recorded in {name}: the list handed to the combined score misses that prediction"
        if len(us) != 1:
            return f"label map update at line {c.lineno} has {len(us)} updates of {name} in its block"
        if us[0][0] == "init" and k == "merge":
            return f"!{name}[{ref}] = [{pred}] at line {us[0][1].lineno} (merge site) discards the predictions already matched to the reference"
        if us[0][0] == "init" and k != "first":
            return f"{name}[{ref}] = [{pred}] at line {us[0][1].lineno} may overwrite the predictions already matched to the reference"
        if k == "unknown":
            return f"label map update at line {c.lineno} does not bind the candidate (prediction, reference)"
        seen_sites.add(id(us[0][1]))
    extra = [st for k_, (_, st) in updates.items() if id(st) not in seen_sites]
    if extra:
        return f"{name} is updated at line {extra[0].lineno} without a label map update in the same block"
    # the label map must not be filled by anything else in the function
    return None


def _check_combination(ctx, cls, f, ncs: Func, ref, pred, kinds=None, add_calls=None, run_ok=False):
    prog = ctx.prog
    # call site in _match_instances
    sites = calls_resolving_to(prog, f, ncs)
    for c in sites:
        b, problems = bind_args(ncs, c)
        ps = ncs.call_params
        roles = {}
        for p in ps:
            lp = p.name.lower()
            if "new" in lp and "pred" in lp:
                roles[p.name] = "cand"
            elif lp.startswith("pred"):
                roles[p.name] = "preds"
            elif lp.startswith("ref"):
                roles[p.name] = "ref"
            else:
                roles[p.name] = "pair"
        for pn, ro in roles.items():
            a = b.get(pn)
            if a is None:
                continue
            if ro == "cand":
                ctx.decide("R14.5", f, c, f"{f.qual}->new_combination_score:{pn}", "candidate argument is the loop's prediction label", isinstance(a, ast.Name) and a.id == pred, {"arg": norm(a)})
            elif ro == "ref":
                ctx.decide("R14.5", f, c, f"{f.qual}->new_combination_score:{pn}", "reference argument is the loop's reference label", isinstance(a, ast.Name) and a.id == ref, {"arg": norm(a)})
            elif ro == "preds":
                src = a
                if isinstance(a, ast.Name):
                    d = single_def(f, a.id)
                    src = d if d is not None else a
                ok = isinstance(src, ast.Call) and isinstance(src.func, ast.Attribute) and src.func.attr in labelmap_api(prog)["preds_of"] and len(src.args) == 1 and isinstance(src.args[0], ast.Name) and src.args[0].id == ref
                if not ok and kinds is not None:
                    # a copy of <index>[ref] of a local index kept in lockstep with the label map
                    inner = src
                    if isinstance(inner, ast.Call) and isinstance(inner.func, ast.Name) and inner.func.id in ("list", "tuple", "sorted") and len(inner.args) == 1:
                        inner = inner.args[0]
                    elif isinstance(inner, ast.Call) and isinstance(inner.func, ast.Attribute) and inner.func.attr == "copy" and not inner.args:
                        inner = inner.func.value
                    elif isinstance(inner, ast.Subscript) and isinstance(inner.slice, ast.Slice) and inner.slice.lower is None and inner.slice.upper is None and inner.slice.step is None:
                        inner = inner.value
                    elif isinstance(inner, ast.BinOp):
                        inner = None
                    if isinstance(inner, ast.Subscript) and isinstance(inner.value, ast.Name) and isinstance(inner.slice, ast.Name) and inner.slice.id == ref and inner is not src:
                        why = _mirror_index(prog, f, inner.value.id, ref, pred, kinds, add_calls or [])
                        if why is None:
                            ok = True
                            ctx.ok("R14.5", f, c, f"{f.qual}:{inner.value.id}", f"local index {inner.value.id} is updated in lockstep with the label map (same block, same (prediction, reference)), so {norm(inner)} is the list of predictions matched to the reference")
                        elif why.startswith("!"):
                            ctx.violated("R14.5", f, c, f"{f.qual}:{inner.value.id}", "already-matched predictions handed to the combined score are all predictions mapped to the reference", {"index": inner.value.id, "reason": why[1:]})
                            continue
                        else:
                            ctx.undecided("R14.5", f, c, f"{f.qual}:{inner.value.id}", f"local index is not a provable mirror of the label map: {why}")
                            continue
                if not ok and isinstance(src, ast.Subscript) and isinstance(src.value, ast.Name) and isinstance(src.slice, ast.Name) and src.slice.id == ref and src.value.id not in {p_.name for p_ in f.params}:
                    # an element of a local container handed over uncopied: does the helper modify it?
                    mutated = [n for n in walk_no_nested(ncs.node) if isinstance(n, ast.Call) and isinstance(n.func, ast.Attribute) and n.func.attr in ("append", "extend", "insert", "remove", "pop", "clear") and isinstance(n.func.value, ast.Name) and n.func.value.id == pn]
                    if mutated:
                        ctx.violated("R14.5", f, c, f"{f.qual}->new_combination_score:{pn}", "already-matched predictions handed to the combined score are all predictions mapped to the reference", {"arg": norm(src), "reason": f"the helper modifies its parameter {pn} in place (line {mutated[0].lineno}), so the caller's {src.value.id}[{ref}] also receives candidates whose merge is rejected"})
                        continue
                if not ok and run_ok:
                    continue  # kept in a form this rule does not read: the run names every merged score after the predictions actually handed over (R14.7)
                ctx.decide("R14.5", f, c, f"{f.qual}->new_combination_score:{pn}", "already-matched predictions are those mapped to the loop's reference label", True if ok else None, {"arg": norm(src)})
    # body of new_combination_score
    g = ncs
    params = {p.name: p for p in g.call_params}
    cand = next((n for n in params if "new" in n.lower()), None)
    preds = next((n for n in params if n.lower().startswith("pred") and n != cand), None)
    refp = next((n for n in params if n.lower().startswith("ref")), None)
    pairp = next((n for n in params if n not in (cand, preds, refp)), None)
    mcalls = []
    env = prog.local_types(g)
    mcall_target = metric_enum_class(prog).lookup("__call__")
    for c in prog.calls_in(g):
        if mcall_target in prog.resolve_call(g, c, env):
            mcalls.append(c)
    if len(mcalls) != 1 or None in (cand, preds, refp, pairp):
        ctx.undecided("R14.5", g, g.node, f"{g.qual}", f"expected one matching-metric call with (preds, candidate, ref, pair) parameters; found {len(mcalls)} calls, params {list(params)}")
        return
    mc = mcalls[0]
    b, _ = bind_args(mcall_target, mc)
    # candidate must be part of the prediction selection at the time of the call
    appends = [n for n in walk_no_nested(g.node) if isinstance(n, ast.Call) and isinstance(n.func, ast.Attribute) and n.func.attr in ("append",) and isinstance(n.func.value, ast.Name) and n.func.value.id == preds and len(n.args) == 1 and isinstance(n.args[0], ast.Name) and n.args[0].id == cand]
    pi = b.get("pred_instance_idx")
    if isinstance(pi, ast.Name) and pi.id not in (preds, cand):
        d_ = single_def(g, pi.id)  # a local built from the matched predictions and the candidate
        pi = d_ if d_ is not None else pi
    incl = False
    if isinstance(pi, ast.Name) and pi.id == preds and appends and appends[0].lineno < mc.lineno:
        incl = True
    elif pi is not None and cand in {n.id for n in ast.walk(pi) if isinstance(n, ast.Name)} and preds in {n.id for n in ast.walk(pi) if isinstance(n, ast.Name)}:
        incl = True
    ctx.decide("R14.5", g, mc, f"{g.qual}:pred_selection", "prediction selection passed to the metric = already matched predictions + the candidate", True if incl else False, {"pred_instance_idx": norm(pi) if pi is not None else None})
    ri = b.get("ref_instance_idx")
    ctx.decide("R14.5", g, mc, f"{g.qual}:ref_selection", "reference selection passed to the metric is the reference label", isinstance(ri, ast.Name) and ri.id == refp, {"ref_instance_idx": norm(ri) if ri is not None else None})
    for pn, attr in (("reference_arr", "reference_arr"), ("prediction_arr", "prediction_arr")):
        a = b.get(pn)
        a0 = a
        if isinstance(a, ast.Name):
            d = _tuple_aware_def(g, a.id)
            a0 = d if d is not None else a
        direct = isinstance(a0, ast.Attribute) and a0.attr in (attr, "_" + attr) and isinstance(a0.value, ast.Name) and a0.value.id == pairp
        if direct:
            ctx.ok("R14.5", g, mc, f"{g.qual}:{pn}", f"metric receives the pair's full {attr}")
            continue
        # a slice: the crop must be computed from a selection that already includes the candidate
        if isinstance(a0, ast.Subscript):
            crop_names = {n.id for n in ast.walk(a0.slice) if isinstance(n, ast.Name)}
            crop_defs = [s for nm in crop_names for s in assignments_to(g, nm)]
            depends_on_cand = any(cand in {n.id for n in ast.walk(s) if isinstance(n, ast.Name)} for s in crop_defs)
            after_append = bool(appends) and all(s.lineno > appends[0].lineno for s in crop_defs) and any(preds in {n.id for n in ast.walk(s) if isinstance(n, ast.Name)} for s in crop_defs)
            if crop_defs and not depends_on_cand and not after_append:
                ctx.violated("R14.5", g, mc, f"{g.qual}:{pn}", "metric is evaluated on a crop computed without the candidate prediction (voxels of the candidate outside the crop are ignored)", {"arg": norm(a0), "crop_defined_at": [s.lineno for s in crop_defs]})
                continue
        wrong_side = isinstance(a0, ast.Attribute) and a0.attr.lstrip("_") in ("reference_arr", "prediction_arr") and a0.attr.lstrip("_") != attr
        if wrong_side:
            ctx.violated("R14.5", g, mc, f"{g.qual}:{pn}", f"metric parameter {pn} receives {norm(a0)}", None)
        else:
            ctx.undecided("R14.5", g, mc, f"{g.qual}:{pn}", f"array argument {norm(a) if a is not None else None} is not the pair's {attr}")


def _tuple_aware_def(g: Func, name: str) -> Optional[ast.expr]:
    asg = assignments_to(g, name)
    if len(asg) != 1 or not isinstance(asg[0], ast.Assign):
        return None
    a = asg[0]
    t = a.targets[0]
    if isinstance(t, ast.Name):
        return a.value
    if isinstance(t, ast.Tuple) and isinstance(a.value, ast.Tuple) and len(t.elts) == len(a.value.elts):
        for te, ve in zip(t.elts, a.value.elts):
            if isinstance(te, ast.Name) and te.id == name:
                return ve
    return None


_M = "panoptica/instance_matcher.py"
_MERGE = """                if (
                    self._matching_metric.increasing
                    and new_score > score_ref[ref_label]
                ) or (
                    self._matching_metric.decreasing
                    and new_score < score_ref[ref_label]
                ):"""

VARIANTS = [
    Variant("C14-m-d3", "R14.3", "mutant", [(_M, _MERGE, "                if new_score > score_ref[ref_label]:")], control=True, note="defect D3 of the original tree"),
    Variant("C14-m-ge", "R14.3", "mutant", [(_M, "                    and new_score > score_ref[ref_label]", "                    and new_score >= score_ref[ref_label]")]),
    Variant("C14-m-beats-helper", "R14.3", "mutant", [(_M, _MERGE, "                if self._matching_metric.score_beats_threshold(\n                    new_score, score_ref[ref_label]\n                ):")]),
    Variant("C14-m-swapped-dir", "R14.3", "mutant", [(_M, _MERGE, "                if (\n                    self._matching_metric.decreasing\n                    and new_score > score_ref[ref_label]\n                ) or (\n                    self._matching_metric.increasing\n                    and new_score < score_ref[ref_label]\n                ):")]),
    Variant("C14-m-no-skip", "R14.1", "mutant", [(_M, "            if labelmap.contains_pred(pred_label=pred_label):\n                # skip if prediction label is already matched\n                continue\n", "")], control=True),
    Variant("C14-m-no-score-update", "R14.4", "mutant", [(_M, "                    labelmap.add_labelmap_entry(pred_label, ref_label)\n                    score_ref[ref_label] = new_score\n", "                    labelmap.add_labelmap_entry(pred_label, ref_label)\n")]),
    Variant("C14-m-wrong-score-update", "R14.4", "mutant", [(_M, "                    score_ref[ref_label] = new_score\n", "                    score_ref[ref_label] = matching_score\n")]),
    Variant("C14-m-first-no-threshold", "R14.2", "mutant", [(_M, "            elif self._matching_metric.score_beats_threshold(\n                matching_score, self._matching_threshold\n            ):\n                # Match found, increment true positive count and collect IoU and Dice values\n                labelmap.add_labelmap_entry(pred_label, ref_label)\n                score_ref[ref_label] = matching_score", "            else:\n                labelmap.add_labelmap_entry(pred_label, ref_label)\n                score_ref[ref_label] = matching_score")]),
    Variant("C14-m-no-append", "R14.5", "mutant", [(_M, "        pred_labels.append(new_pred_label)\n", "")]),
    Variant("C14-m-crop-before-append", "R14.5", "mutant", [(_M, "        pred_labels.append(new_pred_label)\n        score = self._matching_metric(\n            unmatched_instance_pair.reference_arr,\n            prediction_arr=unmatched_instance_pair.prediction_arr,", "        from panoptica._functionals import _get_paired_crop\n        crop = _get_paired_crop(np.isin(unmatched_instance_pair.prediction_arr, pred_labels), unmatched_instance_pair.reference_arr == ref_label)\n        pred_labels.append(new_pred_label)\n        score = self._matching_metric(\n            unmatched_instance_pair.reference_arr[crop],\n            prediction_arr=unmatched_instance_pair.prediction_arr[crop],")]),
    Variant("C14-m-arrays-crossed", "R14.5", "mutant", [(_M, "            unmatched_instance_pair.reference_arr,\n            prediction_arr=unmatched_instance_pair.prediction_arr,\n            ref_instance_idx=ref_label,", "            unmatched_instance_pair.prediction_arr,\n            prediction_arr=unmatched_instance_pair.reference_arr,\n            ref_instance_idx=ref_label,")]),
    Variant("C14-t-helper", "R14.3", "twin", [(_M, _MERGE, "                better = new_score > score_ref[ref_label] if self._matching_metric.increasing else new_score < score_ref[ref_label]\n                if better:")]),
    Variant("C14-t-not-decreasing", "R14.3", "twin", [(_M, _MERGE, "                if (\n                    not self._matching_metric.decreasing\n                    and score_ref[ref_label] < new_score\n                ) or (\n                    self._matching_metric.decreasing\n                    and score_ref[ref_label] > new_score\n                ):")]),
    Variant("C14-t-list-concat", "R14.5", "twin", [(_M, "        pred_labels.append(new_pred_label)\n        score = self._matching_metric(\n            unmatched_instance_pair.reference_arr,\n            prediction_arr=unmatched_instance_pair.prediction_arr,\n            ref_instance_idx=ref_label,\n            pred_instance_idx=pred_labels,", "        score = self._matching_metric(\n            unmatched_instance_pair.reference_arr,\n            prediction_arr=unmatched_instance_pair.prediction_arr,\n            ref_instance_idx=ref_label,\n            pred_instance_idx=pred_labels + [new_pred_label],")]),
]
