"""C08 - zero-true-positive cases report exactly what the edge-case handler prescribes."""

from __future__ import annotations

import ast
import itertools

from ..absval import Interp, Obj, Sym, Unknown, enumerate_paths
from ..flow import ForwardFlow
from ..model import AnchorMissing, Func, Undecided, bind_args, dotted, norm, walk_no_nested
from ..report import Ctx
from ..variants import Variant
from .resultrun import PARAM_OF_SCENARIO, SCENARIOS, ResultInterp, Tagged, build_edge_case_handler, build_zero_tp_handler, call_method, metric_objs, reducer_verdict, scenario_of, obj_attr

INFO = {
    "explanation": "The edge-case classes are run abstractly on symbolic results: (R08.2) MetricZeroTPEdgeCaseHandling.__init__ on all 32 given/None patterns binds each scenario to its own parameter or the default; (R08.1) its __call__ on the sign classes of (tp,n_pred,n_ref) returns the scenario's value and never reaches the trailing raise; (R08.3) EdgeCaseHandler.handle_zero_tp dispatches to the handler of that metric with uncrossed counts; (R08.5/R08.6) PanopticaResult.__init__ run end-to-end on symbolic handlers: for tp=0 every list metric's AVG is the handler value of the realised scenario and STD the empty-list value, for tp>0 the handler has no influence; (R08.4) typestate of panoptic_evaluate: matching and evaluation are reached only in zero-checked state, _handle_zero_instances_cases returns tp=0/empty lists/uncrossed counts in each empty class; (R08.7) calculate_all swallows every exception of a derived metric. Delegated: the decision step really yields tp=0 for 'instances on both sides without a match' (R02.1, incl. thresholds equal to 0). Delegated: the final result receives the pair's own instance counts (pipeline wiring R01.2). R08.4 runs the zero-instance helper on symbolic counts and evaluates each path's result on the grid {0,1,2,3,7}^2 restricted to the points satisfying the path's decisions (comparisons with constants <= 3, verified). Further: R08.5 also with a handler that prescribes None; delegated R04.2 (an unmatched prediction is never relabelled onto a reference label), R15.8/R15.3 (handlers share no container), R12.2 (the arrays of a class group are the restriction of the caller's own prediction / reference, also for groups present on one side only - otherwise the wrong zero-TP scenario is realised). Round 7: every setting the zero-instance helper receives has a value of its own and must reach the result constructor under its own name. Round 9: aggregates computed on first use are read through __getattr__ (a prescribed None must stay None, not be recomputed as the mean of an empty list).",
    "trusted_base": ["Python semantics of the modelled AST subset", "np.average/np.std/np.sum/np.min/np.max treated as uninterpreted reducers"],
    "assumptions": ["the configured handler defines every evaluated metric (precondition of the property)"],
    "not_decided": ["numerical values of the metrics for tp>0 (C06/C07)"],
}

CLASSES = [(tp, p, r) for tp in (0, 2) for p in (0, 1, 3) for r in (0, 1, 5)]


def check_init_and_call(ctx: Ctx):
    prog = ctx.prog
    cls = prog.cls("utils.edge_case_handling:MetricZeroTPEdgeCaseHandling")
    init = cls.lookup("__init__")
    call = cls.lookup("__call__")
    if call is None:
        raise AnchorMissing("MetricZeroTPEdgeCaseHandling.__call__")
    n = 0
    full = None
    for default in (False, True):
        for pattern in itertools.product([False, True], repeat=4):
            given = dict(zip(SCENARIOS, pattern))
            h, out = build_zero_tp_handler(prog, "H", given, default)
            legal = default or all(pattern)
            construct = f"{init.qual}:default={'given' if default else 'None'},given={[s for s in SCENARIOS if given[s]]}"
            if not legal:
                ctx.decide("R08.2", init, init.node, construct, "under-specified handler is rejected", True if out.kind == "raise" else None, None, nontrivial=False)
                continue
            if h is None:
                ctx.violated("R08.2", init, out.node, construct, f"constructor fails on a fully specified handler: {out.exc}")
                continue
            # query the object through its own __call__ in each scenario
            for sc in SCENARIOS:
                tp, p, r = {"NO_INSTANCES": (0, 0, 0), "EMPTY_PRED": (0, 0, 5), "EMPTY_REF": (0, 3, 0), "NORMAL": (0, 3, 5)}[sc]
                outs, _ = call_method(prog, h, "__call__", _bind(call, tp, p, r))
                want = Sym(f"H.{sc}.value") if given[sc] else Sym("H.DEFAULT.value")
                for o in outs:
                    got = o.value[1] if o.kind == "return" and isinstance(o.value, tuple) and len(o.value) == 2 else None
                    flag = o.value[0] if got is not None or (o.kind == "return" and isinstance(o.value, tuple)) else None
                    ok = o.kind == "return" and flag is True and got == want
                    n += 1
                    ctx.decide("R08.2", init, init.node, construct + f":{sc}", f"scenario {sc} yields {'its own parameter' if given[sc] else 'default_result'}", True if ok else (False if o.kind in ("return", "raise") and not o.decisions else None), {"got": repr(o.value), "want": repr(want), "outcome": o.kind})
            if all(pattern) and not default:
                full = h
    if full is None:
        raise Undecided("no fully specified handler object could be built")
    # R08.1 on the sign classes with several representatives
    for tp, p, r in CLASSES:
        outs, _ = call_method(prog, full, "__call__", _bind(call, tp, p, r))
        sc = scenario_of(tp, p, r)
        for o in outs:
            construct = f"{call.qual}:class(tp={tp},n_pred={p},n_ref={r})"
            if o.decisions:
                ctx.undecided("R08.1", call, o.node, construct, "classification depends on an unmodelled condition", {"decisions": [norm(x[0]) for x in o.decisions if isinstance(x[0], ast.AST)]})
                continue
            if o.kind != "return" or not (isinstance(o.value, tuple) and len(o.value) == 2):
                ctx.violated("R08.1", call, o.node, construct, f"zero-TP classification does not return (flag, value): {o.kind} {o.exc or ''} {o.value!r}", {"tp": tp, "n_pred": p, "n_ref": r})
                continue
            flag, val = o.value
            if sc is None:
                ctx.decide("R08.1", call, o.node, construct, "with tp>0 the handler reports 'no edge case'", flag is False, {"got": repr(o.value)})
            else:
                want = Sym(f"H.{sc}.value")
                ctx.decide("R08.1", call, o.node, construct, f"(tp,n_pred,n_ref) in class {sc} returns (True, value configured for {sc})", flag is True and val == want, {"got": repr(o.value), "want": repr(want)})
    ctx.floor("R08.1", len(CLASSES), "sign-class rows")


def _bind(f: Func, tp, p, r) -> dict:
    out = {}
    for prm in f.call_params:
        n = prm.name.lower()
        if n == "tp":
            out[prm.name] = tp
        elif "pred" in n:
            out[prm.name] = p
        elif "ref" in n:
            out[prm.name] = r
    if len(out) != 3:
        raise AnchorMissing(f"{f.qual}: parameters not recognised as (tp, n_pred, n_ref)")
    return out


def check_dispatch(ctx: Ctx):
    """R08.3: EdgeCaseHandler.handle_zero_tp forwards to the handler of that metric, uncrossed."""
    prog = ctx.prog
    metrics = metric_objs(prog)
    ech, handlers = build_edge_case_handler(prog, metrics)
    f = ech.cls.lookup("handle_zero_tp")
    if f is None:
        raise AnchorMissing("EdgeCaseHandler.handle_zero_tp")
    for m in metrics[:3]:
        name = m.attrs["_name_"]
        for tp, p, r in [(0, 0, 0), (0, 0, 5), (0, 3, 0), (0, 3, 5), (2, 3, 5)]:
            args = _bind(f, tp, p, r)
            mp = next((x.name for x in f.call_params if "metric" in x.name.lower()), None)
            if mp is None:
                raise AnchorMissing("handle_zero_tp has no metric parameter")
            args[mp] = m
            outs, _ = call_method(prog, ech, "handle_zero_tp", args, metrics=metrics)
            sc = scenario_of(tp, p, r)
            for o in outs:
                construct = f"{f.qual}:metric={name},class(tp={tp},n_pred={p},n_ref={r})"
                if o.decisions or o.kind != "return" or not isinstance(o.value, tuple):
                    ctx.decide("R08.3", f, o.node, construct, "dispatch evaluable", None if o.decisions else False, {"outcome": o.kind, "exc": o.exc, "value": repr(o.value)})
                    continue
                flag, val = o.value
                if sc is None:
                    ctx.decide("R08.3", f, o.node, construct, "tp>0: not an edge case", flag is False)
                else:
                    want = Sym(f"H_{name}.{sc}.value")
                    ctx.decide("R08.3", f, o.node, construct, f"value of the handler of metric {name} for scenario {sc}", flag is True and val == want, {"got": repr(o.value), "want": repr(want)})
    # a metric without handler must raise (not silently pass)
    return metrics, ech


def check_result_constructor(ctx: Ctx):
    """R08.5 / R08.6: PanopticaResult.__init__ end-to-end on symbolic handlers."""
    prog = ctx.prog
    metrics = metric_objs(prog)
    ech, handlers = build_edge_case_handler(prog, metrics)
    rcls = prog.cls("panoptica_result:PanopticaResult")
    init = rcls.lookup("__init__")
    pn = [p.name for p in init.call_params]
    # a handler may prescribe None (EdgeCaseResult.NONE): the aggregate is then exactly None
    ech_none, _ = build_edge_case_handler(prog, metrics, none_values=True)
    for tp, p, r in [(0, 0, 0), (0, 0, 5), (0, 3, 0), (0, 3, 5)]:
        args = {"reference_arr": None, "prediction_arr": None, "num_pred_instances": p, "num_ref_instances": r, "tp": tp, "list_metrics": {m: [] for m in metrics[:3]}, "edge_case_handler": ech_none}
        if "global_metrics" in pn:
            args["global_metrics"] = []
        o_n = Obj(rcls, {})

        def make_n(prefix, args=args, o_n=o_n):
            o_n.attrs.clear()
            return ResultInterp(prog, init, dict(args), metrics=metrics, self_obj=o_n, prefix=prefix)

        outs_n = enumerate_paths(make_n)
        cn = f"{init.qual}:none-valued handler,class(tp={tp},n_pred={p},n_ref={r})"
        if len(outs_n) != 1 or outs_n[0].decisions or outs_n[0].kind == "raise":
            ctx.decide("R08.5", init, init.node, cn, "result constructor completes when the handler prescribes None", False if (len(outs_n) == 1 and outs_n[0].kind == "raise" and not outs_n[0].decisions) else None, {"outcome": outs_n[0].kind, "exc": outs_n[0].exc})
            continue
        lm_n = o_n.attrs.get("_list_metrics")
        for m in metrics[:3]:
            e = lm_n.get(m) if isinstance(lm_n, dict) else None
            avg = obj_attr(prog, e, "AVG", "?") if isinstance(e, Obj) else "?"
            ctx.decide("R08.5", init, init.node, cn + f":metric={m.attrs['_name_']}", "a prescribed None reaches the aggregate (AVG) as None, not as another value", avg is None, {"got": repr(avg)})
    need = ["reference_arr", "prediction_arr", "num_pred_instances", "num_ref_instances", "tp", "list_metrics", "edge_case_handler"]
    for x in need:
        if x not in pn:
            raise AnchorMissing(f"PanopticaResult.__init__ has no parameter {x}")
    evaluated = metrics[:2] + metrics[2:3]
    n = 0
    for tp, p, r in [(0, 0, 0), (0, 0, 5), (0, 3, 0), (0, 3, 5), (1, 1, 1), (2, 3, 5)]:
        lists = {m: [Sym(f"v{i + 1}_{m.attrs['_name_']}") for i in range(tp)] for m in evaluated}
        args = {"reference_arr": None, "prediction_arr": None, "num_pred_instances": p, "num_ref_instances": r, "tp": tp, "list_metrics": lists, "edge_case_handler": ech}
        if "global_metrics" in pn:
            args["global_metrics"] = []
        o_res = Obj(rcls, {})
        its = []

        def make(prefix, args=args, o_res=o_res):
            o_res.attrs.clear()
            it = ResultInterp(prog, init, dict(args), metrics=metrics, self_obj=o_res, prefix=prefix)
            its.append(it)
            return it

        outs = enumerate_paths(make)
        sc = scenario_of(tp, p, r)
        if len(outs) != 1 or outs[0].decisions:
            ctx.undecided("R08.5", init, init.node, f"{init.qual}:class(tp={tp},n_pred={p},n_ref={r})", "result constructor not evaluable without splitting", {"paths": len(outs), "decisions": [norm(d[0]) for d in outs[0].decisions if isinstance(d[0], ast.AST)][:5]})
            continue
        out = outs[0]
        if out.kind == "raise":
            ctx.violated("R08.5", init, out.node, f"{init.qual}:class(tp={tp},n_pred={p},n_ref={r})", f"result constructor raises {out.exc} in a zero-TP class", None)
            continue
        lm = o_res.attrs.get("_list_metrics")
        if not isinstance(lm, dict):
            ctx.undecided("R08.5", init, init.node, f"{init.qual}", "no _list_metrics mapping produced")
            continue
        for m in evaluated:
            name = m.attrs["_name_"]
            construct = f"{init.qual}:metric={name},class(tp={tp},n_pred={p},n_ref={r})"
            e = lm.get(m)
            if not isinstance(e, Obj):
                ctx.violated("R08.5", init, init.node, construct, "evaluated metric has no list-metric entry", None)
                continue
            avg, std, allv = obj_attr(prog, e, "AVG"), obj_attr(prog, e, "STD"), obj_attr(prog, e, "ALL")
            n += 1
            if sc is not None:
                want = Sym(f"H_{name}.{sc}.value")
                ctx.decide("R08.5", init, init.node, construct, f"sq aggregate (AVG) is the handler value of metric {name} for scenario {sc}", avg == want, {"got": repr(avg), "want": repr(want)})
                ctx.decide("R08.5", init, init.node, construct + ":std", "STD of the empty list is the configured empty-list value", std == Sym("ELS.value"), {"got": repr(std)})
            else:
                vals = tuple(lists[m])
                handler_vals = {Sym(f"H_{name}.{s}.value") for s in SCENARIOS} | {Sym("ELS.value")}
                v_avg = False if (avg in handler_vals or not isinstance(avg, Tagged)) else reducer_verdict("AVG", avg, vals)
                ctx.decide("R08.6", init, init.node, construct, "with tp>0 AVG is the mean of the list (handler has no influence)", v_avg, {"got": repr(avg)})
                v_std = False if (std in handler_vals or not isinstance(std, Tagged)) else reducer_verdict("STD", std, vals)
                ctx.decide("R08.6", init, init.node, construct + ":std", "with tp>0 STD is the population standard deviation of the list", v_std, {"got": repr(std)})
        # counts stored uncrossed
        for attr, want in (("tp", tp), ("num_pred_instances", p), ("num_ref_instances", r)):
            got = o_res.attrs.get(attr)
            ctx.decide("R08.5", init, init.node, f"{init.qual}:{attr},class(tp={tp},n_pred={p},n_ref={r})", f"result.{attr} is the constructor argument", got == want, {"got": repr(got), "want": want}, nontrivial=False)
    if n < 9:
        ctx.undecided("R08.5.floor", init, init.node, "floor:R08.5", f"only {n} list-metric entries inspected")


# ----------------------------------------------------------------------------------------
# R08.4  typestate of the pipeline + the zero-instance helper
# ----------------------------------------------------------------------------------------


def check_zero_helper(ctx: Ctx):
    """R08.4: the zero-instance helper, run on SYMBOLIC instance counts.  Its paths split on
    comparisons of the counts with small integer constants; every path's result is evaluated on
    the grid of counts {0,1,2,3,7}^2 restricted to the points that satisfy the path's decisions
    (exhaustive for comparisons with constants <= 3, which is verified).  For each point: an empty
    side must yield a result object with tp 0, empty lists and the pair's own counts and arrays;
    a pair with instances on both sides must be passed through."""
    from ..poly import Poly, Rat
    from .c02 import RatInterp, _rat

    prog = ctx.prog
    f = prog.func("panoptica_evaluator:_handle_zero_instances_cases")
    metrics = metric_objs(prog)
    pcls = prog.cls("utils.processing_pair:MatchedInstancePair")
    rinit = prog.cls("panoptica_result:PanopticaResult").lookup("__init__")
    NP, NR = Rat(Poly.var("n_pred")), Rat(Poly.var("n_ref"))
    GRID = [0, 1, 2, 3, 7]

    class ZeroRatInterp(RatInterp):
        def external_call(self, name, args, kwargs, node):
            if name.endswith("PanopticaResult") or name.endswith("PanopticaResult.__init__"):
                return Tagged("PanopticaResult", args, kwargs)
            return super().external_call(name, args, kwargs, node)

    holder = []

    def make(prefix):
        pair = Obj(pcls, {"n_prediction_instance": NP, "n_reference_instance": NR, "_prediction_arr": Sym("PRED_ARR"), "_reference_arr": Sym("REF_ARR")})
        args = {}
        for prm in f.call_params:
            n = prm.name.lower()
            if "pair" in n:
                args[prm.name] = pair
            elif n == "edge_case_handler":
                args[prm.name] = Sym("ECH")
            elif n == "global_metrics":
                args[prm.name] = Sym("GLOBAL_METRICS")
            elif "metric" in n and "global" not in n and "edge" not in n:
                args[prm.name] = metrics[:3]
            else:
                # any further setting the helper receives: a value of its own, to be handed on under its own name
                args[prm.name] = Sym("ARG_" + prm.name)
        it = ZeroRatInterp(prog, f, dict(args), metrics=metrics, prefix=prefix)
        it.root.no_inline = {rinit.qual}
        holder.append(pair)
        return it

    outs = enumerate_paths(make)

    def value_at(v, p, r):
        """concrete value of a symbolic count expression at the grid point (None: not a number)"""
        try:
            q = _rat(v).subst({"n_pred": Poly.const(p), "n_ref": Poly.const(r)})
        except TypeError:
            return None
        if q.is_poly() and q.as_poly().is_const():
            return q.as_poly().const_value()
        return None

    def holds(pv, d, p, r):
        opn, diff = pv
        c = value_at(diff, p, r)
        if c is None:
            return None
        res = {"Eq": c == 0, "NotEq": c != 0, "Lt": c < 0, "LtE": c <= 0, "Gt": c > 0, "GtE": c >= 0}.get(opn)
        return None if res is None else (res == bool(d))

    covered = set()
    for o, pair in zip(outs, holder):
        dtxt = "; ".join(f"{norm(nd) if isinstance(nd, ast.AST) else '?'}={d}" for nd, v, d in o.decisions)
        construct = f"{f.qual}" + (f"[{dtxt}]" if dtxt else "")
        pvs = []
        modelled = True
        for nd, v, d in o.decisions:
            pv = getattr(v, "pv", None)
            if not pv or not isinstance(pv[1], Rat) or not pv[1].is_poly() or not pv[1].as_poly().is_linear() or abs(pv[1].as_poly().const_value() if hasattr(pv[1].as_poly(), "const_value") and pv[1].as_poly().is_const() else 0) > 3:
                modelled = False
            else:
                consts = [abs(c) for m, c in pv[1].as_poly().terms.items() if not m]
                if any(c > 3 for c in consts):
                    modelled = False
            pvs.append((pv, d))
        if not modelled:
            ctx.undecided("R08.4", f, o.node, construct, "zero-instance helper splits on a condition that is not a comparison of the counts with a small constant")
            continue
        points = [(p, r) for p in GRID for r in GRID if all(holds(pv, d, p, r) for pv, d in pvs)]
        if not points:
            continue  # infeasible combination of decisions
        if o.kind != "return":
            ctx.violated("R08.4", f, o.node, construct, f"zero-instance helper ends with {o.kind} {o.exc or ''} for instance counts {points[0]}", {"counts (n_pred, n_ref)": points[:4]})
            continue
        for p, r in points:
            covered.add((p, r))
        bad = {}
        v = o.value
        for p, r in points:
            if p > 0 and r > 0:
                if v is not pair:
                    bad.setdefault("a pair with instances on both sides is passed through unchanged", []).append((p, r))
                continue
            evaluated = isinstance(v, Obj) and v.cls.name == "EvaluateInstancePair"
            if not (isinstance(v, Tagged) and v.name.endswith("PanopticaResult")) and not evaluated:
                bad.setdefault("an empty side produces a result object (no matching/evaluation on an empty side)", []).append((p, r))
                continue
            if evaluated:
                # the evaluated-pair record of "nothing matched": the result object is built from it by the
                # pipeline's own result stage (wiring of handler / global metrics: R01.2)
                kw = dict(v.attrs)
                kw.setdefault("edge_case_handler", Sym("ECH"))
                kw.setdefault("global_metrics", Sym("GLOBAL_METRICS"))
            else:
                kw = dict(v.kwargs)
                names = [x.name for x in rinit.call_params]
                for i, a in enumerate(v.args):
                    if i < len(names):
                        kw[names[i]] = a
            lm = kw.get("list_metrics")
            ok_lists = isinstance(lm, dict) and len(lm) == 3 and all(val == [] for val in lm.values()) and all(any(k is m or k == Sym(f"Metric.{m.attrs['_name_']}") for k in lm) for m in metrics[:3])
            checks = [
                ("tp is 0", value_at(kw.get("tp"), p, r) == 0),
                ("number of prediction instances passed uncrossed", value_at(kw.get("num_pred_instances"), p, r) == p),
                ("number of reference instances passed uncrossed", value_at(kw.get("num_ref_instances"), p, r) == r),
                ("an empty list per evaluated metric", ok_lists),
                ("prediction array passed uncrossed", kw.get("prediction_arr") == Sym("PRED_ARR")),
                ("reference array passed uncrossed", kw.get("reference_arr") == Sym("REF_ARR")),
                ("configured edge-case handler passed on", kw.get("edge_case_handler") == Sym("ECH")),
                ("global metric selection passed on", kw.get("global_metrics") == Sym("GLOBAL_METRICS")),
            ]
            # every other setting the helper receives and the result constructor knows by the same name
            for prm in f.call_params:
                if prm.name in {x.name for x in rinit.call_params} and prm.name not in ("edge_case_handler", "global_metrics") and not evaluated:
                    checks.append((f"setting {prm.name} passed on under its own name", kw.get(prm.name) == Sym("ARG_" + prm.name)))
            for desc, ok in checks:
                if not ok:
                    bad.setdefault(desc, []).append((p, r))
        kinds = sorted({("both" if p > 0 and r > 0 else "none" if p == r == 0 else "empty-pred" if p == 0 else "empty-ref") for p, r in points})
        if bad:
            for desc, pts in bad.items():
                ctx.violated("R08.4", f, o.node, construct + ":" + desc.split()[0], desc, {"counts (n_pred, n_ref)": pts[:4]})
        else:
            ctx.ok("R08.4", f, o.node, construct, f"zero-instance helper correct for the count classes {kinds} of this path", {"grid_points": len(points)})
    missing = [(p, r) for p in GRID for r in GRID if (p, r) not in covered]
    ctx.decide("R08.4", f, f.node, f"{f.qual}:coverage", "every combination of instance counts on the grid is handled by an evaluable path", not missing, {"unhandled": missing[:6]})


class ZeroInterp(ResultInterp):
    def external_call(self, name, args, kwargs, node):
        if name.endswith("PanopticaResult") or name.endswith("PanopticaResult.__init__"):
            return Tagged("PanopticaResult", args, kwargs)
        return super().external_call(name, args, kwargs, node)


class PipelineState(ForwardFlow):
    """States: frozenset of (class name, zero_checked) for the pipeline variable."""

    def __init__(self, ctx: Ctx, f: Func, var: str):
        self.ctx = ctx
        self.prog = ctx.prog
        self.f = f
        self.var = var
        self.env = self.prog.local_types(f)
        self.events = []  # (stage name, state, node)
        self.zero = self.prog.func("panoptica_evaluator:_handle_zero_instances_cases")

    STAGES = {
        "approximate_instances": (["SemanticPair"], ["UnmatchedInstancePair", "MatchedInstancePair"]),
        "match_instances": (["UnmatchedInstancePair"], ["MatchedInstancePair"]),
        "evaluate_matched_instance": (["MatchedInstancePair"], ["EvaluateInstancePair"]),
    }

    def _isinstance_test(self, test):
        if isinstance(test, ast.Call) and isinstance(test.func, ast.Name) and test.func.id == "isinstance" and len(test.args) == 2 and isinstance(test.args[0], ast.Name) and test.args[0].id == self.var:
            k = test.args[1]
            names = [dotted(x) for x in (k.elts if isinstance(k, ast.Tuple) else [k])]
            if all(names):
                return [n.split(".")[-1] for n in names]
        return None

    def branch(self, test, state):
        pos = True
        t = test
        if isinstance(t, ast.UnaryOp) and isinstance(t.op, ast.Not):
            pos, t = False, t.operand
        names = self._isinstance_test(t)
        if names is None:
            return [state], [state]
        cls, z = state
        is_in = self._is_sub(cls, names)
        yes, no = ([state], []) if is_in else ([], [state])
        return (yes, no) if pos else (no, yes)

    def _is_sub(self, cls, names):
        c = self.prog.try_cls(cls)
        if c is None:
            return cls in names
        return any(k.name in names for k in c.mro())

    def transfer(self, st, state):
        cls, z = state
        # assignments to the pipeline variable
        tgt_val = None
        if isinstance(st, ast.Assign) and len(st.targets) == 1 and isinstance(st.targets[0], ast.Name) and st.targets[0].id == self.var:
            tgt_val = st.value
        elif isinstance(st, ast.AnnAssign) and isinstance(st.target, ast.Name) and st.target.id == self.var and st.value is not None:
            tgt_val = st.value
        # stage calls anywhere in the statement (also when the result is not stored in var)
        for n in ast.walk(st):
            if isinstance(n, ast.Call):
                nm = n.func.attr if isinstance(n.func, ast.Attribute) else n.func.id if isinstance(n.func, ast.Name) else None
                if nm in self.STAGES and any(isinstance(a, ast.Name) and a.id == self.var for a in list(n.args) + [k.value for k in n.keywords]):
                    self.events.append((nm, state, n))
        if tgt_val is None:
            return [state]
        v = tgt_val
        if isinstance(v, ast.Call):
            nm = v.func.attr if isinstance(v.func, ast.Attribute) else v.func.id if isinstance(v.func, ast.Name) else None
            if nm in self.STAGES:
                return [(c, False) for c in self.STAGES[nm][1]]
            if nm == self.zero.name:
                rc = self._return_classes(v)
                if rc is not None and "<same>" in rc:
                    return [((cls if k == "<same>" else k), True) for k in rc]
                return [(cls, True), ("PanopticaResult", True)]
            if nm == "PanopticaResult":
                return [("PanopticaResult", z)]
            if nm == "copy" and isinstance(v.func, ast.Attribute):
                return [state]
            # a helper of the package that receives the pipeline variable: what it can hand back is
            # read off its return statements (its parameter unchanged / a freshly constructed object)
            rc = self._return_classes(v)
            if rc is not None:
                return [((cls if k == "<same>" else k), z) for k in rc]
        raise Undecided(f"{self.f.qual}: unmodelled assignment to pipeline variable: {norm(st)}")

    def _return_classes(self, call: ast.Call):
        from .common import single_def

        callees = [c for c in self.prog.resolve_call(self.f, call, self.env, fanout=False) if isinstance(c, Func)]
        if len(callees) != 1:
            return None
        h = callees[0]
        b, problems = bind_args(h, call)
        if problems:
            return None
        param = next((pn for pn, a in b.items() if isinstance(a, ast.Name) and a.id == self.var), None)
        out = []
        rets = [r for r in walk_no_nested(h.node) if isinstance(r, ast.Return)]
        if not rets:
            return None
        for r in rets:
            e = r.value
            if isinstance(e, ast.Name) and e.id == param:
                out.append("<same>")
                continue
            if isinstance(e, ast.Name):
                d = single_def(h, e.id)
                e = d if d is not None else e
            k = None
            if isinstance(e, ast.Call):
                k = self.prog.resolve_class_expr(h.module, e.func)
            if k is None:
                return None
            out.append(k.name)
        return sorted(set(out))


def check_pipeline_typestate(ctx: Ctx):
    prog = ctx.prog
    f = prog.func("panoptica_evaluator:panoptic_evaluate")
    # the pipeline variable: the one tested by isinstance against the pair classes
    cnt = {}
    for n in walk_no_nested(f.node):
        if isinstance(n, ast.Call) and isinstance(n.func, ast.Name) and n.func.id == "isinstance" and len(n.args) == 2 and isinstance(n.args[0], ast.Name):
            cnt[n.args[0].id] = cnt.get(n.args[0].id, 0) + 1
    if not cnt:
        raise AnchorMissing("panoptic_evaluate: no isinstance cascade found")
    var = max(cnt, key=cnt.get)
    # statements up to the first assignment of var are skipped (var = input_pair.copy())
    first = None
    for i, st in enumerate(f.node.body):
        if any(isinstance(n, ast.Name) and n.id == var and isinstance(n.ctx, ast.Store) for n in ast.walk(st)):
            first = i
            break
    if first is None:
        raise AnchorMissing("pipeline variable never assigned")
    for start in ("SemanticPair", "UnmatchedInstancePair", "MatchedInstancePair"):
        flow = PipelineState(ctx, f, var)
        res = flow.run_block(f.node.body[first + 1 :], [(start, False)])
        construct = f"{f.qual}:input={start}"
        # every exit is a return in state PanopticaResult; no raise reachable (other than asserts)
        bad_ret = [(s, n) for s, n in res.returns if s[0] != "PanopticaResult"]
        ctx.decide("R08.4", f, f.node, construct + ":returns", "every return happens with a PanopticaResult", bool(res.returns) and not bad_ret, {"states": [s for s, _ in res.returns]})
        reach_raise = [(s, n) for s, n in res.raises]
        ctx.decide("R08.4", f, f.node, construct + ":no-raise", "the trailing RuntimeError is unreachable", not reach_raise and not res.normal, {"raise_states": [s for s, _ in reach_raise], "fallthrough": res.normal})
        seen_stage = set()
        for nm, (cls, z), node in flow.events:
            seen_stage.add(nm)
            admissible = cls in PipelineState.STAGES[nm][0]
            ctx.decide("R08.4", f, node, construct + f":{nm}:state", f"{nm} is called only on a {'/'.join(PipelineState.STAGES[nm][0])}", admissible, {"state": cls})
            if nm in ("match_instances", "evaluate_matched_instance"):
                ctx.decide("R08.4", f, node, construct + f":{nm}:zero-checked", f"{nm} is reached only after the zero-instance check of the current pair", z, {"state": [cls, z]})
        want = {"SemanticPair": {"approximate_instances", "match_instances", "evaluate_matched_instance"}, "UnmatchedInstancePair": {"match_instances", "evaluate_matched_instance"}, "MatchedInstancePair": {"evaluate_matched_instance"}}[start]
        ctx.decide("R08.4", f, f.node, construct + ":stages", f"stages reachable from {start}: {sorted(want)}", seen_stage == want, {"seen": sorted(seen_stage)})


def check_calculate_all(ctx: Ctx):
    """R08.7: calculate_all must not let an exception of a derived metric escape (a handler may
    configure None, so sq*rq raises TypeError)."""
    prog = ctx.prog
    f = prog.func("panoptica_result:PanopticaResult.calculate_all")
    # the metric access may sit in a helper method that calculate_all calls on self
    funcs = [f]
    for c in prog.calls_in(f):
        if isinstance(c.func, ast.Attribute) and isinstance(c.func.value, ast.Name) and c.func.value.id == "self" and f.cls is not None:
            m = f.cls.lookup(c.func.attr)
            if m is not None and m not in funcs:
                funcs.append(m)
    tries = [n for g in funcs for n in walk_no_nested(g.node) if isinstance(n, ast.Try)]
    ok = False
    detail = None
    for t in tries:
        has_get = any(isinstance(n, ast.Call) and isinstance(n.func, ast.Name) and n.func.id == "getattr" or isinstance(n, ast.Attribute) for n in ast.walk(ast.Module(body=t.body, type_ignores=[])))
        if not has_get:
            continue
        for h in t.handlers:
            names = []
            if h.type is None:
                names = ["BaseException"]
            else:
                names = [dotted(x) for x in (h.type.elts if isinstance(h.type, ast.Tuple) else [h.type])]
            detail = names
            if any(n in ("Exception", "BaseException") for n in names):
                ok = True
    ctx.decide("R08.7", f, f.node, f"{f.qual}:handler", "exceptions of derived metrics (e.g. TypeError from a None edge-case value) are caught so evaluation completes", True if ok else (False if detail else None), {"caught": detail})


def _run_rule(ctx, name, fn):
    """a sub-rule that cannot be evaluated is recorded as undecided; the remaining rules still run"""
    try:
        return fn(ctx)
    except (Undecided, AnchorMissing) as e:
        ctx.undecided(name, None, None, f"{name}:analysis", f"{type(e).__name__}: {e}")
        return 0


def check(ctx: Ctx):
    # "instances on both sides without a match": tp must really be 0 then (decision step, R02.1)
    from . import c02

    _run_rule(ctx, "check_evaluate", c02.check_evaluate)
    _run_rule(ctx, "check_init_and_call", check_init_and_call)
    _run_rule(ctx, "check_dispatch", check_dispatch)
    _run_rule(ctx, "check_result_constructor", check_result_constructor)
    _run_rule(ctx, "check_zero_helper", check_zero_helper)
    _run_rule(ctx, "check_pipeline_typestate", check_pipeline_typestate)
    _run_rule(ctx, "check_calculate_all", check_calculate_all)
    # "fp and fn are the instance counts": the final result receives the pair's own counts (R01.2)
    from . import c01, c03

    c03._guarded(ctx, "R01.2", c01.check_pipeline)
    # "no match -> tp = 0": relabelling must not move an unmatched prediction onto a reference label
    from . import c04

    _run_rule(ctx, "check_chained_replacement", c04.check_chained_replacement)
    c03._guarded(ctx, "R04.2", c04.check_relabel)
    # "the configured handler": handlers of different evaluators share no container (R15.7/R15.8)
    from . import c15

    c03._guarded(ctx, "R15.8", c15.check_param_aliasing)
    c03._guarded(ctx, "R15.3", c15.check_mutable_defaults)
    # "empty prediction / empty reference" of a class group: the group's arrays are the restriction
    # of the caller's own prediction / reference (R12.2), also for groups present on one side only
    from . import c12

    c03._guarded(ctx, "R12.2", c12.check_grouped)


_E = "panoptica/utils/edge_case_handling.py"
_R = "panoptica/panoptica_result.py"
_P = "panoptica/panoptica_evaluator.py"
_X = "panoptica/metrics/metrics.py"

VARIANTS = [
    Variant("C08-m-call-swap", "R08.1", "mutant", [(_E, "        elif num_ref_instances == 0:\n            return True, self._edgecase_dict[EdgeCaseZeroTP.EMPTY_REF].value\n        elif num_pred_instances == 0:\n            return True, self._edgecase_dict[EdgeCaseZeroTP.EMPTY_PRED].value", "        elif num_ref_instances == 0:\n            return True, self._edgecase_dict[EdgeCaseZeroTP.EMPTY_PRED].value\n        elif num_pred_instances == 0:\n            return True, self._edgecase_dict[EdgeCaseZeroTP.EMPTY_REF].value")], control=True),
    Variant("C08-m-call-product", "R08.1", "mutant", [(_E, "        elif num_pred_instances + num_ref_instances == 0:", "        elif num_pred_instances * num_ref_instances == 0:")]),
    Variant("C08-m-init-swap", "R08.2", "mutant", [(_E, "        self._edgecase_dict[EdgeCaseZeroTP.EMPTY_PRED] = (\n            empty_prediction_result\n            if empty_prediction_result is not None", "        self._edgecase_dict[EdgeCaseZeroTP.EMPTY_PRED] = (\n            empty_reference_result\n            if empty_prediction_result is not None")], control=True),
    Variant("C08-m-dispatch-crossed", "R08.3", "mutant", [(_E, "            num_pred_instances=num_pred_instances,\n            num_ref_instances=num_ref_instances,\n        )", "            num_pred_instances=num_ref_instances,\n            num_ref_instances=num_pred_instances,\n        )")]),
    Variant("C08-m-result-crossed", "R08.5", "mutant", [(_R, "                    num_pred_instances=self.num_pred_instances,\n                    num_ref_instances=self.num_ref_instances,", "                    num_pred_instances=self.num_ref_instances,\n                    num_ref_instances=self.num_pred_instances,")]),
    Variant("C08-m-edge-always", "R08.6", "mutant", [(_X, "        if is_edge_case:\n            self.AVG: float | None = edge_case_result", "        if is_edge_case or len(value_list) < 2:\n            self.AVG: float | None = edge_case_result")]),
    Variant("C08-m-std-ddof", "R08.6", "mutant", [(_X, "else empty_list_std if len(self.ALL) == 0 else np.std(self.ALL)", "else empty_list_std if len(self.ALL) == 0 else np.std(self.ALL, ddof=1)")]),
    Variant("C08-m-zero-first-check-dropped", "R08.4", "mutant", [(_P, "        processing_pair = _handle_zero_instances_cases(\n            processing_pair,\n            eval_metrics=instance_metrics,\n            global_metrics=global_metrics,\n            edge_case_handler=edge_case_handler,\n        )\n\n    if isinstance(processing_pair, UnmatchedInstancePair):\n        if verbose:", "        pass\n\n    if isinstance(processing_pair, UnmatchedInstancePair):\n        if verbose:")], control=True),
    Variant("C08-m-zero-crossed", "R08.4", "mutant", [(_P, "        panoptica_result_args[\"num_ref_instances\"] = n_reference_instance\n        panoptica_result_args[\"num_pred_instances\"] = n_prediction_instance", "        panoptica_result_args[\"num_ref_instances\"] = n_prediction_instance\n        panoptica_result_args[\"num_pred_instances\"] = n_reference_instance")]),
    Variant("C08-m-zero-or", "R08.4", "mutant", [(_P, "    elif n_prediction_instance == 0:\n        # All predictions are missing, only false negatives\n        n_reference_instance = n_reference_instance\n        n_prediction_instance = 0\n        is_edge_case = True\n", "")]),
    Variant("C08-m-calcall-narrow", "R08.7", "mutant", [(_R, "            try:\n                v = getattr(self, k)\n            except Exception as e:\n                metric_errors[k] = e\n\n        if print_errors:", "            try:\n                v = getattr(self, k)\n            except (MetricCouldNotBeComputedException, ZeroDivisionError) as e:\n                metric_errors[k] = e\n\n        if print_errors:")]),
    Variant("C08-t-call-reorder", "R08.1", "twin", [(_E, "        elif num_ref_instances == 0:\n            return True, self._edgecase_dict[EdgeCaseZeroTP.EMPTY_REF].value\n        elif num_pred_instances == 0:\n            return True, self._edgecase_dict[EdgeCaseZeroTP.EMPTY_PRED].value", "        elif num_pred_instances == 0:\n            return True, self._edgecase_dict[EdgeCaseZeroTP.EMPTY_PRED].value\n        elif not num_ref_instances:\n            return True, self._edgecase_dict[EdgeCaseZeroTP.EMPTY_REF].value")]),
    Variant("C08-t-call-helper", "R08.1", "twin", [(_E, "    def __call__(\n        self, tp: int, num_pred_instances, num_ref_instances\n    ) -> tuple[bool, float | None]:\n        if tp != 0:", "    def _scenario_value(self, scenario):\n        return self._edgecase_dict[scenario].value\n\n    def __call__(\n        self, tp: int, num_pred_instances, num_ref_instances\n    ) -> tuple[bool, float | None]:\n        if tp != 0:"), (_E, "            return True, self._edgecase_dict[EdgeCaseZeroTP.NO_INSTANCES].value", "            return True, self._scenario_value(EdgeCaseZeroTP.NO_INSTANCES)")]),
    Variant("C08-t-mean", "R08.6", "twin", [(_X, "self.AVG = None if self.ALL is None else np.average(self.ALL)", "self.AVG = None if self.ALL is None else np.mean(self.ALL)")]),
]
