"""Abstract numpy label arrays for end-to-end runs (label selection / alias / emptiness).

AArr objects are mutable and shared exactly like the numpy arrays they stand for: an alias
in the analysed code is the same Python object here, `.copy()`/`.astype()` create a new one.
In-place stores are recorded with the freshness of the target, so the same run serves the
'no input mutation' clause (C15) and the binarisation / selection clauses (C12, C13).
"""

from __future__ import annotations

import ast
from typing import Any, Optional

from ..absval import Interp, Obj, Sym, Unknown
from ..model import Undecided, norm
from ..pointwise import DTYPE_NAMES
from .resultrun import ResultInterp, Tagged

NARROW = {"u8": 8, "u16": 16, "u32": 32, "i8": 7, "i16": 15, "i32": 31}


class AArr:
    _n = 0

    def __init__(self, side: str, fresh: bool, content: str = "labels", selection: Optional[tuple] = None, origin: Optional["AArr"] = None):
        AArr._n += 1
        self.uid = AArr._n
        self.side = side  # 'PRED' | 'REF' | other tag
        self.fresh = fresh  # True: does not alias a caller-owned array
        self.content = content  # 'labels' | 'bin' (1 on foreground) | 'bool' | 'opaque:<why>'
        self.selection = selection  # None = all labels; ('keep', labels-expr-key) restricted to a label set
        self.casts: list[str] = []
        self.view_of: Optional[AArr] = origin  # basic-slice view shares memory with origin
        self.empty_unknown = Unknown(f"empty:{side}")
        self.events: list = []
        self.vid = self.uid  # identity of the VALUES: shared with copies until either is written to

    def values_changed(self):
        AArr._n += 1
        self.vid = AArr._n

    def root(self) -> "AArr":
        a = self
        while a.view_of is not None:
            a = a.view_of
        return a

    def is_fresh(self) -> bool:
        return self.root().fresh

    def describe(self) -> str:
        sel = "" if self.selection is None else f" restricted to {self.selection[1]}"
        c = f" cast {self.casts}" if self.casts else ""
        return f"{self.side}[{self.content}{sel}{c}{' fresh' if self.is_fresh() else ' ALIAS-OF-INPUT'}]"

    def __repr__(self):
        return self.describe()


class AMask:
    def __init__(self, of: AArr, kind: str, detail: Any = None):
        self.of = of
        self.kind = kind  # 'nonzero' | 'zero' | 'eq' | 'isin' | 'notin' | 'other'
        self.detail = detail
        self.of_vid = getattr(of, "vid", None)  # the values the mask was computed from

    def masks(self, arr: "AArr") -> bool:
        """was this mask computed from exactly the values `arr` holds now?"""
        return self.of is arr or (self.of_vid is not None and self.of_vid == getattr(arr, "vid", object()))

    def __repr__(self):
        return f"mask({self.of.side} {self.kind} {self.detail if self.detail is not None else ''})"


class LabelKeys:
    """A label or list of labels wrapped into a numpy array, possibly cast to some dtype."""

    def __init__(self, value, casts=()):
        self.value = value
        self.casts = tuple(casts)

    def plain(self):
        return self.value if not self.casts else self

    def __eq__(self, o):
        if isinstance(o, LabelKeys):
            return self.value == o.value and self.casts == o.casts
        return not self.casts and self.value == o

    def __hash__(self):
        return hash(("LabelKeys", repr(self.value), self.casts))

    def __repr__(self):
        return f"labels({self.value!r}{' cast to ' + '/'.join(self.casts) if self.casts else ''})"


class EmptyTest:
    def __init__(self, arr: AArr, negate: bool):
        self.arr = arr
        self.negate = negate  # True: value means 'non-empty'


class Reduction:
    def __init__(self, name: str, arr):
        self.name = name
        self.arr = arr


class _AMethod:
    def __init__(self, arr, name):
        self.arr = arr
        self.name = name


class ArrInterp(ResultInterp):
    """ResultInterp + abstract arrays."""

    def __init__(self, *a, **kw):
        super().__init__(*a, **kw)
        self.root.stores = []  # (node, target AArr, mask, value, fresh?)
        self.root.arr_notes = []

    # -- attribute / method access ------------------------------------------------------
    def get_attr(self, base, attr, node):
        if isinstance(base, LabelKeys):
            return _AMethod(base, attr)
        if isinstance(base, AArr):
            if attr in ("shape", "ndim", "size"):
                return Sym(f"{base.side}.{attr}")
            if attr == "dtype":
                return Sym(f"dtypeof:{base.side}")
            if attr == "T":
                return AArr(base.side, base.fresh, base.content, base.selection, origin=base)
            return _AMethod(base, attr)
        if isinstance(base, AMask):
            return _AMethod(base, attr)
        if isinstance(base, Sym) and base.name.startswith("dtypeof:") and attr in ("kind", "itemsize", "name"):
            return Sym(f"dtype{attr}:{base.name[8:]}")
        return super().get_attr(base, attr, node)

    def apply(self, fv, args, kwargs, node):
        if isinstance(fv, _AMethod):
            return self.arr_method(fv.arr, fv.name, args, kwargs, node)
        return super().apply(fv, args, kwargs, node)

    def arr_method(self, a, name, args, kwargs, node):
        if isinstance(a, LabelKeys):
            if name == "astype":
                dt = args[0] if args else None
                tag = dt.name if isinstance(dt, Sym) else repr(dt)
                wide = self._dtype(dt) in ("u64", "i64", "f64")
                return a if wide else LabelKeys(a.value, a.casts + (tag,))
            if name in ("copy", "ravel", "flatten", "tolist"):
                return a
            return Unknown(f"labels.{name}")
        if isinstance(a, AMask):
            if name == "astype":
                dt = self._dtype(args[0]) if args else None
                if a.kind == "nonzero":
                    return AArr(a.of.side, True, "bin" if a.of.content in ("labels", "bin", "bool") else a.of.content, a.of.selection)
                if a.kind == "isin" and a.of.selection is None and a.of.content == "labels":
                    return AArr(a.of.side, True, "bin", ("keep", a.detail))
                return AArr(a.of.side, True, f"opaque:mask {a.kind}", a.of.selection)
            if name in ("sum", "any"):
                if a.kind == "nonzero":
                    return EmptyTest(a.of, negate=True) if name == "any" else Reduction("count", a.of)
                return Unknown(f"mask.{name}")
            if name == "copy":
                return a
            return Unknown(f"mask.{name}")
        if name == "copy":
            out = AArr(a.side, True, a.content, a.selection)
            out.casts = list(a.casts)
            out.vid = a.vid
            for extra in ("cropped", "stage"):
                if hasattr(a, extra):
                    setattr(out, extra, getattr(a, extra))
            return out
        if name == "astype":
            dt = self._dtype(args[0]) if args else None
            copy_kw = kwargs.get("copy", True)
            out = AArr(a.side, True if copy_kw is not False else a.is_fresh(), a.content, a.selection)
            out.casts = list(a.casts)
            if dt == "bool":
                out.content = "bin" if a.content in ("labels", "bin", "bool") else a.content
            elif dt is None:
                out.casts.append("?")
            elif dt in NARROW and a.content == "labels":
                out.casts.append(dt)
            return out
        if name in ("sort", "fill", "put", "resize", "partition", "itemset", "setfield", "byteswap") and isinstance(a, AArr):
            self.root.stores.append((node, a, "method:" + name, None, a.is_fresh()))
            a.content = f"opaque:{name}()"
            return None
        if name in ("sum",):
            return Reduction("sum", a)
        if name in ("max",):
            return Reduction("max", a)
        if name == "any":
            return EmptyTest(a, negate=True)
        if name == "all":
            return Unknown("all()")
        return Unknown(f"array.{name}")

    def _negate(self, u, node):
        d = self.decide(node, u)
        return not d

    def _dtype(self, v) -> Optional[str]:
        if isinstance(v, Sym):
            n = v.name[4:] if v.name.startswith("ext:") else v.name
            if n in DTYPE_NAMES:
                return DTYPE_NAMES[n]
            if n in ("builtin:bool", "numpy.bool_", "numpy.bool"):
                return "bool"
            if n.startswith("dtypeof:"):
                return "same"
        if isinstance(v, str):
            return {"bool": "bool", "uint8": "u8", "uint16": "u16", "uint32": "u32", "uint64": "u64", "int64": "i64"}.get(v)
        return None

    # -- comparisons ----------------------------------------------------------------------
    def _dtype_fact(self, key):
        """one opaque truth value per (array side, dtype question): asked twice, answered alike"""
        return self.root.__dict__.setdefault("_dtype_facts", {}).setdefault(key, Unknown(f"dtype-fact:{key}"))

    def compare_hook(self, op, l, r, node):
        if isinstance(l, Sym) and l.name.startswith("dtypekind:") and isinstance(r, str) and isinstance(op, (ast.Eq, ast.NotEq, ast.In, ast.NotIn)):
            u = self._dtype_fact((l.name, r))
            return u if isinstance(op, (ast.Eq, ast.In)) else self._negate(u, node)
        if isinstance(l, AArr) and isinstance(r, (int, float)) and not isinstance(r, bool):
            k = type(op)
            if r == 0:
                if k in (ast.NotEq, ast.Gt):
                    return AMask(l, "nonzero")
                if k in (ast.Eq, ast.LtE):
                    return AMask(l, "zero")
            if r == 1 and k is ast.GtE:
                return AMask(l, "nonzero")
            if r == 1 and k is ast.Lt:
                return AMask(l, "zero")
            if k is ast.Eq:
                return AMask(l, "eq", r)
            return AMask(l, "other", f"{type(op).__name__} {r}")
        if isinstance(l, AArr):
            if isinstance(op, ast.Eq):
                return AMask(l, "eq", r.plain() if isinstance(r, LabelKeys) else r)
            return AMask(l, "other", f"{type(op).__name__} {r!r}")
        if isinstance(l, Reduction) and isinstance(l.arr, AArr) and isinstance(r, (int, float)):
            k = type(op)
            if l.name in ("sum", "count", "max"):
                if (r == 0 and k in (ast.Eq, ast.LtE)) or (r == 1 and k is ast.Lt):
                    return EmptyTest(l.arr, negate=False)
                if (r == 0 and k in (ast.NotEq, ast.Gt)) or (r == 1 and k is ast.GtE):
                    return EmptyTest(l.arr, negate=True)
            return Unknown("reduction compare")
        return super().compare_hook(op, l, r, node)

    def truth_hook(self, v, node):
        if isinstance(v, EmptyTest):
            root = v.arr
            d = self.decide(node, root.empty_unknown)
            return (not d) if v.negate else d
        if isinstance(v, Reduction):
            if v.name in ("sum", "count", "max") and isinstance(v.arr, AArr):
                return not self.decide(node, v.arr.empty_unknown)
        return super().truth_hook(v, node)

    def ev_UnaryOp(self, e):
        if isinstance(e.op, ast.Invert):
            v = self.eval(e.operand)
            if isinstance(v, AMask):
                flip = {"nonzero": "zero", "zero": "nonzero", "isin": "notin", "notin": "isin"}.get(v.kind)
                if flip:
                    return AMask(v.of, flip, v.detail)
                return AMask(v.of, "other", "~" + v.kind)
            return self.unary_hook(e.op, v, e)
        return super().ev_UnaryOp(e)

    # -- stores ---------------------------------------------------------------------------
    def exec_stmt(self, st):
        if isinstance(st, ast.AugAssign) and isinstance(st.target, ast.Name):
            cur = self.env.get(st.target.id)
            if isinstance(cur, AArr):
                # x op= y on an ndarray is an in-place update of the same buffer
                self._tick()
                val = self.eval(st.value)
                self.root.stores.append((st, cur, "augassign", val, cur.is_fresh()))
                cur.content = f"opaque:augassign {type(st.op).__name__}"
                return
        return super().exec_stmt(st)

    def store_subscript_hook(self, base, idx, v, node):
        if isinstance(base, AArr):
            self.root.stores.append((node, base, idx, v, base.is_fresh()))
            applies = isinstance(idx, AMask) and idx.masks(base)
            base.values_changed()
            if applies:
                if idx.kind == "nonzero" and v == 1:
                    if base.content == "labels" and base.casts:
                        base.content = f"opaque:binarised after narrowing cast {base.casts}"
                    elif base.content in ("labels", "bin", "bool"):
                        base.content = "bin"
                    return
                if idx.kind == "notin" and v == 0:
                    base.selection = ("keep", idx.detail)
                    base.keep_source = (idx.of_vid, repr(idx.detail))  # values the membership was computed from
                    return
                if idx.kind == "zero":
                    return
            if isinstance(idx, AMask) and idx.kind == "isin" and v == 1 and getattr(base, "keep_source", None) == (idx.of_vid, repr(idx.detail)):
                # membership in the kept label set, computed before everything else was zeroed:
                # (labels are > 0) these are exactly the voxels that are non-zero now
                if base.content == "labels" and base.casts:
                    base.content = f"opaque:binarised after narrowing cast {base.casts}"
                elif base.content in ("labels", "bin", "bool"):
                    base.content = "bin"
                return
            base.content = f"opaque:store {idx!r} = {v!r}"
            return
        return super().store_subscript_hook(base, idx, v, node)

    # -- numpy functions ------------------------------------------------------------------
    def external_call(self, name, args, kwargs, node):
        out_arr = kwargs.get("out")
        if name in ("numpy.not_equal", "numpy.greater", "numpy.equal") and len(args) >= 2 and isinstance(args[0], AArr) and not (set(kwargs) - {"out", "casting", "order", "dtype"}):
            k = {"numpy.not_equal": ast.NotEq(), "numpy.greater": ast.Gt(), "numpy.equal": ast.Eq()}[name]
            m = self.compare_hook(k, args[0], args[1], node)
            tgt = args[2] if len(args) > 2 else out_arr
            if isinstance(m, AMask):
                if tgt is None:
                    return m
                if isinstance(tgt, AMask):
                    # comparison written into an existing boolean buffer: the buffer now is this mask
                    tgt.of, tgt.kind, tgt.detail, tgt.of_vid = m.of, m.kind, m.detail, m.of_vid
                    return tgt
                if isinstance(tgt, AArr) and tgt is args[0] and m.kind == "nonzero":
                    # x = (x != 0) in place: the array is binarised
                    self.store_subscript_hook(tgt, AMask(tgt, "nonzero"), 1, node)
                    return tgt
                if isinstance(tgt, AArr) and tgt is not args[0] and tgt.is_fresh() and (getattr(tgt, "uninitialised_like", None) is args[0] or getattr(tgt, "uninitialised_side", None) == args[0].side) and m.kind == "nonzero":
                    # comparison written into a freshly allocated array of the input's dtype:
                    # a binarised copy of the input
                    src = args[0]
                    tgt.side, tgt.selection, tgt.casts = src.side, src.selection, list(src.casts)
                    tgt.content = "bin" if (src.content in ("labels", "bin", "bool") and not src.casts) else f"opaque:binarised {src.content}"
                    tgt.empty_unknown = Unknown(f"empty:{src.side}")
                    tgt.uninitialised_like = None
                    tgt.uninitialised_side = None
                    tgt.values_changed()
                    return tgt
        if name in ("numpy.logical_not", "numpy.invert", "numpy.bitwise_not") and args and isinstance(args[0], AMask) and not (set(kwargs) - {"out"}):
            m = args[0]
            flip = {"nonzero": "zero", "zero": "nonzero", "isin": "notin", "notin": "isin"}.get(m.kind)
            tgt = args[1] if len(args) > 1 else out_arr
            if flip:
                if tgt is None:
                    nm = AMask(m.of, flip, m.detail)
                    nm.of_vid = m.of_vid
                    return nm
                if tgt is m:
                    m.kind = flip
                    return m
        if isinstance(out_arr, AArr):
            self.root.stores.append((node, out_arr, "out=", None, out_arr.is_fresh()))
        if name in ("numpy.copyto", "numpy.put", "numpy.place", "numpy.putmask") and args and isinstance(args[0], AArr):
            self.root.stores.append((node, args[0], name, None, args[0].is_fresh()))
            return None
        if name == "numpy.isin" and args and isinstance(args[0], AArr):
            key = args[1]
            if isinstance(key, LabelKeys):
                key = key.plain()
            inv = kwargs.get("invert", False)
            return AMask(args[0], "notin" if inv else "isin", key)
        if name in ("numpy.count_nonzero",) and args and isinstance(args[0], AArr):
            return Reduction("count", args[0])
        if name in ("numpy.sum", "numpy.max", "numpy.amax") and args and isinstance(args[0], AArr):
            return Reduction("sum" if name.endswith("sum") else "max", args[0])
        if name in ("numpy.any",) and args and isinstance(args[0], AArr):
            return EmptyTest(args[0], negate=True)
        if name in ("numpy.empty_like", "numpy.zeros_like") and args and isinstance(args[0], AArr) and not (set(kwargs) - {"order", "subok"}):
            out = AArr(args[0].side, True, "opaque:uninitialised" if name.endswith("empty_like") else "zeros", None)
            out.uninitialised_like = args[0]
            return out
        if name in ("numpy.empty", "numpy.zeros") and args and isinstance(args[0], Sym) and args[0].name.endswith(".shape") and isinstance(kwargs.get("dtype", args[1] if len(args) > 1 else None), Sym):
            sh, dt = args[0].name[: -len(".shape")], kwargs.get("dtype", args[1] if len(args) > 1 else None).name
            if dt == f"dtypeof:{sh}" and not (set(kwargs) - {"dtype", "order"}):
                out = AArr(sh, True, "opaque:uninitialised" if name.endswith("empty") else "zeros", None)
                out.uninitialised_side = sh  # shape and dtype of that input, no values yet
                return out
        if name in ("numpy.copy", "numpy.array") and args and isinstance(args[0], AArr):
            return self.arr_method(args[0], "copy", [], {}, node)
        if name in ("numpy.asarray", "numpy.atleast_1d", "numpy.ascontiguousarray") and args and isinstance(args[0], AArr):
            return args[0]
        if name in ("numpy.asarray", "numpy.atleast_1d", "numpy.array") and args and isinstance(args[0], (int, list, tuple, Sym, LabelKeys)) and not isinstance(args[0], bool):
            base = args[0] if isinstance(args[0], LabelKeys) else LabelKeys(args[0])
            dt = kwargs.get("dtype")
            if dt is not None:
                return self.arr_method(base, "astype", [dt], {}, node)
            if name == "numpy.atleast_1d" and not isinstance(base.value, (list, tuple)):
                return LabelKeys([base.value], base.casts)
            return base
        if name == "numpy.where" and len(args) == 3 and isinstance(args[0], AMask):
            m = args[0]
            if m.kind == "nonzero" and args[1] == 1 and args[2] == 0:
                return AArr(m.of.side, True, "bin", m.of.selection)
            if m.kind == "isin" and args[1] is m.of and args[2] == 0 and m.of.selection is None:
                out = AArr(m.of.side, True, m.of.content, ("keep", m.detail))
                out.casts = list(m.of.casts)
                return out
            if m.kind == "notin" and args[2] is m.of and args[1] == 0 and m.of.selection is None:
                out = AArr(m.of.side, True, m.of.content, ("keep", m.detail))
                out.casts = list(m.of.casts)
                return out
            return AArr(m.of.side, True, f"opaque:where {m!r}", m.of.selection)
        if name in ("int", "builtin:int") and args and isinstance(args[0], EmptyTest):
            return int(self.truth(args[0], node))
        if name in ("bool", "builtin:bool") and args and isinstance(args[0], EmptyTest):
            return self.truth(args[0], node)
        return super().external_call(name, args, kwargs, node)

    def call_builtin(self, name, args, kwargs, node):
        if name == "type" and len(args) == 1 and isinstance(args[0], (AArr, AMask)):
            return Sym("ext:numpy.ndarray")  # the inputs are plain ndarrays (subclasses: fallback paths)
        if name in ("int", "bool") and args and isinstance(args[0], (EmptyTest, Reduction)):
            t = self.truth(args[0], node)
            return int(t) if name == "int" else t
        return super().call_builtin(name, args, kwargs, node)

    def isinstance_hook(self, v, klass, node):
        if isinstance(v, (AArr, AMask)):
            ks = klass if isinstance(klass, tuple) else (klass,)
            return any(isinstance(k, Sym) and k.name.endswith("numpy.ndarray") for k in ks)
        return super().isinstance_hook(v, klass, node)

    def binop_hook(self, op, l, r, node):
        if isinstance(l, AMask) and isinstance(r, AMask) and isinstance(op, (ast.BitAnd, ast.BitOr)):
            return AMask(l.of, "other", f"{l!r} {type(op).__name__} {r!r}")
        return super().binop_hook(op, l, r, node)
