"""Abstract numpy label arrays for end-to-end runs (label selection / alias / emptiness).

AArr objects are mutable and shared exactly like the numpy arrays they stand for: an alias
in the analysed code is the same Python object here, `.copy()`/`.astype()` create a new one.
In-place stores are recorded with the freshness of the target, so the same run serves the
'no input mutation' clause (C15) and the binarisation / selection clauses (C12, C13).
"""

from __future__ import annotations

import ast
from typing import Any, Optional

from ..absval import Vec, Interp, Obj, Sym, Unknown
from ..model import Undecided, norm
from ..pointwise import DTYPE_NAMES
from .resultrun import ResultInterp, Tagged

NARROW = {"u8": 8, "u16": 16, "u32": 32, "i8": 7, "i16": 15, "i32": 31}


class AArr:
    _n = 0

    def __init__(self, side: str, fresh: bool, content: str = "labels", selection: Optional[tuple] = None, origin: Optional["AArr"] = None):
        AArr._n += 1
        self.uid = AArr._n
        self.side = side  # 'PRED' | 'REF' | other tag
        self.fresh = fresh  # True: does not alias a caller-owned array
        self.content = content  # 'labels' | 'bin' (1 on foreground) | 'bool' | 'opaque:<why>'
        self.selection = selection  # None = all labels; ('keep', labels-expr-key) restricted to a label set
        self.casts: list[str] = []
        self.view_of: Optional[AArr] = origin  # basic-slice view shares memory with origin
        self.empty_unknown = Unknown(f"empty:{side}")
        self.events: list = []
        self.vid = self.uid  # identity of the VALUES: shared with copies until either is written to

    def values_changed(self):
        AArr._n += 1
        self.vid = AArr._n

    def root(self) -> "AArr":
        a = self
        while a.view_of is not None:
            a = a.view_of
        return a

    def is_fresh(self) -> bool:
        return self.root().fresh

    def describe(self) -> str:
        sel = "" if self.selection is None else f" restricted to {self.selection[1]}"
        c = f" cast {self.casts}" if self.casts else ""
        return f"{self.side}[{self.content}{sel}{c}{' fresh' if self.is_fresh() else ' ALIAS-OF-INPUT'}]"

    def __repr__(self):
        return self.describe()


class AMask:
    def __init__(self, of: AArr, kind: str, detail: Any = None):
        self.of = of
        self.kind = kind  # 'nonzero' | 'zero' | 'eq' | 'isin' | 'notin' | 'other'
        self.detail = detail
        self.of_vid = getattr(of, "vid", None)  # the values the mask was computed from

    def masks(self, arr: "AArr") -> bool:
        """was this mask computed from exactly the values `arr` holds now?"""
        return self.of is arr or (self.of_vid is not None and self.of_vid == getattr(arr, "vid", object()))

    def __repr__(self):
        return f"mask({self.of.side if self.of is not None else 'none'} {self.kind} {self.detail if self.detail is not None else ''})"


class LabelKeys:
    """A label or list of labels wrapped into a numpy array, possibly cast to some dtype."""

    def __init__(self, value, casts=(), fits=None):
        self.value = value
        self.casts = tuple(casts)
        self.fits = fits  # restricted to the labels representable in that input's dtype (the others cannot occur there)

    def plain(self):
        return self.value if not self.casts else self

    def __eq__(self, o):
        if isinstance(o, LabelKeys):
            return self.value == o.value and self.casts == o.casts
        return not self.casts and self.value == o

    def __hash__(self):
        return hash(("LabelKeys", repr(self.value), self.casts))

    def __repr__(self):
        return f"labels({self.value!r}{' cast to ' + '/'.join(self.casts) if self.casts else ''})"


class _SearchPos:
    """np.searchsorted(keys, arr): per element the position of the first key >= the element"""

    def __init__(self, keys, arr):
        self.keys, self.arr = keys, arr


class _Taken:
    """keys.take(searchsorted(keys, arr), mode='clip')"""

    def __init__(self, keys, arr):
        self.keys, self.arr = keys, arr


class ALut:
    """A lookup table over all values of an input's dtype: value -> entry, 0 where nothing was stored.
    keys: LabelKeys stored so far; entry: 'same' (the key itself) or 1 (binary)."""

    def __init__(self, dtype: str):
        self.dtype = dtype  # 'dtypeof:<SIDE>'
        self.keys = None
        self.entry = None
        self.bad = None

    def __repr__(self):
        return f"lut({self.dtype} keys={self.keys!r} entry={self.entry!r})"


class NValues:
    """np.iinfo(dtype).max + 1: the number of values of an input's dtype."""

    def __init__(self, dtype: str):
        self.dtype = dtype


class RangeInfo:
    """np.iinfo(<dtype of an input array>)"""

    def __init__(self, dtype: str):
        self.dtype = dtype


class RangeBound:
    def __init__(self, dtype: str, which: str):
        self.dtype = dtype
        self.which = which

    def __repr__(self):
        return f"iinfo({self.dtype}).{self.which}"


class _FitMask:
    """labels < number of values of a dtype: selects the labels representable in it"""

    def __init__(self, keys, dtype):
        self.keys = keys
        self.dtype = dtype


class EmptyTest:
    def __init__(self, arr: AArr, negate: bool):
        self.arr = arr
        self.negate = negate  # True: value means 'non-empty'


class Reduction:
    def __init__(self, name: str, arr):
        self.name = name
        self.arr = arr


class _AMethod:
    def __init__(self, arr, name):
        self.arr = arr
        self.name = name


def _mask_union(a: "AMask", b: "AMask") -> Optional["AMask"]:
    """union of label-selection masks of the same array values: isin S | eq l  ->  isin S+[l]"""

    def labels(m):
        if m.kind == "isin" and isinstance(m.detail, (list, tuple)):
            return list(m.detail)
        if m.kind == "eq" and not isinstance(m.detail, (list, tuple)):
            return [m.detail]
        return None

    la, lb = labels(a), labels(b)
    if la is None or lb is None:
        return None
    if a.of is not None and b.of is not None and not (a.of is b.of or (a.of_vid is not None and a.of_vid == b.of_vid)):
        return None
    of = a.of if a.of is not None else b.of
    out = AMask(of, "isin", la + [x for x in lb if not any(x is y or (isinstance(x, int) and x == y) for y in la)]) if of is not None else AMask(None, "isin", [])
    out.of_vid = a.of_vid if a.of is not None else b.of_vid
    return out


class ArrInterp(ResultInterp):
    """ResultInterp + abstract arrays."""

    def __init__(self, *a, **kw):
        super().__init__(*a, **kw)
        self.root.stores = []  # (node, target AArr, mask, value, fresh?)
        self.root.arr_notes = []

    # -- attribute / method access ------------------------------------------------------
    def get_attr(self, base, attr, node):
        if isinstance(base, LabelKeys):
            if attr == "dtype":
                return Sym("dtypeof:labels" + ("->" + base.casts[-1] if base.casts else ""))
            if attr == "size":
                return len(base.value) if isinstance(base.value, (list, tuple)) else 1
            if attr == "ndim":
                return 1 if isinstance(base.value, (list, tuple)) else 0
            return _AMethod(base, attr)
        if isinstance(base, RangeInfo):
            if attr in ("min", "max"):
                return RangeBound(base.dtype, attr)
            return Unknown(f"iinfo.{attr}")
        if isinstance(base, AArr):
            if attr in ("shape", "ndim", "size"):
                return Sym(f"{base.side}.{attr}")
            if attr == "dtype":
                return Sym(f"dtypeof:{base.side}")
            if attr == "T":
                return AArr(base.side, base.fresh, base.content, base.selection, origin=base)
            return _AMethod(base, attr)
        if isinstance(base, AMask):
            return _AMethod(base, attr)
        if isinstance(base, Sym) and base.name.startswith("dtypeof:") and attr in ("kind", "itemsize", "name"):
            return Sym(f"dtype{attr}:{base.name[8:]}")
        return super().get_attr(base, attr, node)

    def apply(self, fv, args, kwargs, node):
        if isinstance(fv, _AMethod):
            return self.arr_method(fv.arr, fv.name, args, kwargs, node)
        return super().apply(fv, args, kwargs, node)

    def arr_method(self, a, name, args, kwargs, node):
        if isinstance(a, LabelKeys):
            if name == "astype":
                dt = args[0] if args else None
                tag = dt.name if isinstance(dt, Sym) else repr(dt)
                wide = self._dtype(dt) in ("u64", "i64", "f64")
                if not wide and not a.casts and self._labels_fit(a, tag):
                    return a  # every label was tested against the bounds of that dtype on this path
                return a if wide else LabelKeys(a.value, a.casts + (tag,))
            if name in ("copy", "ravel", "flatten", "tolist"):
                return a
            if name == "take" and args and isinstance(args[0], _SearchPos) and args[0].keys is a and kwargs.get("mode") == "clip" and not (set(kwargs) - {"mode"}):
                return _Taken(a, args[0].arr)  # the label at the position the binary search found (last label if past the end)
            if name == "reshape" and (args == [-1] or args == [(-1,)]):
                # a 1-D view: a scalar label becomes the one-element vector
                return a if isinstance(a.value, (list, tuple)) else LabelKeys([a.value], a.casts, a.fits)
            return Unknown(f"labels.{name}")
        if isinstance(a, AMask):
            if name == "astype":
                dt = self._dtype(args[0]) if args else None
                if a.kind == "nonzero":
                    return AArr(a.of.side, True, "bin" if a.of.content in ("labels", "bin", "bool") else a.of.content, a.of.selection)
                if a.kind == "isin" and a.of.selection is None and a.of.content == "labels":
                    return AArr(a.of.side, True, "bin", ("keep", a.detail))
                return AArr(a.of.side, True, f"opaque:mask {a.kind}", a.of.selection)
            if name in ("sum", "any"):
                if a.kind == "nonzero":
                    return EmptyTest(a.of, negate=True) if name == "any" else Reduction("count", a.of)
                return Unknown(f"mask.{name}")
            if name == "copy":
                return a
            return Unknown(f"mask.{name}")
        if name == "copy":
            out = AArr(a.side, True, a.content, a.selection)
            out.casts = list(a.casts)
            out.vid = a.vid
            for extra in ("cropped", "stage"):
                if hasattr(a, extra):
                    setattr(out, extra, getattr(a, extra))
            return out
        if name == "astype":
            dt = self._dtype(args[0]) if args else None
            copy_kw = kwargs.get("copy", True)
            out = AArr(a.side, True if copy_kw is not False else a.is_fresh(), a.content, a.selection)
            out.casts = list(a.casts)
            if dt == "bool":
                out.content = "bin" if a.content in ("labels", "bin", "bool") else a.content
            elif dt is None:
                out.casts.append("?")
            elif dt in NARROW and a.content == "labels":
                out.casts.append(dt)
            return out
        if name in ("sort", "fill", "put", "resize", "partition", "itemset", "setfield", "byteswap") and isinstance(a, AArr):
            self.root.stores.append((node, a, "method:" + name, None, a.is_fresh()))
            a.content = f"opaque:{name}()"
            return None
        if name in ("sum",):
            return Reduction("sum", a)
        if name in ("max",):
            return Reduction("max", a)
        if name == "any":
            return EmptyTest(a, negate=True)
        if name == "all":
            return Unknown("all()")
        return Unknown(f"array.{name}")

    def iterate(self, it, node):
        if isinstance(it, LabelKeys) and isinstance(it.value, (list, tuple)):
            return [LabelKeys(v, it.casts) if it.casts else v for v in it.value]
        return super().iterate(it, node)

    def subscript_hook(self, base, idx, node):
        if isinstance(base, LabelKeys) and isinstance(idx, _FitMask) and idx.keys is base:
            return LabelKeys(base.value, base.casts, fits=idx.dtype)
        if isinstance(base, LabelKeys) and isinstance(base.value, (list, tuple)) and isinstance(idx, Vec) and len(idx) == len(base.value) and all(isinstance(b, bool) for b in idx):
            # boolean selection from a label vector (the labels of an array in that array's own dtype)
            return Vec(x for x, b in zip(base.value, idx) if b)
        if isinstance(base, LabelKeys) and isinstance(base.value, (list, tuple)) and isinstance(idx, int) and not isinstance(idx, bool):
            try:
                v = base.value[idx]
            except IndexError:
                raise RaiseSignal("IndexError", node)
            return LabelKeys(v, base.casts) if base.casts else v
        return super().subscript_hook(base, idx, node)

    def _negate(self, u, node):
        d = self.decide(node, u)
        return not d

    def _dtype(self, v) -> Optional[str]:
        if isinstance(v, Sym):
            n = v.name[4:] if v.name.startswith("ext:") else v.name
            if n in DTYPE_NAMES:
                return DTYPE_NAMES[n]
            if n in ("builtin:bool", "numpy.bool_", "numpy.bool"):
                return "bool"
            if n.startswith("dtypeof:"):
                return "same"
        if isinstance(v, str):
            return {"bool": "bool", "uint8": "u8", "uint16": "u16", "uint32": "u32", "uint64": "u64", "int64": "i64"}.get(v)
        return None

    # -- comparisons ----------------------------------------------------------------------
    def _dtype_fact(self, key):
        """one opaque truth value per (array side, dtype question): asked twice, answered alike"""
        return self.root.__dict__.setdefault("_dtype_facts", {}).setdefault(key, Unknown(f"dtype-fact:{key}"))

    def _labels_fit(self, keys: "LabelKeys", dtype_tag: str) -> bool:
        """Did this path establish  iinfo(dtype).min <= every label <= iinfo(dtype).max ?  The decided
        range facts (label OP bound) are read off the decisions taken so far."""
        vals = list(keys.value) if isinstance(keys.value, (list, tuple)) else [keys.value]
        if not vals or not all(isinstance(v, int) and not isinstance(v, bool) for v in vals):
            return False
        lo_ok = hi_ok = False
        for _n, u, d in self.root.taken:
            rf = getattr(u, "pv", None)
            if not (isinstance(rf, tuple) and len(rf) == 5 and rf[0] == "range") or rf[3] != dtype_tag:
                continue
            _, v, rel, _dt, which = rf  # fact: v rel bound(which)
            holds = {"<": (lambda: d), ">": (lambda: d), "<=": (lambda: d), ">=": (lambda: d)}[rel]()
            # lower bound established: (v < min) is False or (v >= min) is True, for v <= every label
            if which == "min" and v <= min(vals) and ((rel == "<" and not holds) or (rel == ">=" and holds)):
                lo_ok = True
            if which == "max" and v >= max(vals) and ((rel == ">" and not holds) or (rel == "<=" and holds)):
                hi_ok = True
        return lo_ok and hi_ok

    def compare_hook(self, op, l, r, node):
        # dtype of an input among a tuple of dtypes / the size of an input against a bound of its dtype:
        # one memoised fact per (input, question)
        if isinstance(l, Sym) and l.name.startswith("dtypeof:") and isinstance(op, (ast.In, ast.NotIn)) and isinstance(r, (tuple, list)):
            names = []
            for x in r:
                t = getattr(x, "type", x)
                names.append(t.name if isinstance(t, Sym) else repr(t))
            u = self._dtype_fact((l.name, "in", tuple(sorted(names))))
            return u if isinstance(op, ast.In) else self._negate(u, node)
        if isinstance(l, Sym) and l.name.endswith(".size") and isinstance(r, (RangeBound, NValues)):
            return self._dtype_fact((l.name, type(op).__name__, repr(r)))
        if isinstance(l, LabelKeys) and isinstance(r, NValues) and isinstance(op, ast.Lt) and not l.casts:
            return _FitMask(l, r.dtype)
        # a label against the bounds of an input's dtype: one memoised range fact per question
        if isinstance(r, RangeBound) or isinstance(l, RangeBound):
            rel = {ast.Lt: "<", ast.Gt: ">", ast.LtE: "<=", ast.GtE: ">="}.get(type(op))
            v, b = (l, r) if isinstance(r, RangeBound) else (r, l)
            if not isinstance(r, RangeBound) and rel:
                rel = {"<": ">", ">": "<", "<=": ">=", ">=": "<="}[rel]
            if isinstance(v, LabelKeys):
                if v.casts:
                    # a value already cast to that dtype is within its bounds: the test says nothing
                    # about the original label any more
                    return {"<": False, ">": False, "<=": True, ">=": True}.get(rel, Unknown("range compare")) if v.casts[-1] == b.dtype else Unknown("range compare of a cast label")
                v = v.value
            if rel and isinstance(v, int) and not isinstance(v, bool):
                key = ("range", v, rel, b.dtype, b.which)
                facts = self.root.__dict__.setdefault("_dtype_facts", {})
                if key not in facts:
                    u = Unknown(f"range-fact:{v}{rel}{b!r}")
                    u.pv = ("range", v, rel, b.dtype, b.which)
                    facts[key] = u
                return facts[key]
            return Unknown("range compare")
        if isinstance(l, Sym) and l.name.startswith("dtypekind:") and isinstance(r, str) and isinstance(op, (ast.Eq, ast.NotEq, ast.In, ast.NotIn)):
            u = self._dtype_fact((l.name, r))
            return u if isinstance(op, (ast.Eq, ast.In)) else self._negate(u, node)
        if isinstance(l, AArr) and isinstance(r, (int, float)) and not isinstance(r, bool):
            k = type(op)
            if r == 0:
                if k in (ast.NotEq, ast.Gt):
                    return AMask(l, "nonzero")
                if k in (ast.Eq, ast.LtE):
                    return AMask(l, "zero")
            if r == 1 and k is ast.GtE:
                return AMask(l, "nonzero")
            if r == 1 and k is ast.Lt:
                return AMask(l, "zero")
            if k is ast.Eq:
                return AMask(l, "eq", r)
            return AMask(l, "other", f"{type(op).__name__} {r}")
        if isinstance(op, ast.Eq) and ((isinstance(l, _Taken) and r is l.arr) or (isinstance(r, _Taken) and l is r.arr)):
            t_ = l if isinstance(l, _Taken) else r
            if getattr(t_.keys, "sorted_unique", False):
                return AMask(t_.arr, "isin", t_.keys.plain())  # binary search in sorted labels, found label == element  <=>  the element is one of the labels
            return AMask(t_.arr, "other", "binary search (searchsorted) in labels that are not sorted: elements are compared with the wrong label")
        if isinstance(l, AArr):
            if isinstance(op, ast.Eq):
                return AMask(l, "eq", r.plain() if isinstance(r, LabelKeys) else r)
            return AMask(l, "other", f"{type(op).__name__} {r!r}")
        if isinstance(l, Reduction) and isinstance(l.arr, AArr) and isinstance(r, (int, float)):
            k = type(op)
            if l.name in ("sum", "count", "max"):
                if (r == 0 and k in (ast.Eq, ast.LtE)) or (r == 1 and k is ast.Lt):
                    return EmptyTest(l.arr, negate=False)
                if (r == 0 and k in (ast.NotEq, ast.Gt)) or (r == 1 and k is ast.GtE):
                    return EmptyTest(l.arr, negate=True)
            return Unknown("reduction compare")
        return super().compare_hook(op, l, r, node)

    def truth_hook(self, v, node):
        if isinstance(v, EmptyTest):
            root = v.arr
            d = self.decide(node, root.empty_unknown)
            return (not d) if v.negate else d
        if isinstance(v, Reduction):
            if v.name in ("sum", "count", "max") and isinstance(v.arr, AArr):
                return not self.decide(node, v.arr.empty_unknown)
        return super().truth_hook(v, node)

    def ev_UnaryOp(self, e):
        if isinstance(e.op, ast.Invert):
            v = self.eval(e.operand)
            if isinstance(v, AMask):
                flip = {"nonzero": "zero", "zero": "nonzero", "isin": "notin", "notin": "isin"}.get(v.kind)
                if flip:
                    return AMask(v.of, flip, v.detail)
                return AMask(v.of, "other", "~" + v.kind)
            return self.unary_hook(e.op, v, e)
        return super().ev_UnaryOp(e)

    # -- stores ---------------------------------------------------------------------------
    def exec_stmt(self, st):
        if isinstance(st, ast.AugAssign) and isinstance(st.target, ast.Name):
            cur = self.env.get(st.target.id)
            if isinstance(cur, AArr):
                # x op= y on an ndarray is an in-place update of the same buffer
                self._tick()
                val = self.eval(st.value)
                self.root.stores.append((st, cur, "augassign", val, cur.is_fresh()))
                cur.content = f"opaque:augassign {type(st.op).__name__}"
                return
        return super().exec_stmt(st)

    def store_subscript_hook(self, base, idx, v, node):
        if isinstance(base, ALut):
            if base.keys is None and isinstance(idx, LabelKeys) and (v == 1 or v is idx or (isinstance(v, LabelKeys) and v == idx and v.fits == idx.fits)):
                # keys must be representable in the table's dtype: either never cast and filtered to
                # those that fit (the others cannot occur in an array of that dtype), or marked as cast
                base.keys = idx
                base.entry = 1 if (v == 1 and not isinstance(v, LabelKeys)) else "same"
                if not idx.casts and idx.fits != base.dtype:
                    base.bad = "labels index the table unfiltered (a label beyond the dtype's range is an index error / wraps)"
            else:
                base.bad = f"store {idx!r} <- {v!r}"
            return
        if isinstance(base, AArr):
            self.root.stores.append((node, base, idx, v, base.is_fresh()))
            if base.content == "zeros" and base.is_fresh() and base.selection is None and isinstance(idx, AMask) and idx.of is not None and idx.kind == "nonzero" and v == 1 and getattr(base, "uninitialised_side", getattr(getattr(base, "uninitialised_like", None), "side", None)) == idx.of.side:
                # zeros of an input's shape, set to 1 where that input is non-zero: its binarisation
                # (in a dtype of its own - 0/1 fit every dtype)
                src = idx.of
                base.side, base.selection = src.side, src.selection
                base.content = "bin" if (src.content in ("labels", "bin", "bool") and not src.casts) else f"opaque:binarised {src.content} after narrowing cast {src.casts}" if src.casts else f"opaque:binarised {src.content}"
                base.casts = []
                base.empty_unknown = src.empty_unknown
                base.uninitialised_like = None
                base.uninitialised_side = None
                base.values_changed()
                return
            applies = isinstance(idx, AMask) and idx.masks(base)
            base.values_changed()
            if applies:
                if idx.kind == "nonzero" and v == 1:
                    if base.content == "labels" and base.casts:
                        base.content = f"opaque:binarised after narrowing cast {base.casts}"
                    elif base.content in ("labels", "bin", "bool"):
                        base.content = "bin"
                    return
                if idx.kind == "notin" and v == 0:
                    base.selection = ("keep", idx.detail)
                    base.keep_source = (idx.of_vid, repr(idx.detail))  # values the membership was computed from
                    return
                if idx.kind == "zero":
                    return
            if isinstance(idx, AMask) and idx.kind == "isin" and v == 1 and getattr(base, "keep_source", None) == (idx.of_vid, repr(idx.detail)):
                # membership in the kept label set, computed before everything else was zeroed:
                # (labels are > 0) these are exactly the voxels that are non-zero now
                if base.content == "labels" and base.casts:
                    base.content = f"opaque:binarised after narrowing cast {base.casts}"
                elif base.content in ("labels", "bin", "bool"):
                    base.content = "bin"
                return
            base.content = f"opaque:store {idx!r} = {v!r}"
            return
        return super().store_subscript_hook(base, idx, v, node)

    # -- numpy functions ------------------------------------------------------------------
    def external_call(self, name, args, kwargs, node):
        if name in ("numpy.isin", "numpy.in1d", "numpy.intersect1d", "numpy.setdiff1d", "numpy.union1d", "numpy.setxor1d") and len(args) == 2 and any(isinstance(a, LabelKeys) for a in args) and not any(isinstance(a, AArr) for a in args):
            # set routines between label VECTORS: a label vector cast to an input array's dtype is taken to be
            # that array's own labels (every one of them fits), so the cast changes no value
            def plainv(a):
                if isinstance(a, LabelKeys) and isinstance(a.value, (list, tuple)) and all(str(c).startswith("dtypeof:") for c in a.casts):
                    return list(a.value)
                return a
            un = [plainv(a) for a in args]
            if not any(isinstance(a, LabelKeys) for a in un):
                r_ = self._vec_call(name, un, kwargs, node)
                if r_ is not NotImplemented:
                    return r_
        out_arr = kwargs.get("out")
        if name in ("numpy.not_equal", "numpy.greater", "numpy.equal") and len(args) >= 2 and isinstance(args[0], AArr) and not (set(kwargs) - {"out", "casting", "order", "dtype"}):
            k = {"numpy.not_equal": ast.NotEq(), "numpy.greater": ast.Gt(), "numpy.equal": ast.Eq()}[name]
            m = self.compare_hook(k, args[0], args[1], node)
            tgt = args[2] if len(args) > 2 else out_arr
            if isinstance(m, AMask):
                if tgt is None:
                    return m
                if isinstance(tgt, AMask):
                    # comparison written into an existing boolean buffer: the buffer now is this mask
                    tgt.of, tgt.kind, tgt.detail, tgt.of_vid = m.of, m.kind, m.detail, m.of_vid
                    return tgt
                if isinstance(tgt, AArr) and tgt is args[0] and m.kind == "nonzero":
                    # x = (x != 0) in place: the array is binarised
                    self.store_subscript_hook(tgt, AMask(tgt, "nonzero"), 1, node)
                    return tgt
                if isinstance(tgt, AArr) and tgt is not args[0] and tgt.is_fresh() and (getattr(tgt, "uninitialised_like", None) is args[0] or getattr(tgt, "uninitialised_side", None) == args[0].side) and m.kind == "nonzero":
                    # comparison written into a freshly allocated array of the input's dtype:
                    # a binarised copy of the input
                    src = args[0]
                    tgt.side, tgt.selection, tgt.casts = src.side, src.selection, list(src.casts)
                    tgt.content = "bin" if (src.content in ("labels", "bin", "bool") and not src.casts) else f"opaque:binarised {src.content}"
                    tgt.empty_unknown = Unknown(f"empty:{src.side}")
                    tgt.uninitialised_like = None
                    tgt.uninitialised_side = None
                    tgt.values_changed()
                    return tgt
        if name in ("numpy.logical_not", "numpy.invert", "numpy.bitwise_not") and args and isinstance(args[0], AMask) and not (set(kwargs) - {"out"}):
            m = args[0]
            flip = {"nonzero": "zero", "zero": "nonzero", "isin": "notin", "notin": "isin"}.get(m.kind)
            tgt = args[1] if len(args) > 1 else out_arr
            if flip:
                if tgt is None:
                    nm = AMask(m.of, flip, m.detail)
                    nm.of_vid = m.of_vid
                    return nm
                if tgt is m:
                    m.kind = flip
                    return m
        if name == "numpy.issubdtype" and len(args) == 2 and isinstance(args[0], Sym) and args[0].name.startswith("dtypeof:") and isinstance(args[1], Sym) and not kwargs:
            return self._dtype_fact((args[0].name, "issubdtype", args[1].name))
        if name == "numpy.iinfo" and len(args) == 1 and isinstance(args[0], Sym) and args[0].name.startswith("dtypeof:"):
            return RangeInfo(args[0].name)
        if name in ("numpy.zeros",) and args and isinstance(args[0], NValues) and not (set(kwargs) - {"dtype"}):
            dt = kwargs.get("dtype", args[1] if len(args) > 1 else None)
            if isinstance(dt, Sym) and dt.name == args[0].dtype:
                return ALut(args[0].dtype)
        if name == "numpy.take" and len(args) >= 2 and isinstance(args[0], ALut) and isinstance(args[1], AArr) and not (set(kwargs) - {"out", "mode"}):
            lut, src = args[0], args[1]
            tgt = args[3] if len(args) > 3 else kwargs.get("out")
            if lut.dtype != f"dtypeof:{src.side}" or src.selection is not None or src.content != "labels" or lut.bad or lut.keys is None:
                raise Undecided(f"np.take through a lookup table not modelled: {lut!r} on {src!r} ({lut.bad or ''})")
            keys = lut.keys if lut.keys.casts else LabelKeys(lut.keys.value)
            res = AArr(src.side, True, "labels" if lut.entry == "same" else "bin", ("keep", keys.plain() if not keys.casts else keys))
            res.casts = list(src.casts)
            if tgt is None:
                return res
            if isinstance(tgt, AArr) and tgt.is_fresh() and (getattr(tgt, "uninitialised_like", None) is src or getattr(tgt, "uninitialised_side", None) == src.side):
                tgt.side, tgt.content, tgt.selection, tgt.casts = res.side, res.content, res.selection, res.casts
                tgt.uninitialised_like = None
                tgt.uninitialised_side = None
                tgt.values_changed()
                return tgt
            raise Undecided("np.take into an array that is not a fresh buffer of the input's shape and dtype")
        if name == "numpy.unique" and len(args) == 1 and not kwargs and isinstance(args[0], (LabelKeys, list, tuple, int)) and not isinstance(args[0], bool):
            k = args[0] if isinstance(args[0], LabelKeys) else LabelKeys(list(args[0]) if isinstance(args[0], (list, tuple)) else [args[0]])
            vals = list(k.value) if isinstance(k.value, (list, tuple)) else [k.value]
            if all(isinstance(v, int) and not isinstance(v, bool) for v in vals) and not k.casts:
                out = LabelKeys(sorted(set(vals)))
                out.sorted_unique = True
                return out
            return Unknown("np.unique of symbolic / cast labels")
        if name == "numpy.searchsorted" and len(args) == 2 and isinstance(args[0], LabelKeys) and isinstance(args[1], AArr) and not (set(kwargs) - {"side"}) and kwargs.get("side", "left") == "left":
            return _SearchPos(args[0], args[1])
        if name in ("numpy.zeros",) and args and isinstance(args[0], Sym) and args[0].name.endswith(".shape") and self._dtype(kwargs.get("dtype", args[1] if len(args) > 1 else None)) == "bool" and not (set(kwargs) - {"dtype", "order"}):
            m = AMask(None, "isin", [])  # all False: the union of no labels
            m.shape_of = args[0].name[: -len(".shape")]
            return m
        if name in ("numpy.zeros_like",) and args and isinstance(args[0], AArr) and self._dtype(kwargs.get("dtype")) == "bool" and not (set(kwargs) - {"dtype", "order"}):
            m = AMask(None, "isin", [])
            m.shape_of = args[0].side
            return m
        if name == "numpy.logical_or" and len(args) >= 2 and isinstance(args[0], AMask) and isinstance(args[1], AMask) and not (set(kwargs) - {"out"}):
            tgt = args[2] if len(args) > 2 else out_arr
            u = _mask_union(args[0], args[1])
            if u is not None:
                if tgt is None:
                    return u
                if isinstance(tgt, AMask):
                    tgt.of, tgt.kind, tgt.detail, tgt.of_vid = u.of, u.kind, u.detail, u.of_vid
                    return tgt
        if name in ("numpy.asarray", "numpy.ascontiguousarray", "numpy.asanyarray") and args and isinstance(args[0], AMask) and not (set(kwargs) - {"order", "dtype"}) and self._dtype(kwargs.get("dtype")) in (None, "bool"):
            return args[0]  # a comparison result is a fresh boolean array already
        if isinstance(out_arr, AArr):
            self.root.stores.append((node, out_arr, "out=", None, out_arr.is_fresh()))
        if name in ("numpy.copyto", "numpy.put", "numpy.place", "numpy.putmask") and args and isinstance(args[0], AArr):
            self.root.stores.append((node, args[0], name, None, args[0].is_fresh()))
            return None
        if name == "numpy.isin" and args and isinstance(args[0], AArr) and kwargs.get("assume_unique") is True:
            # assume_unique promises that BOTH inputs hold no value twice; a label array does (every voxel of an
            # instance, the background): numpy's sort-based path then reports elements that are not in the list
            return AMask(args[0], "other", "isin(..., assume_unique=True) on an array whose values repeat")
        if name == "numpy.isin" and args and isinstance(args[0], AArr):
            key = args[1]
            if isinstance(key, LabelKeys):
                key = key.plain()
            inv = kwargs.get("invert", False)
            return AMask(args[0], "notin" if inv else "isin", key)
        if name in ("numpy.count_nonzero",) and args and isinstance(args[0], AArr):
            return Reduction("count", args[0])
        if name in ("numpy.sum", "numpy.max", "numpy.amax") and args and isinstance(args[0], AArr):
            return Reduction("sum" if name.endswith("sum") else "max", args[0])
        if name in ("numpy.any",) and args and isinstance(args[0], AArr):
            return EmptyTest(args[0], negate=True)
        if name in ("numpy.empty_like", "numpy.zeros_like") and args and isinstance(args[0], AArr) and not (set(kwargs) - {"order", "subok"}):
            out = AArr(args[0].side, True, "opaque:uninitialised" if name.endswith("empty_like") else "zeros", None)
            out.uninitialised_like = args[0]
            return out
        if name in ("numpy.empty", "numpy.zeros") and args and isinstance(args[0], Sym) and args[0].name.endswith(".shape") and isinstance(kwargs.get("dtype", args[1] if len(args) > 1 else None), Sym):
            sh, dt = args[0].name[: -len(".shape")], kwargs.get("dtype", args[1] if len(args) > 1 else None).name
            if name == "numpy.zeros" and dt != f"dtypeof:{sh}" and self._dtype(kwargs.get("dtype", args[1] if len(args) > 1 else None)) in ("u8", "u16", "u32", "u64", "i64", "bool") and not (set(kwargs) - {"dtype", "order"}):
                out = AArr(sh, True, "zeros", None)
                out.uninitialised_side = sh  # shape of that input, all zero, own dtype
                out.own_dtype = self._dtype(kwargs.get("dtype", args[1] if len(args) > 1 else None))
                return out
            if dt == f"dtypeof:{sh}" and not (set(kwargs) - {"dtype", "order"}):
                out = AArr(sh, True, "opaque:uninitialised" if name.endswith("empty") else "zeros", None)
                out.uninitialised_side = sh  # shape and dtype of that input, no values yet
                return out
        if name in ("numpy.copy", "numpy.array") and args and isinstance(args[0], AArr):
            return self.arr_method(args[0], "copy", [], {}, node)
        if name in ("numpy.asarray", "numpy.atleast_1d", "numpy.ascontiguousarray") and args and isinstance(args[0], AArr):
            return args[0]
        if name in ("numpy.asarray", "numpy.atleast_1d", "numpy.array") and args and isinstance(args[0], (int, list, tuple, Sym, LabelKeys)) and not isinstance(args[0], bool):
            base = args[0] if isinstance(args[0], LabelKeys) else LabelKeys(args[0])
            dt = kwargs.get("dtype")
            if dt is not None:
                return self.arr_method(base, "astype", [dt], {}, node)
            if name == "numpy.atleast_1d" and not isinstance(base.value, (list, tuple)):
                return LabelKeys([base.value], base.casts)
            return base
        if name == "numpy.where" and len(args) == 3 and isinstance(args[0], AMask):
            m = args[0]
            if m.kind == "nonzero" and args[1] == 1 and args[2] == 0:
                return AArr(m.of.side, True, "bin", m.of.selection)
            if m.kind == "isin" and args[1] is m.of and args[2] == 0 and m.of.selection is None:
                out = AArr(m.of.side, True, m.of.content, ("keep", m.detail))
                out.casts = list(m.of.casts)
                return out
            if m.kind == "notin" and args[2] is m.of and args[1] == 0 and m.of.selection is None:
                out = AArr(m.of.side, True, m.of.content, ("keep", m.detail))
                out.casts = list(m.of.casts)
                return out
            return AArr(m.of.side, True, f"opaque:where {m!r}", m.of.selection)
        if name in ("int", "builtin:int") and args and isinstance(args[0], EmptyTest):
            return int(self.truth(args[0], node))
        if name in ("bool", "builtin:bool") and args and isinstance(args[0], EmptyTest):
            return self.truth(args[0], node)
        return super().external_call(name, args, kwargs, node)

    def call_builtin(self, name, args, kwargs, node):
        if name == "type" and len(args) == 1 and isinstance(args[0], (AArr, AMask)):
            return Sym("ext:numpy.ndarray")  # the inputs are plain ndarrays (subclasses: fallback paths)
        if name == "int" and len(args) == 1 and isinstance(args[0], LabelKeys) and not isinstance(args[0].value, (list, tuple)):
            return args[0].plain()  # the python value of a label scalar (still marked if it went through a cast)
        if name == "int" and args and isinstance(args[0], Reduction):
            return args[0]  # a count as a python int is still that count: decided only where it is tested
        if name in ("int", "bool") and args and isinstance(args[0], (EmptyTest, Reduction)):
            t = self.truth(args[0], node)
            return int(t) if name == "int" else t
        return super().call_builtin(name, args, kwargs, node)

    def isinstance_hook(self, v, klass, node):
        if isinstance(v, (AArr, AMask)):
            ks = klass if isinstance(klass, tuple) else (klass,)
            return any(isinstance(k, Sym) and k.name.endswith("numpy.ndarray") for k in ks)
        return super().isinstance_hook(v, klass, node)

    def binop_hook(self, op, l, r, node):
        if isinstance(op, ast.Add) and ((isinstance(l, RangeBound) and l.which == "max" and r == 1) or (isinstance(r, RangeBound) and r.which == "max" and l == 1)):
            return NValues((l if isinstance(l, RangeBound) else r).dtype)
        if isinstance(l, AMask) and isinstance(r, AMask) and isinstance(op, ast.BitOr):
            u = _mask_union(l, r)
            if u is not None:
                return u
        if isinstance(l, AMask) and isinstance(r, AMask) and isinstance(op, (ast.BitAnd, ast.BitOr)):
            return AMask(l.of, "other", f"{l!r} {type(op).__name__} {r!r}")
        return super().binop_hook(op, l, r, node)
