"""C07 - ASSD equals the mean of the two directed average surface distances
(decided: composition and configuration; scipy's erosion / feature transform are trusted)."""

from __future__ import annotations

import ast

from ..absval import Interp, Obj, RaiseSignal, Sym, Unknown, enumerate_paths
from ..model import AnchorMissing, Func, Undecided, bind_args, dotted, norm, walk_no_nested
from ..report import Ctx
from ..variants import Variant
from .common import calls_resolving_to
from .resultrun import ResultInterp, Tagged

INFO = {
    "explanation": "R07.6 (round 4): the feature transform that picks the nearest border voxel runs under the same (index) metric as the reconstructed distance - no sampling is handed to it. The ASSD call chain is interpreted over morphological terms (masks, structuring elements, erosions, borders, distance transforms): (R07.1) _average_symmetric_surface_distance is the arithmetic mean of exactly two directed terms, one per orientation; (R07.2) a border is mask XOR scipy.ndimage.binary_erosion(mask, structure=generate_binary_structure(mask.ndim, 1), iterations=1) with border_value absent/0 - outside the array counts as background - on the mask itself (only astype(bool)/atleast_1d before; no squeeze/reshape, no wrap-around shifts); (R07.3) each directed term is the mean of the distance transform of the complement of the REFERENCE border read at the PREDICTION border; (R07.4) _distance_transform_edt returns sqrt(sum over axis 0 of (feature index - own index)^2) with the squares taken in float64; (R07.5) the default connectivity reaching the structuring element is 1 along the whole wrapper chain. Per-instance crop before the metric call: one crop from both masks (R02.5) and a bounding box that never cuts foreground (R10.2), delegated. Also delegated: R10.3 (the per-instance crop covers both masks). Further delegated: R15.7 (no state kept between calls). Round 6: R07.4 enumerates every path of the distance transform under the input facts (at least one voxel to measure to; any other voxel may or may not be one): a raise on such an input is a violation; R07.1 uses that the border of a non-empty mask is non-empty. Round 7: the chain is judged per input class: identical masks give 0; both masks cropped by the box of their union keep borders and distances; a mask at most two voxels thick along an axis is its own border where the guard's helper is verified in the bounding-box domain to return last - first + 1 per axis; the two masks of a pair have one shape. Round 8: a border computed by hand from value changes along each axis (np.diff of the array with the generic axis moved to the front, or-ed into a boolean array through views) is decided by a small stencil domain: per generic axis the function must mark a differing successor (background behind the last voxel), a differing predecessor and the first voxel, and restrict the marks to foreground (R07.2 faces); the two masks of a pair have one dimensionality. Round 9: the public scipy entry point distance_transform_edt(return_distances=False, return_indices=True) is the feature transform; R15.11 (stored closures that read a loop variable late) is a frame condition of every property - deprecated aliases installed in a loop must bind the function they stand for.",
    "trusted_base": ["scipy.ndimage.binary_erosion, generate_binary_structure, euclidean_feature_transform", "numpy elementwise arithmetic"],
    "assumptions": ["masks are non-empty (property precondition)"],
    "not_decided": ["the Euclidean feature transform itself", "floating-point rounding"],
    "technique": "static analysis: abstract interpretation of the ASSD call chain over morphological terms + dtype dataflow of the distance reconstruction",
}


class MaskT:
    def __init__(self, name, ops=()):
        self.name = name
        self.ops = tuple(ops)

    def __repr__(self):
        return f"{self.name}{''.join('.' + o for o in self.ops)}"

    def __eq__(self, o):
        return isinstance(o, MaskT) and (o.name, o.ops) == (self.name, self.ops)

    def __hash__(self):
        return hash((self.name, self.ops))


class Term:
    def __init__(self, kind, **kw):
        self.kind = kind
        self.kw = kw

    def __repr__(self):
        return f"{self.kind}({', '.join(f'{k}={v!r}' for k, v in self.kw.items())})"

    def __eq__(self, o):
        return isinstance(o, Term) and o.kind == self.kind and o.kw == self.kw

    def __hash__(self):
        return hash(self.kind)


class _TM:
    def __init__(self, o, name):
        self.o = o
        self.name = name


SHAPE_OPS = {"squeeze", "reshape", "ravel", "flatten", "transpose", "swapaxes", "expand_dims", "pad", "roll"}


# ----------------------------------------------------------------------------------------
# face borders computed by hand (value changes along each axis) instead of by erosion
# ----------------------------------------------------------------------------------------


class _SA:
    """the array a border function receives (a mask or label map); axis: the generic axis moved to the front"""

    def __init__(self, axis=None):
        self.axis = axis


class _SB:
    """a boolean array of the input's shape built up by the function: which voxels it marks.
    terms (per generic axis): 'succ' value differs from the successor's, 'succ+last' the same with the last voxel
    compared with background, 'pred' value differs from the predecessor's, 'first' / 'lastidx' the voxel is the
    first / last of the axis.  fg: restricted to foreground at the end."""

    def __init__(self):
        self.terms = set()
        self.fg = False
        self.bad = []


class _SBv:
    def __init__(self, base, axis, lo=None, hi=None):
        self.base, self.axis, self.lo, self.hi = base, axis, lo, hi


class _Step:
    """np.diff(a, axis=0[, append=0]) != 0 along the generic axis; lo/hi: sliced"""

    def __init__(self, append0, boolean, lo=None, hi=None):
        self.append0, self.boolean, self.lo, self.hi = append0, boolean, lo, hi


class _Fg:
    pass


class StencilInterp(Interp):
    def get_attr(self, base, attr, node):
        if isinstance(base, _SA) and attr == "shape":
            return Sym("SHAPE")
        if isinstance(base, _SA) and attr == "ndim":
            return Sym("NDIM")
        return super().get_attr(base, attr, node)

    def call_builtin(self, name, args, kwargs, node):
        if name == "range" and len(args) == 1 and args[0] == Sym("NDIM"):
            return [Sym("AXIS")]  # the body is run once for a generic axis; it must not decide on the axis
        return super().call_builtin(name, args, kwargs, node)

    def external_call(self, name, args, kwargs, node):
        a = args
        if name in ("numpy.zeros", "numpy.zeros_like") and a and (a[0] == Sym("SHAPE") or isinstance(a[0], _SA)):
            dt = kwargs.get("dtype", a[1] if len(a) > 1 else None)
            if (isinstance(dt, Sym) and dt.name.split(".")[-1].split(":")[-1] in ("bool", "bool_")) and not (set(kwargs) - {"dtype"}):
                return _SB()
        if name == "numpy.moveaxis" and len(a) == 3 and a[1] == Sym("AXIS") and a[2] == 0:
            if isinstance(a[0], _SA) and a[0].axis is None:
                return _SA(axis="AXIS")
            if isinstance(a[0], _SB):
                return _SBv(a[0], "AXIS")
        if name == "numpy.diff" and a and isinstance(a[0], _SA) and a[0].axis == "AXIS" and kwargs.get("axis", a[2] if len(a) > 2 else None) == 0 and kwargs.get("n", a[1] if len(a) > 1 else 1) == 1 and not (set(kwargs) - {"axis", "append", "n"}):
            ap = kwargs.get("append")
            if ap is None or (isinstance(ap, (int, bool)) and ap == 0):
                return _Step("append" in kwargs, False)
        return Unknown(f"{name}(...)")

    def compare_hook(self, op, l, r, node):
        if isinstance(l, _Step) and not l.boolean and isinstance(r, int) and r == 0 and isinstance(op, ast.NotEq):
            return _Step(l.append0, True, l.lo, l.hi)
        if isinstance(l, _SA) and l.axis is None and isinstance(r, int) and r == 0 and isinstance(op, (ast.NotEq, ast.Gt)):
            return _Fg()
        return super().compare_hook(op, l, r, node)

    def subscript_hook(self, base, idx, node):
        if isinstance(idx, slice) and idx.step in (None, 1):
            if isinstance(base, _SBv) and base.lo is None and base.hi is None:
                return _SBv(base.base, base.axis, idx.start, idx.stop)
            if isinstance(base, _Step) and base.lo is None and base.hi is None:
                return _Step(base.append0, base.boolean, idx.start, idx.stop)
        return super().subscript_hook(base, idx, node)

    def binop_hook(self, op, l, r, node):
        if isinstance(op, ast.BitOr) and isinstance(l, _SBv) and isinstance(r, _Step) and r.boolean:
            tgt = (l.lo, l.hi)
            src = (r.lo, r.hi)
            if tgt == (None, None) and src == (None, None) and r.append0:
                l.base.terms.add("succ+last")  # same length: position i gets "a[i] differs from a[i+1]" (background behind the last)
            elif tgt == (None, -1) and src == (None, None) and not r.append0:
                l.base.terms.add("succ")
            elif tgt == (1, None) and ((src == (None, -1) and r.append0) or (src == (None, None) and not r.append0)):
                l.base.terms.add("pred")  # position i >= 1 gets "a[i-1] differs from a[i]"
            else:
                l.base.bad.append(norm(node) if isinstance(node, ast.AST) else "?")
            return l
        if isinstance(op, ast.BitAnd) and isinstance(l, _SB) and isinstance(r, _Fg):
            l.fg = True
            return l
        return super().binop_hook(op, l, r, node)

    def store_subscript_hook(self, base, idx, v, node):
        if isinstance(base, _SBv) and base.lo is None and isinstance(idx, slice) and idx.step in (None, 1):
            if isinstance(v, _SBv) and v.base is base.base:
                return  # the write-back of an in-place update of that very slice
            if v is True and (idx.start, idx.stop) in ((None, 1), (0, 1)):
                base.base.terms.add("first")
                return
            if v is True and (idx.start, idx.stop) == (-1, None):
                base.base.terms.add("lastidx")
                return
        if isinstance(base, _SBv):
            base.base.bad.append(norm(node) if isinstance(node, ast.AST) else "?")
            return
        return super().store_subscript_hook(base, idx, v, node)


_STENCIL_CACHE: dict = {}


def face_border_verdict(prog, f):
    """(True, None) if f(mask) marks exactly the foreground voxels with a differing or out-of-array face neighbour,
    (False, what is missing) if it marks them by the same scheme but leaves a case out, None if f is not such a function"""
    key = (id(prog), f.qual)
    if key in _STENCIL_CACHE:
        return _STENCIL_CACHE[key]
    res = None
    if len(f.call_params) == 1 and f.cls is None:
        try:
            out = StencilInterp(prog, f, {f.call_params[0].name: _SA()}).run()
            v = out.value if out.kind == "return" and not out.decisions else None
            if isinstance(v, _SB) and v.terms and not v.bad:
                missing = []
                if not v.fg:
                    missing.append("the marks are not restricted to foreground voxels")
                if not ("succ+last" in v.terms or {"succ", "lastidx"} <= v.terms):
                    missing.append("a voxel whose successor along an axis is background (or which is the last of the axis) is not marked" if "succ" not in v.terms and "succ+last" not in v.terms else "the last voxel of an axis (its successor lies outside of the array) is not marked")
                if "pred" not in v.terms:
                    missing.append("a voxel whose predecessor along an axis is background is not marked")
                if "first" not in v.terms:
                    missing.append("the first voxel of an axis (its predecessor lies outside of the array) is not marked")
                res = (not missing, missing or None)
        except (Undecided, RaiseSignal, RecursionError):
            res = None
    _STENCIL_CACHE[key] = res
    return res


class MorphInterp(ResultInterp):
    def __init__(self, *a, **kw):
        super().__init__(*a, **kw)
        self.root.notes = []

    def get_attr(self, base, attr, node):
        if isinstance(base, MaskT):
            if attr == "ndim":
                return Term("ndim", of=base.name)
            if attr == "shape":
                return Sym("SHAPE" + ("[cropped]" if "crop" in base.ops else ""))  # the two masks of a pair have one shape
            if attr == "dtype":
                return Sym(f"{base.name}.{attr}")
            return _TM(base, attr)
        if isinstance(base, Term):
            if attr == "ndim" and base.kind == "structure" and isinstance(base.kw.get("ndim"), Term):
                return base.kw["ndim"]
            if attr == "flags":
                return Sym("flags")
            if attr == "size" and base.kind in ("at", "border"):
                # the masks of the property are not empty: neither is their border (erosion with a zero
                # border strictly shrinks a finite non-empty set) nor the distances read at the border
                return Term("size>0", of=base)
            return _TM(base, attr)
        return super().get_attr(base, attr, node)

    def apply(self, fv, args, kwargs, node):
        if isinstance(fv, _TM):
            o, name = fv.o, fv.name
            if isinstance(o, MaskT):
                if name == "astype":
                    t = args[0] if args else None
                    if set(kwargs) - {"copy"}:
                        return Unknown("mask.astype with options")
                    isb = isinstance(t, Sym) and t.name.split(".")[-1].split(":")[-1] in ("bool", "bool_")
                    return MaskT(o.name, o.ops) if isb else MaskT(o.name, o.ops + ("astype(?)",))
                if name == "copy":
                    return o
                if name == "any" and not args and not kwargs:
                    return True  # the masks of the property are not empty
                if name in SHAPE_OPS:
                    return MaskT(o.name, o.ops + (name,))
                return Unknown(f"mask.{name}")
            if isinstance(o, Term):
                if name in ("mean", "sum", "max", "min", "std"):
                    return Term(name, of=o)
                if name in ("astype", "copy"):
                    return o
        return super().apply(fv, args, kwargs, node)

    def external_call(self, name, args, kwargs, node):
        a = args
        short = name.split(".")[-1]
        if name in ("numpy.atleast_1d", "numpy.asarray", "numpy.ascontiguousarray", "numpy.array") and a and isinstance(a[0], MaskT):
            return a[0]
        if name in ("numpy.any",) and len(a) == 1 and isinstance(a[0], MaskT) and not kwargs:
            return True
        if name == "numpy.array_equal" and len(a) == 2 and all(isinstance(x, MaskT) for x in a) and {a[0].name, a[1].name} == {"REF", "PRED"}:
            return self.root.__dict__.setdefault("_identical", Unknown("identical"))
        if self.prog.is_anchor(name, "utils.numpy_utils:_get_bbox_nd") and a and isinstance(a[0], Term) and a[0].kind == "or":
            return Term("bbox", of=a[0])
        if name in ("min", "builtin:min") and len(a) == 1 and isinstance(a[0], Term) and a[0].kind == "extent":
            return Term("minextent", of=a[0].kw["of"], off=a[0].kw["off"])
        if name.startswith("numpy.") and short in SHAPE_OPS and a and isinstance(a[0], MaskT):
            return MaskT(a[0].name, a[0].ops + (short,))
        if short == "generate_binary_structure":
            return Term("structure", ndim=a[0] if a else kwargs.get("rank"), connectivity=a[1] if len(a) > 1 else kwargs.get("connectivity"))
        if short == "binary_erosion":
            m = a[0] if a else kwargs.get("input")
            st = kwargs.get("structure", a[1] if len(a) > 1 else None)
            return Term("erosion", lib=name, mask=m, structure=st, iterations=kwargs.get("iterations", a[2] if len(a) > 2 else 1), border_value=kwargs.get("border_value", 0), extra=sorted(k for k in kwargs if k not in ("structure", "iterations", "border_value", "input")))
        if name in ("numpy.logical_xor", "numpy.bitwise_xor", "numpy.subtract") and len(a) >= 2:
            out = a[2] if len(a) > 2 else kwargs.get("out")
            ops = [Term(x.kind, **x.kw) if (x is out and isinstance(x, Term)) else x for x in a[:2]]  # value of `out` before it is overwritten
            res = self.binop_hook(ast.BitXor() if "xor" in name else ast.Sub(), ops[0], ops[1], node)
            if isinstance(res, Term) and isinstance(out, Term):
                # result written into an existing array object: every name bound to it sees it
                out.kind, out.kw = res.kind, dict(res.kw)
                return out
            if isinstance(res, Term):
                return res
        if short in ("mean", "average") and name.startswith("numpy.") and a:
            x = a[0]
            return Term("mean", of=tuple(x) if isinstance(x, (list, tuple)) else x)
        if name in ("float", "builtin:float") and a and isinstance(a[0], Term):
            return a[0]
        if name.endswith("distance_transform_edt") or self.prog.is_anchor(name, "metrics.assd:_distance_transform_edt"):
            return Term("edt", of=a[0] if a else kwargs.get("input_array"), lib=name)
        if short == "_normalize_sequence":
            return Sym("spacing")
        return super().external_call(name, args, kwargs, node)

    def call_builtin(self, name, args, kwargs, node):
        if name == "float" and args and isinstance(args[0], (Term, Tagged)):
            return args[0]
        if name == "len" and args and isinstance(args[0], Term) and args[0].kind in ("at", "border"):
            return Term("size>0", of=args[0])
        if name == "min" and len(args) == 1 and isinstance(args[0], Term) and args[0].kind == "extent":
            return Term("minextent", of=args[0].kw["of"], off=args[0].kw["off"])
        return super().call_builtin(name, args, kwargs, node)

    def call_func(self, f, args, kwargs, node, self_obj=None):
        # a function proved (c10.verified_extent_functions) to return the per-axis extents of the non-zero region
        from .c10 import axis_span_functions

        spans = axis_span_functions(self.prog)
        if self_obj is None and len(args) + len(kwargs) == 1 and f.qual in spans:
            m = (list(args) + list(kwargs.values()))[0]
            if isinstance(m, MaskT):
                return Term("extent", of=m, off=spans[f.qual])  # per axis: last - first + off (off = 1: the extent in voxels)
        if self_obj is None and len(args) + len(kwargs) == 1:
            m = (list(args) + list(kwargs.values()))[0]
            if isinstance(m, MaskT):
                fv_ = face_border_verdict(self.prog, f)
                if fv_ is not None:
                    # the border computed from value changes along every axis (decided on the function's own code)
                    return Term("border", mask=m, by=f.qual, missing=tuple(fv_[1] or ()))
        return super().call_func(f, args, kwargs, node, self_obj=self_obj)

    def binop_hook(self, op, l, r, node):
        if isinstance(op, ast.BitOr) and isinstance(l, MaskT) and isinstance(r, MaskT):
            return Term("or", l=l, r=r)
        if isinstance(op, ast.BitXor):
            for m, e in ((l, r), (r, l)):
                if isinstance(m, MaskT) and isinstance(e, Term) and e.kind == "erosion":
                    return Term("border", mask=m, erosion=e)
        if isinstance(op, ast.Sub) and isinstance(l, MaskT) and isinstance(r, Term) and r.kind == "erosion":
            return Term("border", mask=l, erosion=r)
        if isinstance(op, (ast.Add, ast.Div, ast.Mult)) and (isinstance(l, Term) or isinstance(r, Term)):
            return Term({ast.Add: "add", ast.Div: "div", ast.Mult: "mul"}[type(op)], l=l, r=r)
        return super().binop_hook(op, l, r, node)

    def ev_UnaryOp(self, e):
        if isinstance(e.op, ast.Invert):
            v = self.eval(e.operand)
            if isinstance(v, Term):
                return Term("not", of=v)
            if isinstance(v, MaskT):
                return Term("not", of=v)
        return super().ev_UnaryOp(e)

    def subscript_hook(self, base, idx, node):
        if isinstance(base, Term) and base.kind == "edt" and isinstance(idx, (Term, MaskT)):
            return Term("at", dt=base, where=idx)
        if isinstance(base, MaskT) and isinstance(idx, Term) and idx.kind == "bbox":
            u = idx.kw["of"]
            if {u.kw["l"].name, u.kw["r"].name} == {"REF", "PRED"} and not u.kw["l"].ops and not u.kw["r"].ops and not base.ops:
                # cropped to the bounding box of the union of both masks (R10.2: the box holds every voxel of both)
                return MaskT(base.name, ("crop",))
        return super().subscript_hook(base, idx, node)

    def compare_hook(self, op, l, r, node):
        if isinstance(l, Term) and l.kind == "ndim" and isinstance(r, Term) and r.kind == "ndim" and isinstance(op, (ast.Eq, ast.NotEq)):
            return isinstance(op, ast.Eq)  # the two masks of a pair have one shape, hence one dimensionality
        if isinstance(l, Term) and l.kind == "ndim":
            return Unknown("ndim compare")
        if isinstance(l, Term) and l.kind == "minextent" and isinstance(r, int) and not isinstance(r, bool) and isinstance(op, (ast.LtE, ast.Lt)):
            k = (r if isinstance(op, ast.LtE) else r - 1) + 1 - l.kw["off"]  # the bound in voxels of thickness
            return self.root.__dict__.setdefault("_flat", {}).setdefault((l.kw["of"], k), Unknown(f"flat:{l.kw['of'].name}:{k}"))
        if isinstance(l, Term) and l.kind == "size>0" and isinstance(r, int) and not isinstance(r, bool) and r <= 0:
            return isinstance(op, (ast.Gt, ast.GtE, ast.NotEq)) if r == 0 else isinstance(op, (ast.Gt, ast.GtE, ast.NotEq))
        if isinstance(r, Term) and r.kind == "size>0" and isinstance(l, int) and not isinstance(l, bool) and l == 0:
            return isinstance(op, (ast.Lt, ast.LtE, ast.NotEq))
        return super().compare_hook(op, l, r, node)


def _flatten_mean(t):
    """mean((a, b)) | (a + b) / 2 | 0.5 * (a + b)  ->  [a, b]"""
    if isinstance(t, Term) and t.kind == "mean" and isinstance(t.kw.get("of"), tuple):
        return list(t.kw["of"])
    if isinstance(t, Term) and t.kind == "div" and t.kw.get("r") == 2 and isinstance(t.kw.get("l"), Term) and t.kw["l"].kind == "add":
        return [t.kw["l"].kw["l"], t.kw["l"].kw["r"]]
    if isinstance(t, Term) and t.kind == "mul":
        for a, b in ((t.kw["l"], t.kw["r"]), (t.kw["r"], t.kw["l"])):
            if a == 0.5 and isinstance(b, Term) and b.kind == "add":
                return [b.kw["l"], b.kw["r"]]
    return None


def check_chain(ctx: Ctx):
    prog = ctx.prog
    f = prog.func("metrics.assd:_average_symmetric_surface_distance")
    edt = prog.func("metrics.assd:_distance_transform_edt")
    X, Y = MaskT("REF"), MaskT("PRED")
    args = {}
    for p in f.call_params:
        n = p.name.lower()
        if n.startswith("ref"):
            args[p.name] = X
        elif n.startswith("pred"):
            args[p.name] = Y
    if len(args) != 2:
        raise AnchorMissing(f"{f.qual}: parameters not recognised")
    its = []

    def make(prefix):
        it = MorphInterp(prog, f, dict(args), prefix=prefix)
        it.root.no_inline = {edt.qual, prog.func("utils.numpy_utils:_get_bbox_nd").qual}
        its.append(it)
        return it

    outs = enumerate_paths(make, max_paths=64)
    # voxelspacing is None on the analysed path.  Every returning path is an input class (identical masks,
    # flat objects, ...) and must be right on its own.
    n_paths = 0
    for out in outs:
        if out.kind != "return":
            continue
        tags = [(str(getattr(v, "tag", "")), d) for _, v, d in out.decisions]
        other = [t for t, d in tags if not (t == "identical" or t.startswith("flat:"))]
        if other:
            ctx.undecided("R07.1", f, f.node, f"{f.qual}", f"ASSD chain splits on an unmodelled condition ({[norm(d[0]) for d in out.decisions if isinstance(d[0], ast.AST)][:3]})")
            return
        n_paths += 1
        suffix = "[" + "; ".join(f"{t}={d}" for t, d in tags) + "]" if tags else ""
        if ("identical", True) in tags:
            ctx.decide("R07.1", f, out.node, f"{f.qual}:identical{suffix}", "identical masks have identical borders: the distance is 0", out.value in (0, 0.0), {"got": repr(out.value)[:80]})
            continue
        _judge_chain(ctx, prog, f, out.value, suffix, {t: d for t, d in tags})
    if n_paths == 0:
        ctx.undecided("R07.1", f, f.node, f"{f.qual}", "no returning path of the ASSD chain")


def _judge_chain(ctx, prog, f, res, suffix, tags):
    parts = _flatten_mean(res)
    if parts is None or len(parts) != 2:
        wrong = (isinstance(res, Term) and res.kind in ("add", "max", "min", "sum", "at", "mean")) or (isinstance(res, Tagged) and res.name in ("numpy.max", "numpy.min", "numpy.sum", "numpy.amax", "numpy.amin", "numpy.median", "max", "min", "sum"))
        ctx.decide("R07.1", f, f.node, f"{f.qual}:mean{suffix}", "ASSD is the arithmetic mean of two directed terms", False if wrong else None, {"got": repr(res)[:200]})
        return
    ctx.ok("R07.1", f, f.node, f"{f.qual}:mean{suffix}", "ASSD is the arithmetic mean of two directed terms", None)
    orient = []

    def is_border(b):
        """a border operand: mask XOR erosion(mask), or - where this path is guarded by 'the mask is at most two
        voxels thick along some axis' (extent function verified, c10) - the mask itself: it is its own border"""
        if isinstance(b, Term) and b.kind == "border":
            return "border"
        if isinstance(b, MaskT) and any(t.startswith(f"flat:{b.name}:") and d and int(t.rsplit(":", 1)[1]) <= 2 for t, d in tags.items()):
            return "flat"
        return None

    for k, part in enumerate(parts):
        construct = f"{f.qual}:directed#{k}{suffix}"
        if not (isinstance(part, Term) and part.kind in ("mean", "sum", "max", "min", "std")):
            ctx.undecided("R07.3", f, f.node, construct, f"directed term not recognised: {part!r}"[:200])
            continue
        ctx.decide("R07.3", f, f.node, construct + ":reducer", "a directed term is the MEAN of the surface distances", part.kind == "mean", {"got": part.kind})
        at = part.kw.get("of")
        if not (isinstance(at, Term) and at.kind == "at"):
            ctx.undecided("R07.3", f, f.node, construct, f"distances not read from a distance transform: {at!r}"[:200])
            continue
        dt, where = at.kw["dt"], at.kw["where"]
        src = dt.kw.get("of")
        ok_inv = isinstance(src, Term) and src.kind == "not" and is_border(src.kw["of"]) is not None
        if not ok_inv or is_border(where) is None:
            ctx.decide("R07.3", f, f.node, construct + ":dt", "distances are read from the transform of the COMPLEMENT of a border, at the positions of a border", False, {"dt_of": repr(src)[:120], "at": repr(where)[:120]})
            continue
        b_ref, b_pred = src.kw["of"], where
        mask_of = lambda b: b.kw["mask"] if isinstance(b, Term) else b
        orient.append((mask_of(b_ref).name, mask_of(b_pred).name))
        # both masks untouched, or both cropped to the bounding box of their union (the box holds every voxel of
        # both, voxels on its rim had background or the array edge beyond it before: borders and distances stay)
        ops_ok = mask_of(b_ref).ops == mask_of(b_pred).ops and mask_of(b_ref).ops in ((), ("crop",))
        for role, b in (("target", b_ref), ("source", b_pred)):
            m = mask_of(b)
            c2 = construct + f":{role}-border({m.name})"
            if is_border(b) == "flat":
                ctx.decide("R07.2", f, f.node, c2 + ":mask", "the border is taken of the mask itself; a mask at most two voxels thick along an axis is its own border", ops_ok, {"mask": repr(m)})
                continue
            if "by" in b.kw:
                ctx.decide("R07.2", f, f.node, c2 + ":mask", "the border is taken of the mask itself (no squeeze/reshape/shift before; array geometry decides which voxels have an out-of-array neighbour)", ops_ok, {"mask": repr(m)})
                ctx.decide("R07.2", f, f.node, c2 + ":faces", f"{b.kw['by']} marks every foreground voxel with a background or out-of-array face neighbour (value changes towards both neighbours along every axis, first and last voxel of an axis)", not b.kw["missing"], {"missing": list(b.kw["missing"])} if b.kw["missing"] else None)
                continue
            e = b.kw["erosion"]
            ctx.decide("R07.2", f, f.node, c2 + ":mask", "the border is taken of the mask itself (no squeeze/reshape/shift before; array geometry decides which voxels have an out-of-array neighbour)", ops_ok and e.kw["mask"] == m, {"mask": repr(m), "eroded": repr(e.kw["mask"])})
            ctx.decide("R07.2", f, f.node, c2 + ":erosion", "erosion is scipy.ndimage.binary_erosion with one iteration", e.kw["lib"].endswith("binary_erosion") and e.kw["lib"].startswith("scipy") and e.kw["iterations"] == 1 and not e.kw["extra"], {"lib": e.kw["lib"], "iterations": repr(e.kw["iterations"]), "extra": e.kw["extra"]})
            ctx.decide("R07.2", f, f.node, c2 + ":outside", "voxels outside the array count as background (border_value 0): foreground on the array edge is border", e.kw["border_value"] in (0, False), {"border_value": repr(e.kw["border_value"])})
            st = e.kw["structure"]
            ok_st = isinstance(st, Term) and st.kind == "structure" and st.kw["connectivity"] == 1 and isinstance(st.kw["ndim"], Term) and st.kw["ndim"].kind == "ndim"
            ctx.decide("R07.2", f, f.node, c2 + ":structure", "the structuring element is the face-neighbour cross of the mask's dimensionality (connectivity 1)", ok_st, {"structure": repr(st)[:120]})
        ctx.decide("R07.3", f, f.node, construct + ":edt", "the distance transform is the package's Euclidean transform of the complemented border", "distance_transform_edt" in str(dt.kw.get("lib", "")) or prog.is_anchor(str(dt.kw.get("lib", "")), "metrics.assd:_distance_transform_edt"), {"lib": dt.kw.get("lib")}, nontrivial=False)
    want = sorted([("REF", "PRED"), ("PRED", "REF")])
    ctx.decide("R07.1", f, f.node, f"{f.qual}:orientations{suffix}", "the two directed terms are prediction->reference and reference->prediction (each orientation exactly once)", sorted(orient) == want, {"got (target border, source border)": sorted(orient)})


def check_no_wraparound(ctx: Ctx):
    prog = ctx.prog
    m = prog.module("metrics.assd")
    hits = []
    for f in m.functions.values():
        for c in prog.calls_in(f):
            ext = prog.external_name(m, c.func)
            if ext in ("numpy.roll",):
                hits.append((f, c))
    for f, c in hits:
        ctx.violated("R07.2", f, c, f"{f.qual}:np.roll", "neighbourhood shifts with np.roll wrap around the array: a voxel on one face sees the opposite face as its neighbour (out-of-array must count as background)", {"call": norm(c)[:80]})
    if not hits:
        ctx.ok("R07.2", None, None, "metrics.assd:no-wraparound", "no wrap-around shift (np.roll) in the ASSD module", None, nontrivial=False)


# ----------------------------------------------------------------------------------------
# R07.4 distance reconstruction
# ----------------------------------------------------------------------------------------


class DArr:
    def __init__(self, dtype, expr):
        self.dtype = dtype
        self.expr = expr

    def __repr__(self):
        return f"{self.expr}:{self.dtype}"


class _DM:
    def __init__(self, o, name):
        self.o = o
        self.name = name


def _dt(sym):
    if isinstance(sym, Sym):
        n = sym.name.split(".")[-1].split(":")[-1]
        return {"int32": "i32", "int64": "i64", "float64": "f64", "float32": "f32", "int16": "i16", "intp": "i64", "float_": "f64", "float": "f64", "double": "f64"}.get(n)
    return None


class EdtInterp(ResultInterp):
    def __init__(self, *a, **kw):
        super().__init__(*a, **kw)
        self.root.int_squares = []

    def get_attr(self, base, attr, node):
        if isinstance(base, DArr):
            if attr == "dtype":
                return Sym("dtypeof:" + base.dtype)
            if attr in ("shape", "ndim"):
                return Sym(f"arr.{attr}")
            return _DM(base, attr)
        if isinstance(base, Sym) and base.name == "INPUT":
            return Sym(f"INPUT.{attr}")
        if isinstance(base, Sym) and base.name == "ext:numpy.add" and attr == "reduce":
            return Sym("ext:numpy.add.reduce")
        return super().get_attr(base, attr, node)

    def apply(self, fv, args, kwargs, node):
        if isinstance(fv, _DM):
            o, name = fv.o, fv.name
            if name == "astype":
                d = _dt(args[0]) if args else None
                return DArr(d or "?", o.expr)
            if name == "copy":
                return DArr(o.dtype, o.expr)
            if name == "sum":
                return DArr(o.dtype, f"sum[{kwargs.get('axis', args[0] if args else None)}]({o.expr})")
        return super().apply(fv, args, kwargs, node)

    def _square(self, a: DArr, node):
        if a.dtype not in ("f64",):
            self.root.int_squares.append((node, a.dtype))
        return f"({a.expr})^2"

    def external_call(self, name, args, kwargs, node):
        a = args
        if name == "numpy.zeros":
            return DArr(_dt(kwargs.get("dtype")) or "f64", "ft0")
        # the array handed in marks the voxels to measure to with zeros: there is at least one (the
        # border of a non-empty mask), while every other voxel may or may not be one
        if name in ("INPUT.all", "numpy.all") and (name == "INPUT.all" or (a and isinstance(a[0], Sym) and a[0].name == "INPUT")) and not kwargs:
            return False
        if name in ("INPUT.any", "numpy.any") and (name == "INPUT.any" or (a and isinstance(a[0], Sym) and a[0].name == "INPUT")) and not kwargs:
            return Unknown("input-any")
        if name.endswith("euclidean_feature_transform"):
            if len(a) >= 3 and isinstance(a[2], DArr):
                a[2].expr = "ft"
            return None
        if name.split(".")[-1] == "distance_transform_edt" and name.startswith("scipy") and kwargs.get("return_indices") is True and kwargs.get("return_distances") is False and not (set(kwargs) - {"sampling", "return_indices", "return_distances"}) and len(a) == 1:
            # the public entry point asked for the feature transform only: per voxel the index of the nearest zero
            return DArr("i32", "ft")
        if name == "numpy.indices":
            d = kwargs.get("dtype")
            dt = d.name[8:] if isinstance(d, Sym) and d.name.startswith("dtypeof:") else (_dt(d) or "i64")
            return DArr(dt, "idx")
        if name == "numpy.multiply" and len(a) >= 2 and isinstance(a[0], DArr) and isinstance(a[1], DArr):
            out = a[2] if len(a) > 2 else kwargs.get("out")
            if a[0] is a[1] or a[0].expr == a[1].expr:
                ex = self._square(a[0], node)
            else:
                ex = f"({a[0].expr})*({a[1].expr})"
            if isinstance(out, DArr):
                out.expr = ex
                return out
            return DArr(a[0].dtype, ex)
        def emit(out, dtype, ex):
            # ufunc result written into `out` (its dtype is kept) or returned as a new array
            if isinstance(out, DArr):
                out.expr = ex
                return out
            return DArr(dtype, ex)

        if name in ("numpy.subtract",) and len(a) >= 2 and isinstance(a[0], DArr) and isinstance(a[1], DArr):
            order = ["i16", "i32", "i64", "f32", "f64"]
            dt_ = a[0].dtype if (a[0].dtype in order and a[1].dtype in order and order.index(a[0].dtype) >= order.index(a[1].dtype)) else a[1].dtype
            return emit(a[2] if len(a) > 2 else kwargs.get("out"), dt_, f"{a[0].expr}-{a[1].expr}")
        if name in ("numpy.square",) and a and isinstance(a[0], DArr):
            return emit(a[1] if len(a) > 1 else kwargs.get("out"), a[0].dtype, self._square(a[0], node))
        if name in ("numpy.power",) and len(a) >= 2 and isinstance(a[0], DArr) and a[1] == 2:
            return emit(a[2] if len(a) > 2 else kwargs.get("out"), a[0].dtype, self._square(a[0], node))
        if name in ("numpy.add.reduce", "numpy.sum") and a and isinstance(a[0], DArr):
            return DArr(a[0].dtype, f"sum[{kwargs.get('axis', a[1] if len(a) > 1 else None)}]({a[0].expr})")
        if name == "numpy.sqrt" and a and isinstance(a[0], DArr):
            return emit(a[1] if len(a) > 1 else kwargs.get("out"), "f64", f"sqrt({a[0].expr})")
        if name in ("numpy.linalg.norm",) and a and isinstance(a[0], DArr):
            return DArr("f64", f"sqrt(sum[{kwargs.get('axis')}](({a[0].expr})^2))")
        return super().external_call(name, args, kwargs, node)

    def binop_hook(self, op, l, r, node):
        if isinstance(l, DArr) and isinstance(r, DArr):
            order = ["i16", "i32", "i64", "f32", "f64"]
            dt = l.dtype if order.index(l.dtype) >= order.index(r.dtype) else r.dtype if l.dtype in order and r.dtype in order else "?"
            if isinstance(op, ast.Sub):
                return DArr(dt, f"{l.expr}-{r.expr}")
            if isinstance(op, ast.Mult):
                if l.expr == r.expr:
                    return DArr(dt, self._square(l, node))
                return DArr(dt, f"({l.expr})*({r.expr})")
        if isinstance(l, DArr) and isinstance(op, ast.Pow) and r == 2:
            return DArr(l.dtype, self._square(l, node))
        if isinstance(l, DArr) and isinstance(op, ast.Pow) and r == 0.5:
            return DArr("f64", f"sqrt({l.expr})")
        return super().binop_hook(op, l, r, node)


def check_edt(ctx: Ctx):
    prog = ctx.prog
    f = prog.func("metrics.assd:_distance_transform_edt")
    p0 = f.call_params[0].name
    its = []

    def make(prefix):
        its.append(EdtInterp(prog, f, {p0: Sym("INPUT")}, prefix=prefix))
        return its[-1]

    outs = enumerate_paths(make, max_paths=16)
    construct = f"{f.qual}"
    for out, it in zip(outs, its):
        other = [d for d in out.decisions if not (isinstance(d[1], Unknown) and d[1].tag == "input-any")]
        if out.kind == "raise" and not other:
            ctx.violated("R07.4", f, out.node, construct + ":total", f"the transform raises {out.exc} for an array that has a voxel to measure to (here: every voxel is one)", {"path": [(norm(d[0]), d[2]) for d in out.decisions if isinstance(d[0], ast.AST)]})
            return
        if out.kind != "return" or other or not isinstance(out.value, DArr):
            ctx.undecided("R07.4", f, out.node, construct, f"distance reconstruction not evaluable: {out.kind} {out.exc} {out.value!r}"[:200])
            return
    out, it = outs[0], its[0]
    for o2 in outs[1:]:
        if o2.value.expr != out.value.expr:
            out = o2
    v = out.value
    ok = v.expr in ("sqrt(sum[0]((ft-idx)^2))", "sqrt(sum[0]((idx-ft)^2))")
    ctx.decide("R07.4", f, out.node, construct + ":formula", "distance = sqrt(sum over the coordinate axis of (nearest-feature index - own index)^2)", ok, {"got": v.expr})
    bad = [x for it_ in its for x in it_.root.int_squares]
    ctx.decide("R07.4", f, bad[0][0] if bad else out.node, construct + ":float-squares", "index offsets are squared in float64 (int32 squares overflow for offsets >= 46341 voxels)", not bad, {"squared_in": [d for _, d in bad]})


def check_metric_consistency(ctx: Ctx):
    """R07.6: the voxel that counts as *nearest* is chosen under the same metric as the distance that
    is averaged.  _distance_transform_edt reconstructs the distance in index units (R07.4: no scaling
    by the sampling), so the feature transform must run without sampling as well: every call of
    _distance_transform_edt on the ASSD path passes sampling=None (or nothing), unless the distance
    reconstruction scales each axis by the same sampling."""
    prog = ctx.prog
    edt = prog.func("metrics.assd:_distance_transform_edt")
    sp = next((p.name for p in edt.call_params if "sampl" in p.name.lower() or "spacing" in p.name.lower()), None)
    if sp is None:
        ctx.ok("R07.6", edt, edt.node, f"{edt.qual}:no-sampling", "the distance transform has no sampling parameter", None, nontrivial=False)
        return
    # does the reconstruction use the sampling?  (a Name load of the parameter outside the feature-transform call)
    ft_calls = [c for c in prog.calls_in(edt) if (dotted(c.func) or "").split(".")[-1] in ("euclidean_feature_transform", "distance_transform_edt")]
    inside = {id(n) for c in ft_calls for n in ast.walk(c)}
    scaled = [n for n in walk_no_nested(edt.node) if isinstance(n, ast.Name) and n.id == sp and isinstance(n.ctx, ast.Load) and id(n) not in inside]
    passes = [c for c in ft_calls if any(isinstance(n, ast.Name) and n.id == sp for n in ast.walk(c))]
    n = 0
    m = prog.module("metrics.assd")
    for f in m.functions.values():
        for c in calls_resolving_to(prog, f, edt):
            n += 1
            b, _ = bind_args(edt, c)
            a = b.get(sp)
            none = a is None or (isinstance(a, ast.Constant) and a.value is None)
            if none or not passes:
                ctx.ok("R07.6", f, c, f"{f.qual}->{edt.name}:sampling", "nearest voxel and averaged distance use the same (index) metric: no sampling is handed to the feature transform")
            elif scaled:
                ctx.undecided("R07.6", f, c, f"{f.qual}->{edt.name}:sampling", "a sampling is handed to the feature transform and the reconstruction mentions it: whether both use the same metric is not decided", {"sampling": norm(a)})
            else:
                ctx.violated("R07.6", f, c, f"{f.qual}->{edt.name}:sampling", "the nearest voxel is chosen under the sampling metric while the distance is reconstructed in index units: for non-uniform spacing the averaged distance is not the distance to the nearest border voxel", {"sampling": norm(a)})
    if n < 1:
        ctx.undecided("R07.6.floor", None, None, "floor:R07.6", "no call of the distance transform found in metrics.assd")


def check_connectivity_defaults(ctx: Ctx):
    prog = ctx.prog
    m = prog.module("metrics.assd")
    n = 0
    for f in m.functions.values():
        for p in f.params:
            if p.name == "connectivity":
                n += 1
                ok = isinstance(p.default, ast.Constant) and p.default.value == 1
                ctx.decide("R07.5", f, f.node, f"{f.qual}:connectivity-default", "default connectivity is 1 (face neighbours)", ok, {"default": norm(p.default) if p.default is not None else None}, nontrivial=False)
        for c in prog.calls_in(f):
            for kw in c.keywords:
                if kw.arg == "connectivity":
                    ok = isinstance(kw.value, ast.Name) and kw.value.id == "connectivity" or (isinstance(kw.value, ast.Constant) and kw.value.value == 1)
                    ctx.decide("R07.5", f, c, f"{f.qual}:connectivity-passed:{norm(c.func)}", "connectivity is passed through unchanged", ok, {"value": norm(kw.value)}, nontrivial=False)
    # the Metric registry must not bind ASSD with another connectivity
    if n < 3:
        ctx.undecided("R07.5.floor", None, None, "floor:R07.5", f"{n} connectivity parameters found, confirmed floor is 3")


def _run_rule(ctx, name, fn):
    """a sub-rule that cannot be evaluated is recorded as undecided; the remaining rules still run"""
    try:
        return fn(ctx)
    except (Undecided, AnchorMissing) as e:
        ctx.undecided(name, None, None, f"{name}:analysis", f"{type(e).__name__}: {e}")
        return 0


def check(ctx: Ctx):
    _run_rule(ctx, "check_no_wraparound", check_no_wraparound)
    from . import c02, c10

    for fn, rule in ((check_chain, "R07.1"), (check_edt, "R07.4"), (check_connectivity_defaults, "R07.5"), (check_metric_consistency, "R07.6"), (c10.check_bbox, "R10.2"), (c10.check_crop_mask, "R10.3"), (c02.check_single_instance, "R02.5")):
        try:
            fn(ctx)
        except (Undecided, AnchorMissing) as e:
            ctx.undecided(rule, None, None, f"{rule}:{fn.__name__}", f"{type(e).__name__}: {e}")
    # the value depends on the two masks only: no state kept between calls (R15.7)
    from . import c03, c15

    c03._guarded(ctx, "R15.7", c15.check_globals)
    c03._guarded(ctx, "R15.9", c15.check_metric_call_history)


_A = "panoptica/metrics/assd.py"

VARIANTS = [
    Variant("C07-m-one-direction", "R07.1", "mutant", [(_A, "            _average_surface_distance(\n                reference=prediction,\n                prediction=reference,", "            _average_surface_distance(\n                reference=reference,\n                prediction=prediction,")], control=True),
    Variant("C07-m-max-instead-of-mean", "R07.1", "mutant", [(_A, "    assd = np.mean(\n", "    assd = np.max(\n")]),
    Variant("C07-m-connectivity2", "R07.", "mutant", [(_A, "def __surface_distances(reference, prediction, voxelspacing=None, connectivity=1):", "def __surface_distances(reference, prediction, voxelspacing=None, connectivity=2):"), (_A, "    sds = __surface_distances(reference, prediction, voxelspacing, connectivity)", "    sds = __surface_distances(reference, prediction, voxelspacing)")]),
    Variant("C07-m-border-value", "R07.2", "mutant", [(_A, "    result_border = prediction ^ binary_erosion(\n        prediction, structure=footprint, iterations=1\n    )", "    result_border = prediction ^ binary_erosion(\n        prediction, structure=footprint, iterations=1, border_value=1\n    )")], control=True),
    Variant("C07-m-iterations2", "R07.2", "mutant", [(_A, "    reference_border = reference ^ binary_erosion(\n        reference, structure=footprint, iterations=1\n    )", "    reference_border = reference ^ binary_erosion(\n        reference, structure=footprint, iterations=2\n    )")]),
    Variant("C07-m-squeeze", "R07.2", "mutant", [(_A, "    prediction = np.atleast_1d(prediction.astype(bool))", "    prediction = np.atleast_1d(np.squeeze(prediction.astype(bool)))")]),
    Variant("C07-m-dt-at-reference", "R07.", "mutant", [(_A, "    sds = dt[result_border]", "    sds = dt[reference_border]")]),
    Variant("C07-m-sum", "R07.3", "mutant", [(_A, "    asd = sds.mean()", "    asd = sds.sum()")]),
    Variant("C07-m-not-inverted", "R07.3", "mutant", [(_A, "    dt = _distance_transform_edt(~reference_border, sampling=None)", "    dt = _distance_transform_edt(reference_border, sampling=None)")]),
    Variant("C07-m-roll", "R07.2", "mutant", [(_A, "    footprint = generate_binary_structure(prediction.ndim, connectivity)", "    footprint = generate_binary_structure(prediction.ndim, connectivity)\n    shifted = np.roll(prediction, 1, axis=0)")]),
    Variant("C07-m-int32-squares", "R07.4", "mutant", [(_A, "        dt = dt.astype(np.float64)\n", ""), (_A, "        dt = np.add.reduce(dt, axis=0)\n", "        dt = np.add.reduce(dt, axis=0).astype(np.float64)\n")]),
    Variant("C07-m-reduce-axis", "R07.4", "mutant", [(_A, "        dt = np.add.reduce(dt, axis=0)", "        dt = np.add.reduce(dt, axis=-1)")]),
    Variant("C07-t-half-sum", "R07.1", "twin", [(_A, "    return float(assd)", "    return float(assd)"), (_A, "    assd = np.mean(\n        (\n            _average_surface_distance(\n                reference=prediction,\n                prediction=reference,\n                voxelspacing=voxelspacing,\n                connectivity=connectivity,\n            ),\n            _average_surface_distance(\n                reference=reference,\n                prediction=prediction,\n                voxelspacing=voxelspacing,\n                connectivity=connectivity,\n            ),\n        )\n    )", "    a = _average_surface_distance(reference=prediction, prediction=reference, voxelspacing=voxelspacing, connectivity=connectivity)\n    b = _average_surface_distance(reference=reference, prediction=prediction, voxelspacing=voxelspacing, connectivity=connectivity)\n    assd = (a + b) / 2")]),
    Variant("C07-t-square-op", "R07.4", "twin", [(_A, "        np.multiply(dt, dt, dt)\n", "        dt = dt * dt\n")]),
]
