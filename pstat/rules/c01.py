"""C01 - reported panoptic results equal the published definitions, end to end
(decided: the composition of the pipeline and its delegated component rules)."""

from __future__ import annotations

import ast

from ..absval import Obj, Sym, Unknown
from ..model import AnchorMissing, Undecided, norm
from ..report import Ctx
from ..variants import Variant
from . import c02, c03, c05, c06, c08
from .arrdom import AArr
from .evalrun import run_pipeline

INFO = {
    "explanation": "The composition is decided, not the numbers. (R01.1) typestate of panoptic_evaluate over the isinstance cascade: for each of the three input classes every exit returns a PanopticaResult, the trailing RuntimeError is unreachable, each stage is called only in a state it admits, stages occur in the order approximate < match < evaluate; (R01.2) panoptic_evaluate is run abstractly with the stages as observation points: the whole-pair crop is computed from both arrays and applied before the stages, each stage receives the pair produced by its predecessor, the instance metrics / decision metric / decision threshold / global metrics / edge-case handler reach the parameter of the same role, the result is built from the evaluated pair's fields uncrossed, calculate_all runs iff result_all; (R01.3) delegated component rules on the same tree: candidate discovery, best-first order and the inclusive direction-aware threshold (R03.1-R03.4), tp/list coherence and derived formulas (R02.1-R02.2), backend dispatch (R05.1-R05.3), kernels and label selection (R06.1-R06.6). Further delegated on the same tree: pair-code and crop containers (R09.1/R09.2), relabelling (R04.x), ASSD chain and distance reconstruction (R07.x), zero-instance helper and result constructor (R08.4/R08.5), reducers and counting (R02.4/R02.5). Also delegated: R03.7 (matcher -> candidate call wiring), R10.3 (crop mask), R05.6 (dtype of the semantic arrays before labelling). Further delegated after the third seed round: R05.4/R05.5 (dtype selector, stateless approximator), R10.1/R10.2/R10.4 (crop once, bounding box, pair constructor), R09.6 (label enumeration), R15.8 (no in-place write into received arrays); R01.2 is run for every concrete matcher/approximator class with opaque configuration.",
    "trusted_base": ["cc3d / scipy / skimage kernels", "Python semantics of the modelled AST subset", "the trusted bases of the delegated rules (C02, C03, C05, C06)"],
    "assumptions": [],
    "not_decided": ["numerical equality with a reference implementation on any input (needs execution)", "connected-component labelling, distance transforms, skeletons (C extensions)"],
}


def _check_pipeline_run(ctx: Ctx, prog, f, base, out, it, pair, cls, want, result_all):
    if out.kind != "return":
        ctx.violated("R01.2", f, out.node, base, f"pipeline does not return a result: {out.kind} {out.exc}")
        return
    stages = it.root.stages
    names = [s[0] for s in stages]
    w = want if result_all else [x for x in want if x != "calculate_all"]
    ctx.decide("R01.2", f, f.node, base + ":stages", f"stages run in the order {w}", names == w, {"got": names})
    by = {s[0]: s for s in stages}
    # crop from both arrays, applied to the copies handed to the stages
    if "crop" in by:
        cargs = list(by["crop"][1]) + list(by["crop"][2].values())
        sides = sorted(a.side for a in cargs if isinstance(a, AArr))
        ctx.decide("R01.2", f, by["crop"][3], base + ":crop", "the whole-pair crop is computed from both the prediction and the reference", sides == ["PRED", "REF"], {"from": sides})
    first = next((s for s in stages if s[0] in ("approximate", "match", "evaluate")), None)
    if first:
        p0 = first[1][0] if first[1] else None
        ok = isinstance(p0, Obj) and p0.cls.name == cls
        det = {}
        if ok:
            pa, ra = p0.attrs.get("_prediction_arr"), p0.attrs.get("_reference_arr")
            ok = isinstance(pa, AArr) and isinstance(ra, AArr) and pa.side == "PRED" and ra.side == "REF" and getattr(pa, "cropped", False) and getattr(ra, "cropped", False)
            det = {"prediction": repr(pa), "reference": repr(ra)}
        ctx.decide("R01.2", f, first[3], base + ":first-stage-input", "the first stage receives the cropped input pair, uncrossed", ok, det)
    # chain: each stage receives the output of its predecessor
    chain = [s for s in stages if s[0] in ("approximate", "match", "evaluate")]
    for prev, cur in zip(chain, chain[1:]):
        p = cur[1][0] if cur[1] else None
        tag = {"approximate": "approximated", "match": "matched"}[prev[0]]
        ok = isinstance(p, Obj) and getattr(p.attrs.get("_prediction_arr"), "stage", None) == tag
        ctx.decide("R01.2", f, cur[3], base + f":{cur[0]}-input", f"{cur[0]} receives the pair produced by {prev[0]}", ok, None)
    if "approximate" in by:
        ctx.decide("R01.2", f, by["approximate"][3], base + ":approximator", "the configured instance approximator is used", any(isinstance(a, Obj) and a.attrs.get("_tag") == "APPROX" for a in by["approximate"][1]), None, nontrivial=False)
    if "match" in by:
        ctx.decide("R01.2", f, by["match"][3], base + ":matcher", "the configured instance matcher is used", any(isinstance(a, Obj) and a.attrs.get("_tag") == "MATCHER" for a in by["match"][1]), None, nontrivial=False)
    if "evaluate" in by:
        kw = dict(by["evaluate"][2])
        ev = prog.func("instance_evaluator:evaluate_matched_instance")
        for i, a in enumerate(by["evaluate"][1]):
            kw[ev.call_params[i].name] = a
        ctx.decide("R01.2", f, by["evaluate"][3], base + ":evaluate:metrics", "instance evaluation receives the instance metrics", kw.get("eval_metrics") is it.root.P_instance_metrics, {"got": repr(kw.get("eval_metrics"))[:80]})
        ctx.decide("R01.2", f, by["evaluate"][3], base + ":evaluate:decision", "instance evaluation receives the decision metric and threshold", kw.get("decision_metric") == Sym("P_decision_metric") and kw.get("decision_threshold") == Sym("P_decision_threshold"), {"metric": repr(kw.get("decision_metric")), "threshold": repr(kw.get("decision_threshold"))})
    if "result" in by:
        kw = dict(by["result"][2])
        rinit = prog.cls("panoptica_result:PanopticaResult").lookup("__init__")
        for i, a in enumerate(by["result"][1]):
            kw[rinit.call_params[i].name] = a
        want_kw = {"reference_arr": Sym("E_REF"), "prediction_arr": Sym("E_PRED"), "num_pred_instances": Sym("E_NPRED"), "num_ref_instances": Sym("E_NREF"), "tp": Sym("E_TP"), "list_metrics": Sym("E_LISTS"), "edge_case_handler": Sym("P_edge_case_handler")}
        for k, v in want_kw.items():
            ctx.decide("R01.2", f, by["result"][3], base + ":result:" + k, f"result field {k} is the evaluated pair's / configuration's {k}", kw.get(k) == v, {"got": repr(kw.get(k))}, nontrivial=k in ("reference_arr", "prediction_arr", "num_pred_instances", "num_ref_instances"))
        ctx.decide("R01.2", f, by["result"][3], base + ":result:global_metrics", "the result receives the global metric selection", kw.get("global_metrics") is it.root.P_global_metrics, None)
    rv = out.value
    ctx.decide("R01.2", f, out.node, base + ":return", "the pipeline returns (result, intermediate steps)", isinstance(rv, tuple) and len(rv) == 2 and isinstance(rv[0], Obj) and rv[0].attrs.get("_tag") == "RESULT", {"got": repr(rv)[:120]}, nontrivial=False)
    bad = [(n, b) for (n, b, idx, v, fresh) in it.root.stores if not fresh]
    ctx.decide("R01.2", f, f.node, base + ":no-mutation", "no in-place store reaches the input arrays", not bad, None, nontrivial=False)


def check_pipeline(ctx: Ctx):
    prog = ctx.prog
    want_stages = {
        "SemanticPair": ["crop", "approximate", "match", "evaluate", "result", "calculate_all"],
        "UnmatchedInstancePair": ["crop", "match", "evaluate", "result", "calculate_all"],
        "MatchedInstancePair": ["crop", "evaluate", "result", "calculate_all"],
    }
    mbase = prog.cls("instance_matcher:InstanceMatchingAlgorithm")
    abase = prog.cls("instance_approximator:InstanceApproximator")
    stage_classes = [(None, None)] + [(m, None) for m in sorted(mbase.all_subclasses(), key=lambda c: c.qual)] + [(None, a) for a in sorted(abase.all_subclasses(), key=lambda c: c.qual)]
    for cls, want in want_stages.items():
        for mc, ac in stage_classes:
            for result_all in ((True, False) if mc is None and ac is None else (True,)):
                f, all_runs = run_pipeline(prog, cls, result_all=result_all, matcher_cls=mc, approximator_cls=ac)
                base0 = f"{f.qual}:input={cls},result_all={result_all}" + (f",matcher={mc.name}" if mc else "") + (f",approximator={ac.name}" if ac else "")
                foreign = [norm(d[0]) for o, _ in all_runs for d in o.decisions if isinstance(d[0], ast.AST) and not (isinstance(d[1], Unknown) and d[1].tag.startswith("stage-config:")) and not ({n.id for n in ast.walk(d[0]) if isinstance(n, ast.Name)} & {"instance_matcher", "instance_approximator"})]
                if foreign:
                    ctx.undecided("R01.2", f, f.node, base0, f"pipeline splits on {foreign[:3]}")
                    continue
                for out, (it, pair) in all_runs:
                    # the pipeline is the same for every concrete matcher / approximator whatever
                    # their configuration: a path that depends on it is checked like any other
                    dtxt = "; ".join(f"{norm(nd) if isinstance(nd, ast.AST) else '?'}={d}" for nd, v, d in out.decisions)
                    _check_pipeline_run(ctx, prog, f, base0 + (f"[{dtxt}]" if dtxt else ""), out, it, pair, cls, want, result_all)
    # missing stage objects are rejected, not skipped
    for cls, kw in (("SemanticPair", {"approximator": False}), ("UnmatchedInstancePair", {"matcher": False})):
        f, runs = run_pipeline(prog, cls, **kw)
        for out, _ in runs:
            ctx.decide("R01.2", f, out.node, f"{f.qual}:input={cls}:missing-stage-object", "a required approximator/matcher that is missing is rejected", out.kind == "raise", {"outcome": out.kind}, nontrivial=False)


def _run_rule(ctx, name, fn):
    """a sub-rule that cannot be evaluated is recorded as undecided; the remaining rules still run"""
    try:
        return fn(ctx)
    except (Undecided, AnchorMissing) as e:
        ctx.undecided(name, None, None, f"{name}:analysis", f"{type(e).__name__}: {e}")
        return 0


def check(ctx: Ctx):
    # instance counts and label tuples come from the label enumeration helpers (R09.6)
    from . import c03 as _c03e
    from .labelenum import check_label_enumeration as _cle

    _c03e._guarded(ctx, "R09.6", _cle)
    _run_rule(ctx, "check_pipeline_typestate", c08.check_pipeline_typestate)  # R01.1 (same typestate engine; obligations recorded under R08.4 ids)
    _run_rule(ctx, "check_pipeline", check_pipeline)
    # R01.3 delegation
    _run_rule(ctx, "check_no_pruning", c03.check_no_pruning)
    c03._guarded(ctx, "R03.7", c03.check_candidate_call)
    c03._guarded(ctx, "R03.1", c03.check_codec)
    c03._guarded(ctx, "R03.2", c03.check_candidates)
    c03._guarded(ctx, "R03.3", c03.check_beats)
    c03._guarded(ctx, "R03.4", c03.check_naive)
    _run_rule(ctx, "check_evaluate", c02.check_evaluate)
    _run_rule(ctx, "check_calculators", c02.check_calculators)
    _run_rule(ctx, "check_dispatch", c05.check_dispatch)
    _run_rule(ctx, "check_library_calls", c05.check_library_calls)
    _run_rule(ctx, "check_kernels", c06.check_kernels)
    _run_rule(ctx, "check_selection", c06.check_selection)
    _run_rule(ctx, "check_registry", c06.check_registry)
    from . import c04, c07, c09

    c03._guarded(ctx, "R09.1", c09.check_codec_width)
    c03._guarded(ctx, "R09.1", c09.check_codec_width_relational)
    c03._guarded(ctx, "R09.2", c09.check_crop_width)
    from . import c10

    c03._guarded(ctx, "R10.3", c10.check_crop_mask)
    c03._guarded(ctx, "R05.6", c05.check_semantic_dtype)
    c03._guarded(ctx, "R05.4", c05.fitting_uint_table)
    c03._guarded(ctx, "R05.5", c05.check_stateless)
    c03._guarded(ctx, "R10.2", c10.check_bbox)
    c03._guarded(ctx, "R10.5", c10.check_padded_starts)
    c03._guarded(ctx, "R10.1", c10.check_crop_data)
    c03._guarded(ctx, "R10.4", c10.check_pair_constructor)
    _run_rule(ctx, "check_chained_replacement", c04.check_chained_replacement)
    c03._guarded(ctx, "R04.2", c04.check_relabel)
    _run_rule(ctx, "check_no_wraparound", c07.check_no_wraparound)
    c03._guarded(ctx, "R07.1", c07.check_chain)
    c03._guarded(ctx, "R07.4", c07.check_edt)
    c03._guarded(ctx, "R08.4", c08.check_zero_helper)
    c03._guarded(ctx, "R08.5", c08.check_result_constructor)
    c03._guarded(ctx, "R02.4", c02.check_reducers)
    c03._guarded(ctx, "R02.5", c02.check_counting)
    # results of later evaluations (another group, a flipped copy, the exchanged pair, a second
    # threshold) are only meaningful if no step writes into the caller's arrays (R15.8)
    from . import c15 as _c15
    from . import c03 as _c03

    _c03._guarded(ctx, "R15.8", _c15.check_param_aliasing)


_E = "panoptica/panoptica_evaluator.py"

VARIANTS = [
    Variant("C01-m-metrics-crossed", "R01.2", "mutant", [(_E, "        processing_pair = evaluate_matched_instance(\n            processing_pair,\n            eval_metrics=instance_metrics,", "        processing_pair = evaluate_matched_instance(\n            processing_pair,\n            eval_metrics=global_metrics,")], control=True),
    Variant("C01-m-threshold-dropped", "R01.2", "mutant", [(_E, "            decision_metric=decision_metric,\n            decision_threshold=decision_threshold,\n        )\n        if log_times:\n            print(f\"-- Instance Evaluation", "            decision_metric=decision_metric,\n        )\n        if log_times:\n            print(f\"-- Instance Evaluation")]),
    Variant("C01-m-result-crossed", "R01.2", "mutant", [(_E, "            reference_arr=processing_pair.reference_arr,\n            prediction_arr=processing_pair.prediction_arr,\n            num_pred_instances=processing_pair.num_pred_instances,", "            reference_arr=processing_pair.prediction_arr,\n            prediction_arr=processing_pair.reference_arr,\n            num_pred_instances=processing_pair.num_pred_instances,")]),
    Variant("C01-m-counts-crossed", "R01.2", "mutant", [(_E, "            num_pred_instances=processing_pair.num_pred_instances,\n            num_ref_instances=processing_pair.num_ref_instances,\n            tp=processing_pair.tp,", "            num_pred_instances=processing_pair.num_ref_instances,\n            num_ref_instances=processing_pair.num_pred_instances,\n            tp=processing_pair.tp,")]),
    Variant("C01-m-phase-guard", "R08.4", "mutant", [(_E, "    if isinstance(processing_pair, UnmatchedInstancePair):\n        if verbose:\n            print(\"-- Got UnmatchedInstancePair, will match instances\")", "    if isinstance(processing_pair, MatchedInstancePair):\n        if verbose:\n            print(\"-- Got UnmatchedInstancePair, will match instances\")")], control=True),
    Variant("C01-m-no-crop-copy", "R01.2", "mutant", [(_E, "    input_pair.crop_data()\n", "")]),
    Variant("C01-m-calc-all-always", "R01.2", "mutant", [(_E, "        if result_all:\n            processing_pair.calculate_all(print_errors=verbose_calc)", "        processing_pair.calculate_all(print_errors=verbose_calc)")]),
    Variant("C01-m-delegated-sort", "R03.2", "mutant", c03.VARIANTS[6].edits, note="delegated rule"),
    Variant("C01-t-positional", "R01.2", "twin", [(_E, "        processing_pair = evaluate_matched_instance(\n            processing_pair,\n            eval_metrics=instance_metrics,\n            decision_metric=decision_metric,\n            decision_threshold=decision_threshold,\n        )", "        processing_pair = evaluate_matched_instance(\n            processing_pair,\n            instance_metrics,\n            decision_metric,\n            decision_threshold,\n        )")]),
    Variant("C01-t-renamed-var", "R01.2", "twin", [(_E, "        start = perf_counter()\n        processing_pair = instance_matcher.match_instances(\n            processing_pair,\n        )", "        t0 = perf_counter()\n        start = t0\n        processing_pair = instance_matcher.match_instances(processing_pair)")]),
]
