"""C12 - class groups are evaluated independently and completely."""

from __future__ import annotations

import ast

from ..absval import Obj, Sym, Unknown
from ..model import AnchorMissing, Undecided, norm
from ..report import Ctx
from ..variants import Variant
from .arrdom import AArr, LabelKeys
from .evalrun import ARRAY_LABELS, CFG, build_evaluator, build_groups, construct, run_evaluate

INFO = {
    "explanation": "Rounds 4/5: grouped runs also with groups present on one side only, a covering group, and both group orders; an all-zero array / an unfiltered copy is accepted as the restriction exactly when the group is absent / covers every present label. Panoptica_Evaluator.evaluate is run abstractly end to end (objects built by running the real constructors; arrays are abstract label arrays; the pipeline call is the observation point) for each input type with three groups - plain [1,2], merge [3,4], single-instance [5] - and without groups: (R12.1) a non-zero label of the prediction or of the reference that belongs to no group raises before anything is evaluated; (R12.2) every group's pipeline call receives copies of the prediction/reference restricted to exactly that group's labels (uncrossed, labels not narrowed), and its result is stored under that group's name, every group exactly once; (R12.3) plain groups keep label values, merge groups are binarised; (R12.4) single-instance groups of non-matched input are re-wrapped as matched pairs with decision threshold 0, other groups keep the input's pair class and the configured threshold; (R12.5) the evaluator's configuration reaches the pipeline parameter of the same name. (R12.6) SegmentationClassGroups.__init__ is run on the three accepted specification forms (dict of tuples, dict of groups, list of groups) and must yield exactly the given names, labels, kind and single-instance flag. Further delegated: R15.8. Round 6: R09.6 (label enumeration incl. negative values) is delegated here: which labels occur in the arrays, and hence must be covered by a group, is what the enumeration helpers report. Round 8: (R12.6) the labels that count as defined are exactly the labels of the groups the object holds - also for group names that differ in case only.",
    "trusted_base": ["numpy: np.isin / masked store / copy semantics (DESIGN appendix A.2/A.3)", "Python semantics of the modelled AST subset"],
    "assumptions": ["group label sets are disjoint (the constructor only warns otherwise)"],
    "not_decided": ["numerical equality with an ungrouped evaluation of the restricted arrays: follows from R12.2-R12.4 because the same pipeline function is called"],
}

GROUP_LABELS = {"plain": [1, 2], "merged": [3, 4], "single": [5]}
KIND = {"plain": "labels", "merged": "bin", "single": "labels"}
ONE_SIDED = [{"PRED": [1, 2, 5], "REF": [3, 4, 5]}, {"PRED": [3, 5], "REF": [1, 5]}, {"PRED": [1, 2], "REF": [1]}]  # the last: a group that covers everything present


def _sel_labels(a: AArr):
    if a.selection is None:
        return None
    d = a.selection[1]
    if isinstance(d, LabelKeys):
        return d
    return list(d) if isinstance(d, (list, tuple)) else d


def check_grouped(ctx: Ctx):
    prog = ctx.prog
    n_calls = 0
    for it_name, pair_cls in (("SEMANTIC", "SemanticPair"), ("UNMATCHED_INSTANCE", "UnmatchedInstancePair"), ("MATCHED_INSTANCE", "MatchedInstancePair")):
        g, groups = build_groups(prog)
        ev = build_evaluator(prog, it_name, g)
        f, runs = run_evaluate(prog, ev)
        base = f"{f.qual}:input={it_name}"
        multi = len(runs) > 1
        for out, (it, pred, ref) in runs:
            _check_one_path(ctx, prog, f, base, out, it, pred, ref, ev, pair_cls, multi)
            n_calls += len(it.root.pipeline_calls) if out.kind == "return" else 0
        # groups that occur on one side only (a shortcut taken for an absent group must look at
        # the labels of the array it restricts)
        # ... evaluated in the opposite group order (what one group's evaluation leaves behind -
        # a threshold override, a shared argument dict - must not reach the groups after it)
        g2, _ = build_groups(prog, order=("single", "merged", "plain"))
        ev2 = build_evaluator(prog, it_name, g2)
        for labels in ONE_SIDED:
            f, runs = run_evaluate(prog, ev2, labels=labels)
            base2 = f"{f.qual}:input={it_name},labels(pred={labels['PRED']},ref={labels['REF']})"
            for out, (it, pred, ref) in runs:
                _check_one_path(ctx, prog, f, base2, out, it, pred, ref, ev2, pair_cls, len(runs) > 1, labels)
        # R12.1 undefined labels
        _check_undefined(ctx, prog, f, base, ev)
    if n_calls < 9:
        ctx.undecided("R12.floor", None, None, "floor:R12", f"{n_calls} group evaluations inspected, confirmed floor is 9")


def _check_undefined(ctx, prog, f, base, ev):
    for side in ("PRED", "REF"):
        labels = {k: list(v) for k, v in ARRAY_LABELS.items()}
        labels[side] = labels[side] + [9]
        f2, runs2 = run_evaluate(prog, ev, labels=labels)
        for o2, (it2, _, _) in runs2:
            ctx.decide("R12.1", f, o2.node, base + f":undefined-label-in-{side}", "input with a non-zero label that belongs to no group is rejected before any group is evaluated", o2.kind == "raise" and not it2.root.pipeline_calls, {"outcome": o2.kind, "exc": o2.exc, "pipeline_calls": len(it2.root.pipeline_calls)})
            for node, keys in it2.root.__dict__.get("narrowed_tests", []):
                ctx.violated("R12.1", f, node, base + f":undefined-label-in-{side}:narrowed", "the defined-label test compares in a narrowed dtype: group labels outside the array's dtype wrap around and an undefined label that aliases one of them is accepted", {"labels": repr(keys)})


def _check_one_path(ctx, prog, f, base, out, it, pred, ref, ev, pair_cls, multi, labels=None):
        labels = labels or ARRAY_LABELS
        n_calls = 0
        if multi:
            dtxt = "; ".join(f"{norm(nd) if isinstance(nd, ast.AST) else '?'}={d}" for nd, v, d in out.decisions)
            bad = [(n, b) for (n, b, idx, v, fresh) in it.root.stores if not fresh]
            if bad:
                ctx.violated("R12.2", f, bad[0][0], base + ":no-mutation", "a group's restriction writes into the caller's array on some path: later groups (and later evaluations) see the modified data", {"stores": [norm(n)[:80] for n, _ in bad][:3], "path": dtxt[:200]})
                return
            base = base + f"[{dtxt[:120]}]"
        if out.decisions and not multi:
            ctx.undecided("R12.2", f, f.node, base, f"grouped evaluation splits on: {[norm(d[0]) for d in out.decisions if isinstance(d[0], ast.AST)][:4]}")
            return
        if out.kind != "return" or not isinstance(out.value, dict):
            ctx.violated("R12.2", f, out.node, base, f"grouped evaluation of fully defined input does not return results: {out.kind} {out.exc}")
            return
        calls = it.root.pipeline_calls
        ctx.decide("R12.2", f, f.node, base + ":complete", "every group is evaluated exactly once", len(calls) == 3 and sorted(map(str, out.value)) == sorted(GROUP_LABELS), {"calls": len(calls), "groups": sorted(map(str, out.value))})
        for k, (kw, node) in enumerate(calls, start=1):
            pair = kw.get("input_pair")
            if not isinstance(pair, Obj):
                ctx.undecided("R12.2", f, node, base + f":call{k}", "pipeline input is not a pair object")
                continue
            pa, ra = pair.attrs.get("_prediction_arr"), pair.attrs.get("_reference_arr")
            if not (isinstance(pa, AArr) and isinstance(ra, AArr)):
                ctx.undecided("R12.2", f, node, base + f":call{k}", f"pair arrays not abstract arrays: {pa!r} {ra!r}")
                continue
            # which group is this?  the one under whose name the call's result is stored
            gname = next((name for name, v in out.value.items() if isinstance(v, tuple) and v and isinstance(v[0], Obj) and v[0].attrs.get("_tag") == f"RESULT_{k}"), None)
            if gname not in GROUP_LABELS:
                ctx.violated("R12.2", f, node, base + f":call{k}", "result of a group evaluation is not stored under a group name", {"stored": [str(x) for x in out.value]})
                continue
            construct_ = base + f":group={gname}"
            want = GROUP_LABELS[gname]
            for nm, a, side in (("prediction", pa, "PRED"), ("reference", ra, "REF")):
                got = _sel_labels(a)
                c2 = construct_ + ":" + nm
                ctx.decide("R12.2", f, node, c2 + ":side", f"{nm} of the group comes from the {nm} input", a.side == side, {"got": a.describe()})
                if isinstance(got, LabelKeys) and got.casts:
                    ctx.violated("R12.2", f, node, c2 + ":restricted", f"group labels are narrowed to a dtype ({'/'.join(got.casts)}) before the restriction: labels outside that dtype alias labels of other groups", {"got": a.describe()})
                elif a.selection is None and a.content == "zeros" and a.is_fresh():
                    # an all-zero array of the input's shape: the restriction exactly if none of the
                    # group's labels occurs on that side
                    absent = not (set(want) & set(labels[side]))
                    ctx.decide("R12.2", f, node, c2 + ":restricted", f"an empty array stands for the restriction to {want} only if none of these labels occurs in the {nm}", absent, {"got": a.describe(), f"labels_of_{nm}": labels[side]})
                    ctx.decide("R12.2", f, node, c2 + ":copy", "restriction works on a copy of the caller's array", True, None, nontrivial=False)
                    continue
                elif a.selection is None and a.content in ("labels", "bin") and not a.casts and set(labels[side]) <= set(want):
                    ctx.ok("R12.2", f, node, c2 + ":restricted", f"every label of the {nm} ({labels[side]}) belongs to the group: the unfiltered copy is the restriction")
                else:
                    gl = got.value if isinstance(got, LabelKeys) else got
                    ctx.decide("R12.2", f, node, c2 + ":restricted", f"array is restricted to exactly the group's labels {want}", (sorted(gl) == sorted(want)) if isinstance(gl, list) else (False if gl is None else None), {"got": a.describe()})
                ctx.decide("R12.3", f, node, c2 + ":kind", "merge groups are binarised, other groups keep their label values", a.content == KIND[gname] and not a.casts, {"got": a.describe(), "want": KIND[gname]})
                ctx.decide("R12.2", f, node, c2 + ":copy", "restriction works on a copy of the caller's array", a.is_fresh(), {"got": a.describe()})
            single = gname == "single"
            want_cls = "MatchedInstancePair" if single else pair_cls
            ctx.decide("R12.4", f, node, construct_ + ":pair-class", f"pipeline input is a {want_cls}", pair.cls.name == want_cls, {"got": pair.cls.name})
            cfgv = ev.attrs["_tag_cfg"]
            want_thr = 0.0 if (single and pair_cls != "MatchedInstancePair") else cfgv["decision_threshold"]
            ctx.decide("R12.4", f, node, construct_ + ":threshold", "decision threshold is 0 exactly for re-wrapped single-instance groups", kw.get("decision_threshold") == want_thr, {"got": repr(kw.get("decision_threshold")), "want": repr(want_thr)})
            for cfg in CFG:
                if cfg == "decision_threshold":
                    continue
                ctx.decide("R12.5", f, node, construct_ + ":cfg:" + cfg, f"pipeline parameter {cfg} receives the evaluator's {cfg}", kw.get(cfg) is cfgv[cfg] or (not isinstance(cfgv[cfg], list) and kw.get(cfg) == cfgv[cfg]), {"got": repr(kw.get(cfg))}, nontrivial=False)
        bad = [(n, b) for (n, b, idx, v, fresh) in it.root.stores if not fresh]
        ctx.decide("R12.2", f, f.node, base + ":no-mutation", "no in-place store reaches the caller's arrays", not bad, {"stores": [norm(n) for n, _ in bad][:4]})


def check_ungrouped(ctx: Ctx):
    prog = ctx.prog
    ev = build_evaluator(prog, "MATCHED_INSTANCE", None)
    f, runs = run_evaluate(prog, ev)
    base0 = f"{f.qual}:no-groups"
    for out, (it, pred, ref) in runs:
        facts = all(isinstance(d[1], Unknown) and str(d[1].tag).startswith("dtype-fact") for d in out.decisions)
        base = base0 + ("[" + "; ".join(f"{d[1].tag}={d[2]}" for d in out.decisions)[:120] + "]" if out.decisions and facts else "")
        if (out.decisions and not facts) or out.kind != "return":
            ctx.undecided("R12.2", f, f.node, base, "ungrouped evaluation not evaluable")
            continue
        _judge_ungrouped(ctx, f, base, it)


def _judge_ungrouped(ctx, f, base, it):
    calls = it.root.pipeline_calls
    ok = len(calls) == 1
    det = {}
    if ok:
        pair = calls[0][0].get("input_pair")
        pa, ra = pair.attrs.get("_prediction_arr"), pair.attrs.get("_reference_arr")
        ok = isinstance(pa, AArr) and isinstance(ra, AArr) and pa.side == "PRED" and ra.side == "REF" and pa.selection is None and ra.selection is None and pa.content == "labels" and ra.content == "labels"
        det = {"prediction": repr(pa), "reference": repr(ra)}
    ctx.decide("R12.2", f, f.node, base, "without groups the whole arrays are evaluated once, unrestricted and uncrossed", ok, det)
    bad = [(n, b) for (n, b, idx, v, fresh) in it.root.stores if not fresh]
    ctx.decide("R12.2", f, f.node, base + ":no-mutation", "no in-place store reaches the caller's arrays", not bad, None, nontrivial=False)


def check_group_specifications(ctx: Ctx):
    """R12.6: every accepted way of writing a partition - a dict of LabelGroup objects, a dict
    of (labels, single_instance) tuples, a list of LabelGroup objects - yields groups with exactly
    the given labels, kind and single-instance flag under the given (lower-cased) names.
    SegmentationClassGroups.__init__ is run on concrete specifications."""
    prog = ctx.prog
    lg = prog.cls("utils.label_group:LabelGroup")
    lmg = prog.cls("utils.label_group:LabelMergeGroup")
    scg = prog.cls("utils.segmentation_class:SegmentationClassGroups")
    init = scg.lookup("__init__")

    def describe(o):
        out = {}
        gd = None
        for k, v in o.attrs.items():
            if isinstance(v, dict) and v and all(isinstance(x, Obj) for x in v.values()):
                gd = v
        if gd is None:
            return None
        for name, g in gd.items():
            labels = si = None
            for k, v in g.attrs.items():
                if isinstance(v, list) and all(isinstance(x, int) for x in v):
                    labels = list(v)
                elif isinstance(v, bool):
                    si = v
            out[name] = (g.cls.name, labels, si)
        return out

    specs = {
        "dict-of-tuples": ({"Liver": ([1, 2], False), "spleen": ([3], True), "rib": (4, False)}, {"liver": ("LabelGroup", [1, 2], False), "spleen": ("LabelGroup", [3], True), "rib": ("LabelGroup", [4], False)}),
        "dict-of-groups": (lambda: {"a": construct(prog, lg, {"value_labels": [1, 2], "single_instance": False}), "B": construct(prog, lmg, {"value_labels": [3, 4], "single_instance": False}), "c": construct(prog, lg, {"value_labels": 5, "single_instance": True})}, {"a": ("LabelGroup", [1, 2], False), "b": ("LabelMergeGroup", [3, 4], False), "c": ("LabelGroup", [5], True)}),
        "list-of-groups": (lambda: [construct(prog, lg, {"value_labels": [1, 2], "single_instance": False}), construct(prog, lg, {"value_labels": 5, "single_instance": True})], {"group_0": ("LabelGroup", [1, 2], False), "group_1": ("LabelGroup", [5], True)}),
    }
    for name, (spec, want) in specs.items():
        construct_name = f"{scg.qual}.__init__:{name}"
        try:
            o = construct(prog, scg, {"groups": spec() if callable(spec) else spec})
        except Undecided as e:
            if ": raise " in str(e) and "[]" in str(e):
                # concrete arguments, no open decision: the constructor really raises
                ctx.violated("R12.6", init, init.node if init else None, construct_name, "a valid group specification is rejected by the constructor", {"outcome": str(e)[-160:]})
            else:
                ctx.undecided("R12.6", init, init.node if init else None, construct_name, f"group construction not evaluable: {e}")
            continue
        got = describe(o) if isinstance(o, Obj) else None
        ctx.decide("R12.6", init, init.node if init else None, construct_name, "the specification yields groups with exactly the given names, labels, kind and single-instance flag", (got == want) if got is not None else None, {"got": repr(got)[:300], "want": repr(want)[:300]})
        if isinstance(o, Obj) and got is not None:
            _check_defined_labels(ctx, prog, scg, o, got, construct_name)
    # names that differ only in case denote one group (names are lower-cased): the later entry replaces the earlier
    # one, and with it go the earlier one's labels - they belong to no group any more
    try:
        o = construct(prog, scg, {"groups": {"Lesion": ([1, 2], False), "lesion": ([3], False), "rim": ([4], False)}})
        got = describe(o) if isinstance(o, Obj) else None
        if got is not None:
            _check_defined_labels(ctx, prog, scg, o, got, f"{scg.qual}.__init__:names-differing-in-case")
    except Undecided:
        pass


def _check_defined_labels(ctx, prog, scg, o, got, construct_name):
    """the labels the collection declares 'defined' (its own check of input arrays) are exactly the labels of the
    groups it holds: asked label by label through has_defined_labels_for"""
    f = scg.lookup("has_defined_labels_for")
    if f is None:
        return
    from ..absval import Interp

    held = sorted({l for (_k, labels, _si) in got.values() for l in (labels or [])})
    wrong = {}
    for lbl in sorted(set(held) | {1, 2, 3, 4, 5, 9}):
        params = [p.name for p in f.call_params]
        args = {params[0]: [lbl]}
        if len(params) > 1:
            args[params[1]] = False
        out = Interp(prog, f, args, self_obj=o).run()
        if out.kind != "return" or out.decisions or not isinstance(out.value, bool):
            ctx.undecided("R12.6", f, f.node, construct_name + ":defined-labels", f"label check not evaluable for label {lbl}: {out.kind} {out.exc or ''}")
            return
        if out.value != (lbl in held):
            wrong[lbl] = out.value
    ctx.decide("R12.6", f, f.node, construct_name + ":defined-labels", "a label counts as defined exactly if one of the groups held lists it (input with any other non-zero label is rejected)", not wrong, {"labels_of_held_groups": held, "wrongly_answered": {str(k): v for k, v in wrong.items()}} if wrong else None)


def _run_rule(ctx, name, fn):
    """a sub-rule that cannot be evaluated is recorded as undecided; the remaining rules still run"""
    try:
        return fn(ctx)
    except (Undecided, AnchorMissing) as e:
        ctx.undecided(name, None, None, f"{name}:analysis", f"{type(e).__name__}: {e}")
        return 0


def check(ctx: Ctx):
    _run_rule(ctx, "check_grouped", check_grouped)
    _run_rule(ctx, "check_ungrouped", check_ungrouped)
    try:
        check_group_specifications(ctx)
    except (Undecided, AnchorMissing) as e:
        ctx.undecided("R12.6", None, None, "R12.6:check_group_specifications", f"{type(e).__name__}: {e}")
    # results of later evaluations (another group, a flipped copy, the exchanged pair, a second
    # threshold) are only meaningful if no step writes into the caller's arrays (R15.8)
    from . import c15 as _c15
    from . import c03 as _c03

    _c03._guarded(ctx, "R15.8", _c15.check_param_aliasing)
    # which labels "occur in the arrays" (and must be covered by a group) is what the label enumeration
    # helpers say: they must report every non-zero value present, negative ones included (R09.6)
    from .labelenum import check_label_enumeration as _cle

    _c03._guarded(ctx, "R09.6", _cle)


_E = "panoptica/panoptica_evaluator.py"
_L = "panoptica/utils/label_group.py"
_S = "panoptica/utils/segmentation_class.py"

VARIANTS = [
    Variant("C12-m-tuple-single-from-labels", "R12.6", "mutant", [(_S, "self.__group_dictionary[name_lower] = LabelGroup(g[0], g[1])", "self.__group_dictionary[name_lower] = LabelGroup(g[0], g[0])")]),
    Variant("C12-m-tuple-names-not-lowered", "R12.6", "mutant", [(_S, "                name_lower = str(i).lower()", "                name_lower = str(i)")]),
    Variant("C12-m-no-pred-check", "R12.1", "mutant", [(_E, "        self.__segmentation_class_groups.has_defined_labels_for(\n            processing_pair.prediction_arr, raise_error=True\n        )\n", "")], control=True),
    Variant("C12-m-no-raise", "R12.1", "mutant", [(_E, "            processing_pair.reference_arr, raise_error=True\n", "            processing_pair.reference_arr, raise_error=False\n")]),
    Variant("C12-m-check-pred-twice", "R12.1", "mutant", [(_E, "            processing_pair.reference_arr, raise_error=True\n", "            processing_pair.prediction_arr, raise_error=True\n")]),
    Variant("C12-m-no-invert", "R12.2", "mutant", [(_L, "        array[np.isin(array, self.value_labels, invert=True)] = 0", "        array[np.isin(array, self.value_labels)] = 0")], control=True),
    Variant("C12-m-crossed", "R12.2", "mutant", [(_E, "        reference_arr_grouped = label_group(processing_pair.reference_arr)", "        reference_arr_grouped = label_group(processing_pair.prediction_arr)")]),
    Variant("C12-m-ref-unrestricted", "R12.2", "mutant", [(_E, "        reference_arr_grouped = label_group(processing_pair.reference_arr)", "        reference_arr_grouped = processing_pair.reference_arr")]),
    Variant("C12-m-merge-not-binary", "R12.3", "mutant", [(_L, "        return self.extract_label(array, set_to_binary=True)", "        return self.extract_label(array, set_to_binary=False)")]),
    Variant("C12-m-plain-binary", "R12.3", "mutant", [(_L, "        return self.extract_label(array, set_to_binary=False)", "        return self.extract_label(array, set_to_binary=True)")]),
    Variant("C12-m-single-flipped", "R12.4", "mutant", [(_E, "        if single_instance_mode and not isinstance(\n            processing_pair, MatchedInstancePair\n        ):", "        if single_instance_mode and isinstance(\n            processing_pair, SemanticPair\n        ):")]),
    Variant("C12-m-single-threshold", "R12.4", "mutant", [(_E, "            decision_threshold = 0.0\n", "")]),
    Variant("C12-m-nocopy", "R12.2", "mutant", [(_L, "        array = array.copy()\n        array[np.isin(array, self.value_labels, invert=True)] = 0", "        array[np.isin(array, self.value_labels, invert=True)] = 0")]),
    Variant("C12-m-cast-labels", "R12.2", "mutant", [(_L, "        array[np.isin(array, self.value_labels, invert=True)] = 0", "        array[np.isin(array, np.asarray(self.value_labels).astype(array.dtype), invert=True)] = 0")]),
    Variant("C12-m-cfg-crossed", "R12.5", "mutant", [(_E, "            instance_metrics=self.__eval_metrics,\n            global_metrics=self.__global_metrics,", "            instance_metrics=self.__global_metrics,\n            global_metrics=self.__eval_metrics,")]),
    Variant("C12-m-wrong-group-name", "R12.2", "mutant", [(_E, "            result_grouped[group_name] = self._evaluate_group(", "            result_grouped[str(label_group)] = self._evaluate_group(")]),
    Variant("C12-t-tilde", "R12.2", "twin", [(_L, "        array[np.isin(array, self.value_labels, invert=True)] = 0", "        array[~np.isin(array, self.value_labels)] = 0")]),
    Variant("C12-t-ref-first", "R12.1", "twin", [(_E, "        self.__segmentation_class_groups.has_defined_labels_for(\n            processing_pair.prediction_arr, raise_error=True\n        )\n        self.__segmentation_class_groups.has_defined_labels_for(\n            processing_pair.reference_arr, raise_error=True\n        )", "        self.__segmentation_class_groups.has_defined_labels_for(\n            processing_pair.reference_arr, raise_error=True\n        )\n        self.__segmentation_class_groups.has_defined_labels_for(\n            processing_pair.prediction_arr, raise_error=True\n        )")]),
    Variant("C12-t-where", "R12.2", "twin", [(_L, "        array = array.copy()\n        array[np.isin(array, self.value_labels, invert=True)] = 0", "        array = np.where(np.isin(array, self.value_labels), array, 0)")]),
]
