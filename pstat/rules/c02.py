"""C02 - result bookkeeping: tp/fp/fn, per-TP lists and sq/rq/pq are mutually consistent."""

from __future__ import annotations

import ast
from fractions import Fraction

from ..absval import BoundMethod, EnumSym, Interp, Obj, Sym, Unknown, enumerate_paths
from ..model import AnchorMissing, Func, Undecided, norm, walk_no_nested
from ..poly import Poly, Rat, to_rat
from ..report import Ctx
from ..variants import Variant
from .common import metric_direction
from .c03 import BEATS_REF
from .resultrun import ResultInterp, Tagged, build_edge_case_handler, metric_objs, reducer_verdict, obj_attr

INFO = {
    "explanation": "(R02.1) evaluate_matched_instance is run abstractly on four matched instances with scores {0.9, 0.5, 0.1, 0.0} for every decision metric in {none, increasing, decreasing} x threshold {0.0, 0.5}: tp equals the number of instances that pass the decision, every list holds exactly those instances' values, counts and arrays are passed on uncrossed, starmap binds (reference, prediction, label, metrics); (R02.2) the calculators fp, fn, rq, pq, pq_dsc, pq_cldsc are evaluated over exact rational functions of (tp, n_pred, n_ref, sq_m) and compared with n_pred-tp, n_ref-tp, tp/(tp+fp/2+fn/2), sq_m*rq on every branch; (R02.3) the metric registry built by running PanopticaResult.__init__ abstractly maps every name to the calculator of that name and sq_<m>/sq_<m>_std/pq_<m> to AVG/STD of metric <m>; (R02.4) Evaluation_List_Metric reducers are mean/population-std/sum/min/max of the whole list; (R02.5) instance counts default to the unique non-zero labels of the array of the same side and matched instances are the labels present on both sides. Delegated: relabelling keeps the prediction partition (R04.x: fresh labels collide with nothing, containers fit) and the approximator reports the component counts of the right side (R05.3), because tp+fp / tp+fn are taken against those counts. Delegated: the final result receives the pair's own instance counts (pipeline wiring R01.2). Further delegated: R10.2/R10.3 (no matched instance is cut off by a crop), R15.1/R15.8 (caller's arrays unchanged between groups and calls), R03.3 (threshold comparison), R09.6 (label enumeration). Round 6: R02.1 is also run with the function's reporting switches on; R15.3 (constructors do not modify container arguments) is delegated: the per-instance score dicts are read again after records are built from them. Round 7: the per-instance worker is discovered from what evaluate_matched_instance hands to the pool (or a verified map helper) and its result shape (dict by metric / sequence in metric order) is read off its abstract run; R02.1 judges every input class (path) and includes a threshold that no instance passes; regions of the pair's arrays handed to the workers must be the same region of both arrays. Round 8: R05.2 (the component count handed on is the library's own, on every named class of input - also an array without a single background voxel) is delegated next to R05.1/R05.3. Round 9: statistics a list-metric object computes on first use (__getattr__) are read through the class's own fallback; worker pools of concurrent.futures (Executor.map over several iterables, itertools.repeat) are read like multiprocessing pools.",
    "trusted_base": ["Python semantics of the modelled AST subset", "multiprocessing.Pool.starmap preserves order and binds tuple elements positionally", "np.average/np.std/np.sum/np.min/np.max as uninterpreted reducers"],
    "assumptions": [],
    "not_decided": ["floating-point rounding of the reducers", "[0,1] ranges and sq_dsc >= sq: consequences of the kernel identities of C06, argued not mechanised"],
}

SCORES = [Fraction(9, 10), Fraction(1, 2), Fraction(1, 10), Fraction(0)]


class EvalInterp(ResultInterp):
    """evaluate_matched_instance with a symbolic pool: per-instance metric dicts are supplied
    by the rule, the binding of the starmap tuples is checked."""

    def __init__(self, *a, dec_metric=None, eval_metrics=None, **kw):
        super().__init__(*a, **kw)
        self.root.problems = []
        self.root.dec_metric = dec_metric
        self.root.eval_metrics = eval_metrics or []
        self.root.starmaps = 0

    def external_call(self, name, args, kwargs, node):
        r = self.root
        if name.endswith("Pool"):
            return Sym("pool")
        if name.endswith(".starmap"):
            r.starmaps += 1
            fn, tuples = args[0], args[1]
            if not isinstance(fn, Func) or not isinstance(tuples, list):
                r.problems.append((node, f"starmap target {fn!r} / tuples not resolved"))
                return Unknown("starmap")
            names = [p.name for p in fn.call_params if p.kind == "pos"]
            out = []
            for k, t in enumerate(tuples):
                b = dict(zip(names, t)) if isinstance(t, tuple) else {}
                label = None
                views = {}
                for pn, v in b.items():
                    lp = pn.lower()
                    # the pair's own array, or a region of it (the same region of both arrays: checked below)
                    if isinstance(v, Tagged) and v.name == "view" and isinstance(v.args[0], Sym):
                        views[v.args[0].name] = v.args[1]
                        v = v.args[0]
                    if lp.startswith("ref") and "arr" in lp and v != Sym("REF_ARR"):
                        r.problems.append((node, f"starmap binds {v!r} to parameter {pn} of {fn.qual}"))
                    if lp.startswith("pred") and "arr" in lp and v != Sym("PRED_ARR"):
                        r.problems.append((node, f"starmap binds {v!r} to parameter {pn} of {fn.qual}"))
                    if "idx" in lp or "label" in lp:
                        label = v
                    if "metric" in lp and v is not r.eval_metrics and v != r.eval_metrics:
                        r.problems.append((node, f"starmap passes {v!r} as metrics to {fn.qual}"))
                if views and not (set(views) == {"REF_ARR", "PRED_ARR"} and (views["REF_ARR"] is views["PRED_ARR"] or (not isinstance(views["REF_ARR"], Unknown) and views["REF_ARR"] == views["PRED_ARR"]))):
                    r.problems.append((node, f"starmap hands {fn.qual} different regions of the two arrays: {views!r}"))
                if not (isinstance(label, Sym) and label.name.startswith("L")):
                    r.problems.append((node, f"starmap tuple {t!r} carries no matched label"))
                    continue
                i = int(label.name[1:])
                d = {}
                for m in r.eval_metrics:
                    d[m] = SCORES[i] if (r.dec_metric is None and m is r.eval_metrics[0]) or m is r.dec_metric else Sym(f"{m.attrs['_name_']}[{label.name}]")
                # in the shape the worker itself hands back (read off its abstract run)
                out.append(d if worker_result_shape(self.prog) == "dict" else tuple(d[m] for m in r.eval_metrics))
            return out
        return super().external_call(name, args, kwargs, node)

    def get_attr(self, base, attr, node):
        if isinstance(base, Sym) and base.name == "pool" and attr == "starmap":
            return Sym("pool.starmap")
        if isinstance(base, Sym) and base.name in ("REF_ARR", "PRED_ARR") and attr in ("shape", "size", "ndim"):
            return Sym(attr.upper())  # prediction and reference of a pair have the same shape
        return super().get_attr(base, attr, node)

    def subscript_hook(self, base, idx, node):
        if isinstance(base, Sym) and base.name in ("REF_ARR", "PRED_ARR"):
            return Tagged("view", [base, idx])  # a region of the array
        return super().subscript_hook(base, idx, node)

    # the matched labels are positive integers
    def call_builtin(self, name, args, kwargs, node):
        if name == "int" and len(args) == 1 and isinstance(args[0], Sym) and args[0].name.startswith("L") and args[0].name[1:].isdigit():
            return args[0]
        if name in ("max", "min") and args:
            items = list(args[0]) if len(args) == 1 and isinstance(args[0], (list, tuple)) else list(args)
            if items and all(isinstance(x, Sym) and x.name.startswith("L") and x.name[1:].isdigit() for x in items):
                return Sym("L" + name)
        return super().call_builtin(name, args, kwargs, node)

    def compare_hook(self, op, l, r, node):
        if isinstance(l, Sym) and l.name.startswith("L") and (l.name[1:].isdigit() or l.name in ("Lmax", "Lmin")) and isinstance(r, int) and not isinstance(r, bool) and r <= 1:
            k = type(op)
            if r == 1:
                return {ast.Lt: False, ast.GtE: True}.get(k, super().compare_hook(op, l, r, node))
            if r <= 0:
                return {ast.Lt: False, ast.LtE: False, ast.Eq: False, ast.NotEq: True, ast.Gt: True, ast.GtE: True}.get(k, super().compare_hook(op, l, r, node))
        return super().compare_hook(op, l, r, node)

    def call_func(self, f, args, kwargs, node, self_obj=None):
        # a parallel map helper proved order preserving (R15.5): read as starmap over (shared..., item...)
        from .c15 import verified_map_helpers

        spec = verified_map_helpers(self.prog).get(f.qual) if self_obj is None else None
        if spec is not None:
            _, fp, sp, ip, wp = spec
            b = dict(zip([p.name for p in f.call_params], args))
            b.update(kwargs)
            fn, items, shared = b.get(fp), b.get(ip), (b.get(sp) if sp else ())
            if isinstance(items, list) and isinstance(shared, (tuple, list)):
                return self.external_call("pool.starmap", [fn, [tuple(shared) + tuple(t) for t in items]], {}, node)
        return super().call_func(f, args, kwargs, node, self_obj=self_obj)


def check_evaluate(ctx: Ctx):
    prog = ctx.prog
    f = prog.func("instance_evaluator:evaluate_matched_instance")
    pcls = prog.cls("utils.processing_pair:MatchedInstancePair")
    metrics = metric_objs(prog)
    by = {m.attrs["_name_"]: m for m in metrics}
    inc = next((m for m in metrics if not metric_direction(prog, m)), None)
    dec = next((m for m in metrics if metric_direction(prog, m)), None)
    if inc is None or dec is None:
        raise AnchorMissing("Metric registry: needs a 'higher is better' and a 'lower is better' member")
    other = next(m for m in metrics if m is not inc and m is not dec)
    evalm = [inc, dec, other]
    pn = {p.name for p in f.call_params}
    pair_p = next((p.name for p in f.call_params if "pair" in p.name.lower()), None)
    need = {"eval_metrics", "decision_metric", "decision_threshold"}
    if pair_p is None or not need <= pn:
        raise AnchorMissing(f"{f.qual}: parameters {sorted(pn)}")
    labels = [Sym(f"L{i}") for i in range(4)]
    n_cfg = 0
    # reporting switches of the function (boolean parameters that default to off) are also run switched on:
    # what is counted must not depend on them
    flags = [p.name for p in f.call_params if p.name != pair_p and p.name not in need and isinstance(p.default, ast.Constant) and p.default.value is False]
    for dm, thr, thr_repr, flag in [(dm, thr, tr, fl) for fl in [None] + flags for dm in (None, inc, dec) for thr in ((None,) if dm is None else (Fraction(0), Fraction(1, 2), Fraction(1))) for tr in ((thr,) if thr is None else (thr, float(thr)))]:
        if True:
            if True:
                pair = Obj(pcls, {"matched_instances": list(labels), "_reference_arr": Sym("REF_ARR"), "_prediction_arr": Sym("PRED_ARR"), "n_prediction_instance": Sym("N_PRED"), "n_reference_instance": Sym("N_REF"), "_pred_labels": tuple(labels), "_ref_labels": tuple(labels), "missed_reference_labels": [], "missed_prediction_labels": []})
                args = {pair_p: pair, "eval_metrics": evalm, "decision_metric": dm, "decision_threshold": thr_repr}
                if flag:
                    args[flag] = True
                its = []

                def make(prefix, args=args, dm=dm):
                    it = EvalInterp(prog, f, dict(args), metrics=metrics, dec_metric=dm, eval_metrics=evalm, prefix=prefix)
                    its.append(it)
                    return it

                try:
                    outs = enumerate_paths(make)
                except Undecided:
                    if flag:
                        continue  # the reporting code itself is not modelled: the run with the switch off stands
                    raise
                n_cfg += 1
                dname = "none" if dm is None else dm.attrs["_name_"]
                construct = f"{f.qual}:decision={dname}({'decreasing' if dm is dec else 'increasing' if dm is inc else '-'}),threshold={thr_repr!r}" + (f",{flag}=True" if flag else "")
                if flag and (len(outs) != 1 or outs[0].decisions):
                    continue
                if len(outs) > 400:
                    ctx.undecided("R02.1", f, f.node, construct, f"instance evaluation splits on unmodelled conditions into {len(outs)} paths", {"decisions": [norm(d[0]) for o in outs for d in o.decisions if isinstance(d[0], ast.AST)][:4]})
                    continue
                # a split is a split of the inputs into classes (how the instances are prepared for the workers):
                # what is counted must be right in every class
                base_construct = construct
                for out, it in zip(outs, its[-len(outs):]):
                  dtxt = "; ".join(f"{norm(nd) if isinstance(nd, ast.AST) else '?'}={d}" for nd, v, d in out.decisions)
                  construct = base_construct + (f"[{dtxt[:160]}]" if dtxt else "")
                  for node, msg in it.root.problems:
                      ctx.violated("R02.1", f, node, construct + ":binding", msg)
                  if out.kind != "return" or not isinstance(out.value, Obj):
                      ctx.violated("R02.1", f, out.node, construct, f"evaluation does not produce an EvaluateInstancePair: {out.kind} {out.exc or ''}")
                      continue
                  res = out.value
                  if dm is None:
                      passing = [0, 1, 2, 3]
                  else:
                      d = metric_direction(prog, dm)
                      passing = [i for i, s in enumerate(SCORES) if (d, "<" if s < thr else "=" if s == thr else ">") in BEATS_REF]
                  got_tp = res.attrs.get("tp")
                  lm = res.attrs.get("list_metrics")
                  wit = {"scores": [str(s) for s in SCORES], "passing": passing, "tp": repr(got_tp)}
                  ctx.decide("R02.1", f, out.node, construct + ":tp", f"tp == number of instances passing the decision ({len(passing)})", got_tp == len(passing), wit)
                  ok_lists = isinstance(lm, dict) and all(m in lm for m in evalm)
                  if ok_lists:
                      for m in evalm:
                          want = [SCORES[i] if (m is dm or (dm is None and m is evalm[0])) else Sym(f"{m.attrs['_name_']}[L{i}]") for i in passing]
                          if lm[m] != want:
                              ok_lists = False
                              wit = dict(wit, metric=m.attrs["_name_"], got=repr(lm[m]), want=repr(want))
                              break
                  ctx.decide("R02.1", f, out.node, construct + ":lists", "every per-instance list holds exactly the values of the passing instances (tp entries)", ok_lists, wit)
                  ctx.decide("R02.1", f, out.node, construct + ":counts", "instance counts and arrays are passed on uncrossed", res.attrs.get("num_pred_instances") == Sym("N_PRED") and res.attrs.get("num_ref_instances") == Sym("N_REF") and res.attrs.get("reference_arr") == Sym("REF_ARR") and res.attrs.get("prediction_arr") == Sym("PRED_ARR"), {k: repr(res.attrs.get(k)) for k in ("num_pred_instances", "num_ref_instances", "reference_arr", "prediction_arr")}, nontrivial=False)
    if n_cfg < 9:
        ctx.undecided("R02.1.floor", f, f.node, "floor:R02.1", f"{n_cfg} configurations evaluated")
    # decision metric without threshold must be rejected
    check_single_instance(ctx)


class _MaskUnion:
    """voxelwise or of masks"""

    def __init__(self, parts):
        self.parts = list(parts)


class _MaskTest:
    """Truth value 'the selected mask has (no) set voxel'."""

    def __init__(self, mask, nonempty: bool):
        self.mask = mask
        self.nonempty = nonempty


def instance_worker(prog) -> Func:
    """The function evaluate_matched_instance runs once per matched instance: what it hands to the pool's
    starmap / map (or to a verified map helper) - `_evaluate_instance` unless the code says otherwise."""
    w = prog.__dict__.get("_instance_worker")
    if w is not None:
        return w
    f = prog.func("instance_evaluator:evaluate_matched_instance")
    w = None
    for c in walk_no_nested(f.node):
        if isinstance(c, ast.Call) and c.args and isinstance(c.args[0], (ast.Name, ast.Attribute)):
            is_map = isinstance(c.func, ast.Attribute) and c.func.attr in ("starmap", "map", "imap", "starmap_async", "map_async")
            tg = None
            if not is_map and isinstance(c.func, (ast.Name, ast.Attribute)):
                r = prog.resolve_dotted(f.module, c.func)
                from .c15 import parallel_map_helpers

                is_map = isinstance(r, Func) and r.qual in parallel_map_helpers(prog)
            if is_map:
                tg = prog.resolve_dotted(f.module, c.args[0])
                if isinstance(tg, Func):
                    w = tg
                    break
    if w is None:
        w = prog.func("instance_evaluator:_evaluate_instance")
    prog.__dict__["_instance_worker"] = w
    return w


def worker_result_shape(prog) -> str:
    """'dict' (metric -> value) or 'seq' (values in the order of the metrics handed in): what the per-instance
    worker returns on its metric-evaluating path, read off its abstract run (R02.5 checks that run)."""
    sh = prog.__dict__.get("_worker_shape")
    if sh is None:
        sh = "dict"
        try:
            for out, it in _run_worker(prog, instance_worker(prog)):
                if out.kind == "return" and it.root.kernel_calls and isinstance(out.value, (tuple, list)):
                    sh = "seq"
        except (Undecided, AnchorMissing):
            pass
        prog.__dict__["_worker_shape"] = sh
    return sh


def check_single_instance(ctx: Ctx):
    """The per-instance worker: same label selected on both sides, cropped with one crop, metrics on (ref, pred)."""
    prog = ctx.prog
    f = instance_worker(prog)
    runs = _run_worker(prog, f)
    metrics = metric_objs(prog)
    from .arrdom import AMask

    saw_full = False
    for out, it in runs:
        empties = [d for n, v, d in out.decisions if isinstance(v, Unknown) and v.tag.startswith("selected-empty")]
        other = [v for n, v, d in out.decisions if not (isinstance(v, Unknown) and v.tag.startswith("selected-empty"))]
        construct = f"{f.qual}"
        if other:
            ctx.undecided("R02.5", f, out.node, construct, "per-instance evaluation splits on an unmodelled condition")
            continue
        if any(empties):
            ctx.decide("R02.5", f, out.node, construct + ":empty", "an instance absent on one side yields no metric values", out.kind == "return" and out.value in ({}, (), []), {"got": repr(out.value)}, nontrivial=False)
            continue
        saw_full = True
        kc = it.root.kernel_calls
        ok = out.kind == "return" and isinstance(out.value, (dict, tuple, list)) and len(out.value) == 2 and len(kc) == 2
        if ok and isinstance(out.value, dict):
            ok = [getattr(k, "attrs", {}).get("_name_") for k in out.value.keys()] == [m.attrs["_name_"] for m in metrics[:2]]  # each value under its own metric
        details = {}
        if ok:
            for (kname, kargs, kkw, knode), m in zip(kc, metrics[:2]):
                a_ref = kargs[0] if kargs else kkw.get("reference_arr")
                a_pred = kargs[1] if len(kargs) > 1 else kkw.get("prediction_arr")
                good = isinstance(a_ref, AMask) and isinstance(a_pred, AMask) and a_ref.of.side == "REF" and a_pred.of.side == "PRED" and a_ref.kind == "eq" and a_pred.kind == "eq" and a_ref.detail == Sym("LBL") and a_pred.detail == Sym("LBL") and getattr(a_ref, "cropped", False) == getattr(a_pred, "cropped", False)
                details[kname] = (repr(a_ref), repr(a_pred))
                ok = ok and good and kname == f"kernel:{m.attrs['value'].attrs['name']}"
            ca = getattr(it.root, "crop_args", [])
            if ca:
                sides = sorted(x.of.side for x in ca if isinstance(x, AMask))
                ok = ok and sides == ["PRED", "REF"]
                details["crop_from"] = sides
        ctx.decide("R02.5", f, out.node, construct + ":selection", "each metric is evaluated on (reference == label, prediction == label), both cropped by one crop computed from both masks, and handed back under / in the order of its metric", ok, details)
    if not saw_full:
        ctx.undecided("R02.5", f, f.node, f"{f.qual}", "no path evaluates the metrics")


def _run_worker(prog, f):
    """abstract runs of the per-instance worker `f`: [(outcome, interpreter)]"""
    from .arrdom import AArr, AMask, ArrInterp

    metrics = metric_objs(prog)
    holder = []

    class InstInterp(ArrInterp):
        def get_attr(self, base, attr, node):
            if isinstance(base, (AMask, AArr)) and attr == "shape":
                return Sym("SHAPE")
            return super().get_attr(base, attr, node)

        def binop_hook(self, op, l, r, node):
            if isinstance(op, ast.BitOr) and all(isinstance(a, (AMask, _MaskUnion)) for a in (l, r)):
                return self.external_call("numpy.logical_or", [l, r], {}, node)
            return super().binop_hook(op, l, r, node)

        def subscript_hook(self, base, idx, node):
            if isinstance(base, AMask) and idx == Sym("CROP"):
                m = AMask(base.of, base.kind, base.detail)
                m.cropped = True
                return m
            return super().subscript_hook(base, idx, node)

        # emptiness of a selected mask: m.sum() == 0, np.count_nonzero(m) < 1, not m.any(), ...
        def _empty_unknown(self, mask):
            return self.root.__dict__.setdefault("_mask_empty", {}).setdefault(mask.of.side, Unknown(f"selected-empty:{mask.of.side}"))

        def arr_method(self, a, name, args, kwargs, node):
            from .arrdom import Reduction

            if isinstance(a, AMask) and name == "sum" and not args and not kwargs:
                r = Reduction("count", a.of)
                r.mask = a
                return r
            if isinstance(a, AMask) and name == "any" and not args and not kwargs:
                return _MaskTest(a, True)
            return super().arr_method(a, name, args, kwargs, node)

        def external_call(self, name, args, kwargs, node):
            from .arrdom import Reduction

            if self.prog.is_anchor(name, "_functionals:_get_paired_crop"):
                self.root.crop_args = list(args) + list(kwargs.values())
                return Sym("CROP")
            if name in ("numpy.logical_or",) and len(args) == 2 and not kwargs and all(isinstance(a, (AMask, _MaskUnion)) for a in args):
                parts = []
                for a in args:
                    parts += a.parts if isinstance(a, _MaskUnion) else [a]
                return _MaskUnion(parts)
            if self.prog.is_anchor(name, "utils.numpy_utils:_get_bbox_nd") and args and isinstance(args[0], _MaskUnion):
                # the bounding box of the union of the masks is the paired crop
                self.root.crop_args = list(args[0].parts)
                return Sym("CROP")
            if name in ("numpy.sum", "numpy.count_nonzero") and len(args) == 1 and not kwargs and isinstance(args[0], AMask):
                r = Reduction("count", args[0].of)
                r.mask = args[0]
                return r
            if name == "numpy.any" and len(args) == 1 and not kwargs and isinstance(args[0], AMask):
                return _MaskTest(args[0], True)
            return super().external_call(name, args, kwargs, node)

        def compare_hook(self, op, l, r, node):
            from .arrdom import Reduction

            if isinstance(l, Reduction) and getattr(l, "mask", None) is not None and isinstance(r, int) and not isinstance(r, bool):
                k = type(op)
                if (r == 0 and k in (ast.Eq, ast.LtE)) or (r == 1 and k is ast.Lt):
                    return _MaskTest(l.mask, False)
                if (r == 0 and k in (ast.NotEq, ast.Gt)) or (r == 1 and k is ast.GtE):
                    return _MaskTest(l.mask, True)
                return Unknown("cmp")
            return super().compare_hook(op, l, r, node)

        def truth_hook(self, v, node):
            from .arrdom import Reduction

            if isinstance(v, _MaskTest):
                d = self.decide(node, self._empty_unknown(v.mask))
                return (not d) if v.nonempty else d
            if isinstance(v, Reduction) and getattr(v, "mask", None) is not None:
                return not self.decide(node, self._empty_unknown(v.mask))
            return super().truth_hook(v, node)

    def make(prefix):
        ref, pred = AArr("REF", False), AArr("PRED", False)
        args = {}
        for p in f.call_params:
            n = p.name.lower()
            if n.startswith("ref") and "arr" in n:
                args[p.name] = ref
            elif n.startswith("pred"):
                args[p.name] = pred
            elif "idx" in n:
                args[p.name] = Sym("LBL")
            elif "metric" in n:
                args[p.name] = metrics[:2]
        it = InstInterp(prog, f, args, metrics=metrics, prefix=prefix)
        it.root.no_inline = {prog.func("_functionals:_get_paired_crop").qual, prog.func("utils.numpy_utils:_get_bbox_nd").qual}
        holder.append(it)
        return it

    outs = enumerate_paths(make)
    return list(zip(outs, holder))


# ----------------------------------------------------------------------------------------
# R02.2 / R02.3: calculators over exact rational functions
# ----------------------------------------------------------------------------------------


class RatInterp(ResultInterp):
    def binop_hook(self, op, l, r, node):
        for x in (l, r):
            if isinstance(x, Sym) and x.name.endswith("numpy.nan"):
                return x  # NaN propagates through arithmetic
        try:
            a, b = _rat(l), _rat(r)
        except TypeError:
            return super().binop_hook(op, l, r, node)
        if isinstance(op, ast.Add):
            return a + b
        if isinstance(op, ast.Sub):
            return a - b
        if isinstance(op, ast.Mult):
            return a * b
        if isinstance(op, ast.Div):
            if b.num.is_zero():
                from ..absval import RaiseSignal

                raise RaiseSignal("ZeroDivisionError", node)
            return a / b
        return super().binop_hook(op, l, r, node)

    def compare_hook(self, op, l, r, node):
        try:
            a, b = _rat(l), _rat(r)
        except TypeError:
            return super().compare_hook(op, l, r, node)
        d = a - b
        u = Unknown(f"{norm(node)}")
        u.pv = (type(op).__name__, d)
        if d.num.is_zero():
            return isinstance(op, (ast.Eq, ast.LtE, ast.GtE))
        if d.is_poly() and d.as_poly().is_const():
            c = d.as_poly().const_value()
            return {ast.Eq: c == 0, ast.NotEq: c != 0, ast.Lt: c < 0, ast.LtE: c <= 0, ast.Gt: c > 0, ast.GtE: c >= 0}[type(op)]
        return u

    def get_attr(self, base, attr, node):
        if isinstance(base, Obj) and base.cls.name == "PanopticaResult":
            if attr in base.attrs and base.attrs[attr] is not None:
                return base.attrs[attr]
            em = base.attrs.get("_evaluation_metrics")
            if isinstance(em, dict) and attr in em and attr not in ("_evaluation_metrics",):
                calc = em[attr].attrs.get("_calc_func")
                if isinstance(calc, Func):
                    return self.call_func(calc, [base], {}, node)
        return super().get_attr(base, attr, node)


def _rat(x) -> Rat:
    if isinstance(x, Rat):
        return x
    if isinstance(x, Poly):
        return Rat(x)
    if isinstance(x, bool):
        raise TypeError
    if isinstance(x, (int, Fraction)):
        return Rat(Poly.const(x))
    if isinstance(x, float):
        return Rat(Poly.const(Fraction(x).limit_denominator(10**6)))
    raise TypeError


def build_result(ctx: Ctx, metrics, tp, n_pred, n_ref):
    """Run PanopticaResult.__init__ abstractly to obtain the metric registry, then replace
    the counts and list aggregates by symbolic atoms."""
    prog = ctx.prog
    ech, _ = build_edge_case_handler(prog, metrics)
    rcls = prog.cls("panoptica_result:PanopticaResult")
    init = rcls.lookup("__init__")
    o = Obj(rcls, {})
    lists = {m: [Sym("x")] for m in metrics}
    args = {"reference_arr": None, "prediction_arr": None, "num_pred_instances": 1, "num_ref_instances": 1, "tp": 1, "list_metrics": lists, "edge_case_handler": ech, "global_metrics": []}
    it = ResultInterp(prog, init, args, metrics=metrics, self_obj=o)
    out = it.run()
    if out.kind == "raise" or out.decisions:
        raise Undecided(f"PanopticaResult.__init__ not evaluable: {out.kind} {out.exc}")
    o.attrs["tp"], o.attrs["num_pred_instances"], o.attrs["num_ref_instances"] = tp, n_pred, n_ref
    lm = o.attrs.get("_list_metrics")
    if not isinstance(lm, dict):
        raise Undecided("no _list_metrics")
    for m in metrics:
        e = lm.get(m)
        if isinstance(e, Obj):
            n = m.attrs["_name_"]
            e.attrs.update({"AVG": Rat(Poly.var(f"avg_{n}")), "STD": Rat(Poly.var(f"std_{n}")), "SUM": Rat(Poly.var(f"sum_{n}")), "MIN": Rat(Poly.var(f"min_{n}")), "MAX": Rat(Poly.var(f"max_{n}")), "error": False})
    return o


SQ_NAMES = {"sq": "IOU", "sq_dsc": "DSC", "sq_cldsc": "clDSC", "sq_assd": "ASSD", "sq_rvd": "RVD"}
PQ_NAMES = {"pq": "IOU", "pq_dsc": "DSC", "pq_cldsc": "clDSC"}


def eval_metric(ctx, metrics, res_factory, name):
    prog = ctx.prog
    outs_all = []

    def run(prefix):
        res = res_factory()
        em = res.attrs["_evaluation_metrics"]
        if name not in em:
            raise AnchorMissing(f"result metric {name} is not registered")
        calc = em[name].attrs.get("_calc_func")
        if not isinstance(calc, Func):
            raise AnchorMissing(f"result metric {name} has no calculator")
        it = RatInterp(prog, calc, {calc.params[0].name: res}, metrics=metrics, prefix=prefix)
        return it

    return enumerate_paths(run), None


def check_calculators(ctx: Ctx):
    prog = ctx.prog
    metrics = metric_objs(prog)
    TP, NP, NR = Rat(Poly.var("tp")), Rat(Poly.var("n_pred")), Rat(Poly.var("n_ref"))

    def fac():
        return build_result(ctx, metrics, TP, NP, NR)

    res0 = fac()
    em = res0.attrs["_evaluation_metrics"]
    rcls = res0.cls
    # R02.3 registry: name -> calculator of the same name
    n_reg = 0
    for name, e in em.items():
        if not isinstance(name, str):
            continue
        calc = e.attrs.get("_calc_func")
        if isinstance(calc, Func):
            n_reg += 1
            ctx.decide("R02.3", calc, calc.node, f"registry:{name}", f"metric '{name}' is computed by the calculator of that name", calc.name == name, {"calculator": calc.qual}, nontrivial=False)
    if n_reg < 18:
        ctx.undecided("R02.3.floor", None, None, "floor:R02.3", f"registry has {n_reg} calculators, confirmed floor is 18")
    RQ = Rat(Poly.var("tp")) / (Rat(Poly.var("tp")) + Rat(Poly.const(Fraction(1, 2))) * (NP - TP) + Rat(Poly.const(Fraction(1, 2))) * (NR - TP))
    refs = {"fp": NP - TP, "fn": NR - TP, "prec": TP / NP, "rec": TP / NR, "rq": RQ}
    for n, m in SQ_NAMES.items():
        refs[n] = Rat(Poly.var(f"avg_{m}"))
        refs[n + "_std"] = Rat(Poly.var(f"std_{m}"))
    for n, m in PQ_NAMES.items():
        refs[n] = Rat(Poly.var(f"avg_{m}")) * RQ
    for name, want in refs.items():
        if name not in em:
            ctx.undecided("R02.2", None, None, f"calc:{name}", "metric not registered")
            continue
        calc = em[name].attrs.get("_calc_func")
        outs, _ = eval_metric(ctx, metrics, fac, name)
        for out in outs:
            zero = set()
            feasible = True
            notes = []
            for node, v, d in out.decisions:
                pv = getattr(v, "pv", None)
                if pv is None:
                    feasible = None
                    break
                opn, diff = pv
                if not diff.is_poly():
                    feasible = None
                    break
                p = diff.as_poly()
                holds_eq = (opn in ("Eq",) and d) or (opn in ("NotEq",) and not d) or (opn in ("Gt",) and not d and p.nonneg_coeffs()) or (opn in ("LtE",) and d and p.nonneg_coeffs())
                if holds_eq:
                    if p.nonneg_coeffs() and p.const_value() == 0:
                        zero |= p.variables()
                    elif p.nonneg_coeffs():
                        feasible = False  # positive constant cannot be zero
                    else:
                        feasible = None
                        break
                notes.append((norm(node) if isinstance(node, ast.AST) else "?", d))
            construct = f"calc:{name}" + (f"[{'; '.join(f'{t}={d}' for t, d in notes)}]" if notes else "")
            if feasible is False:
                continue
            if feasible is None:
                ctx.undecided("R02.2", calc, out.node, construct, "calculator splits on an unmodelled condition")
                continue
            w = want.subst_zero(zero)
            if out.kind == "raise":
                ctx.decide("R02.2", calc, out.node, construct, f"raises only where the reference quotient is undefined", True if w.den.is_zero() or out.exc == "ZeroDivisionError" else None, {"exc": out.exc}, nontrivial=False)
                continue
            got = out.value
            if isinstance(got, (int, Fraction, float)) and not isinstance(got, bool):
                got = _rat(got)
            if isinstance(got, Sym) and "nan" in got.name:
                ctx.decide("R02.2", calc, out.node, construct, "NaN is returned only where the reference quotient is undefined", w.den.is_zero(), {"zeroed": sorted(zero)})
                continue
            if not isinstance(got, Rat):
                ctx.undecided("R02.2", calc, out.node, construct, f"calculator returns unmodelled value {got!r}")
                continue
            g = got.subst_zero(zero)
            if w.den.is_zero():
                ctx.ok("R02.2", calc, out.node, construct, "reference quotient undefined on this branch (any value admissible)", {"zeroed": sorted(zero)}, nontrivial=False)
                continue
            ctx.decide("R02.2", calc, out.node, construct, f"{name} == {want!r}" + (f" with {sorted(zero)} = 0" if zero else ""), (not g.den.is_zero()) and g.equals(w), {"got": repr(g), "want": repr(w)})
    ctx.floor("R02.2", 15, "calculator paths")


def check_reducers(ctx: Ctx):
    prog = ctx.prog
    cls = prog.cls("metrics.metrics:Evaluation_List_Metric")
    init = cls.lookup("__init__")
    vals = [Sym("v1"), Sym("v2"), Sym("v3")]
    for lst in (vals, [Sym("v1")]):
        o = Obj(cls, {})
        args = {}
        for p in init.call_params:
            n = p.name
            args[n] = {"name_id": Sym("M"), "empty_list_std": Sym("ELS"), "value_list": list(lst), "is_edge_case": False, "edge_case_result": Sym("ECR")}.get(n, None)
        it = ResultInterp(prog, init, args, self_obj=o)
        out = it.run()
        construct = f"{init.qual}:len={len(lst)}"
        if out.kind == "raise" or out.decisions:
            ctx.undecided("R02.4", init, init.node, construct, f"list metric constructor not evaluable: {out.kind} {out.exc}")
            continue
        t = tuple(lst)
        for k, what in (("AVG", "mean"), ("SUM", "sum"), ("MIN", "minimum"), ("MAX", "maximum"), ("STD", "population standard deviation (no ddof, numerically stable)")):
            g = obj_attr(prog, o, k)
            ctx.decide("R02.4", init, init.node, construct + ":" + k, f"{k} is the {what} of the whole list", reducer_verdict(k, g, t), {"got": repr(g)})
        ctx.decide("R02.4", init, init.node, construct + ":ALL", "ALL is the list itself", o.attrs.get("ALL") == list(lst), None, nontrivial=False)


def check_counting(ctx: Ctx):
    """R02.5: default instance counts / matched instances of the pair classes."""
    prog = ctx.prog
    from .arrdom import AArr, ArrInterp

    cls = prog.cls("utils.processing_pair:MatchedInstancePair")
    init = cls.lookup("__init__")
    uniq = prog.func("utils.numpy_utils:_unique_without_zeros")
    cnt = prog.func("utils.numpy_utils:_count_unique_without_zeros")
    integ = prog.func("utils.processing_pair:_check_array_integrity")
    LBL = {"PRED": [Sym("A"), Sym("B"), Sym("C")], "REF": [Sym("B"), Sym("C"), Sym("D"), Sym("E")]}

    class PairInterp(ArrInterp):
        def external_call(self, name, args, kwargs, node):
            if name == uniq.qual and args and isinstance(args[0], AArr):
                return list(LBL[args[0].side])
            if name == cnt.qual and args and isinstance(args[0], AArr):
                return len(LBL[args[0].side])
            if name == integ.qual:
                return None
            return super().external_call(name, args, kwargs, node)

    from ..absval import enumerate_paths as _ep

    holder = []

    def make(prefix):
        o_ = Obj(cls, {})
        p_, r_ = AArr("PRED", False), AArr("REF", False)
        it_ = PairInterp(prog, init, {"prediction_arr": p_, "reference_arr": r_}, self_obj=o_, prefix=prefix)
        it_.root.no_inline = {uniq.qual, cnt.qual, integ.qual}
        holder.append((o_, p_, r_))
        return it_

    outs = _ep(make, max_paths=16)
    for out, (o, pred, ref) in zip(outs, holder):
        # splits on facts about the inputs' dtypes are input classes (a fast path for unsigned maps ...)
        facts = all(isinstance(d[1], Unknown) and str(d[1].tag).startswith("dtype-fact") for d in out.decisions)
        construct = f"{init.qual}" + ("[" + "; ".join(f"{d[1].tag}={d[2]}" for d in out.decisions)[:120] + "]" if out.decisions and facts else "")
        if out.kind == "raise" or (out.decisions and not facts):
            ctx.undecided("R02.5", init, init.node, construct, f"pair constructor not evaluable: {out.kind} {out.exc} {[norm(d[0]) for d in out.decisions if isinstance(d[0], ast.AST)][:3]}")
            continue
        _judge_counting(ctx, init, construct, o, pred, ref, LBL)


def _judge_counting(ctx, init, construct, o, pred, ref, LBL):
    if True:
        a = o.attrs
        ctx.decide("R02.5", init, init.node, construct + ":n_pred", "default number of prediction instances = unique non-zero labels of the prediction array", a.get("n_prediction_instance") == 3, {"got": repr(a.get("n_prediction_instance"))})
        ctx.decide("R02.5", init, init.node, construct + ":n_ref", "default number of reference instances = unique non-zero labels of the reference array", a.get("n_reference_instance") == 4, {"got": repr(a.get("n_reference_instance"))})
        mi = a.get("matched_instances", [])
        ctx.decide("R02.5", init, init.node, construct + ":matched", "matched instances = labels present in both arrays", (sorted(x.name for x in mi if isinstance(x, Sym)) == ["B", "C"]) if isinstance(mi, (list, tuple)) else None, {"got": repr(mi)})
        ctx.decide("R02.5", init, init.node, construct + ":arrays", "arrays are stored uncrossed", a.get("_prediction_arr") is pred and a.get("_reference_arr") is ref, None, nontrivial=False)
        ctx.decide("R02.5", init, init.node, construct + ":labels", "label tuples belong to their own side", list(a.get("_pred_labels", ())) == LBL["PRED"] and list(a.get("_ref_labels", ())) == LBL["REF"], {"pred": repr(a.get("_pred_labels")), "ref": repr(a.get("_ref_labels"))})


def _run_rule(ctx, name, fn):
    """a sub-rule that cannot be evaluated is recorded as undecided; the remaining rules still run"""
    try:
        return fn(ctx)
    except (Undecided, AnchorMissing) as e:
        ctx.undecided(name, None, None, f"{name}:analysis", f"{type(e).__name__}: {e}")
        return 0


def check(ctx: Ctx):
    # instance counts and label tuples come from the label enumeration helpers (R09.6)
    from . import c03 as _c03e
    from .labelenum import check_label_enumeration as _cle

    _c03e._guarded(ctx, "R09.6", _cle)
    _run_rule(ctx, "check_evaluate", check_evaluate)
    _run_rule(ctx, "check_calculators", check_calculators)
    _run_rule(ctx, "check_reducers", check_reducers)
    _run_rule(ctx, "check_counting", check_counting)
    # tp+fp == number of predicted instances also needs relabelling not to merge or lose instances
    from . import c04

    _run_rule(ctx, "check_chained_replacement", c04.check_chained_replacement)
    _run_rule(ctx, "check_relabel", c04.check_relabel)
    # instance counts of semantic input are the approximator's component counts (R05.3)
    from . import c03, c05

    c03._guarded(ctx, "R05.1", c05.check_dispatch)
    c03._guarded(ctx, "R05.2", c05.check_library_calls)  # ... and the count is the library's own, on every class of input
    # "number of predicted / reference instances" in the final result are the pair's own counts
    # (wiring of panoptic_evaluate, R01.2)
    from . import c01

    c03._guarded(ctx, "R01.2", c01.check_pipeline)
    # "every per-instance list has exactly tp entries" needs every matched instance to survive the
    # crops (R10.2, R10.3) and the caller's arrays not to change between groups / calls (R15.1)
    from . import c10, c15

    c03._guarded(ctx, "R10.2", c10.check_bbox)
    c03._guarded(ctx, "R10.5", c10.check_padded_starts)
    c03._guarded(ctx, "R10.3", c10.check_crop_mask)
    c03._guarded(ctx, "R15.1", c15.check_no_input_mutation)
    # the per-instance score dicts are read for the decision and for the lists after whatever was built
    # from them (records, summaries): building objects must not modify the dicts it is given (R15.3)
    c03._guarded(ctx, "R15.3", c15.check_ctor_purity)
    c03._guarded(ctx, "R03.3", c03.check_beats)
    # results of later evaluations (another group, a flipped copy, the exchanged pair, a second
    # threshold) are only meaningful if no step writes into the caller's arrays (R15.8)
    from . import c15 as _c15
    from . import c03 as _c03

    _c03._guarded(ctx, "R15.8", _c15.check_param_aliasing)


_I = "panoptica/instance_evaluator.py"
_R = "panoptica/panoptica_result.py"
_X = "panoptica/metrics/metrics.py"
_PP = "panoptica/utils/processing_pair.py"

VARIANTS = [
    Variant("C02-m-d1", "R02.1", "mutant", [(_I, "    tp = 0\n", "    tp = len(matched_instance_pair.matched_instances)\n"), (_I, "            tp += 1\n", "")], control=True, note="defect D1 of the original tree"),
    Variant("C02-m-tp-outside", "R02.1", "mutant", [(_I, "            tp += 1\n            for k, v in metric_dict.items():", "            for k, v in metric_dict.items():"), (_I, "    for metric_dict in metric_dicts:\n", "    for metric_dict in metric_dicts:\n        tp += 1\n")]),
    Variant("C02-m-threshold-truthy", "R02.1", "mutant", [(_I, "            decision_threshold is not None\n            and decision_metric.score_beats_threshold(", "            decision_threshold\n            and decision_metric.score_beats_threshold(")]),
    Variant("C02-m-skip-if-zero", "R02.1", "mutant", [(_I, "        if decision_metric is None or (", "        if decision_metric is None or not decision_threshold or (")]),
    Variant("C02-m-counts-crossed", "R02.1", "mutant", [(_I, "        num_pred_instances=matched_instance_pair.n_prediction_instance,\n        num_ref_instances=matched_instance_pair.n_reference_instance,", "        num_pred_instances=matched_instance_pair.n_reference_instance,\n        num_ref_instances=matched_instance_pair.n_prediction_instance,")]),
    Variant("C02-m-fp", "R02.2", "mutant", [(_R, "    return res.num_pred_instances - res.tp", "    return res.num_ref_instances - res.tp")], control=True),
    Variant("C02-m-rq-half", "R02.2", "mutant", [(_R, "res.tp / (res.tp + 0.5 * res.fp + 0.5 * res.fn)", "res.tp / (res.tp + res.fp + 0.5 * res.fn)")]),
    Variant("C02-m-pq-dsc", "R02.2", "mutant", [(_R, "    return res.sq_dsc * res.rq", "    return res.sq * res.rq")]),
    Variant("C02-m-sq-dsc-iou", "R02.2", "mutant", [(_R, "    return res.get_list_metric(Metric.DSC, mode=MetricMode.AVG)", "    return res.get_list_metric(Metric.IOU, mode=MetricMode.AVG)")]),
    Variant("C02-m-sqstd-avg", "R02.2", "mutant", [(_R, "    return res.get_list_metric(Metric.IOU, mode=MetricMode.STD)", "    return res.get_list_metric(Metric.IOU, mode=MetricMode.AVG)")]),
    Variant("C02-m-registry", "R02.3", "mutant", [(_R, "            \"fn\",\n            MetricType.MATCHING,\n            fn,", "            \"fn\",\n            MetricType.MATCHING,\n            fp,")]),
    Variant("C02-m-min-max", "R02.4", "mutant", [(_X, "None if self.ALL is None or len(self.ALL) == 0 else np.min(self.ALL)", "None if self.ALL is None or len(self.ALL) == 0 else np.max(self.ALL)")]),
    Variant("C02-m-ddof", "R02.4", "mutant", [(_X, "else empty_list_std if len(self.ALL) == 0 else np.std(self.ALL)", "else empty_list_std if len(self.ALL) == 0 else np.std(self.ALL, ddof=1)")]),
    Variant("C02-m-count-crossed", "R02.5", "mutant", [(_PP, "            self.n_prediction_instance = _count_unique_without_zeros(prediction_arr)", "            self.n_prediction_instance = _count_unique_without_zeros(reference_arr)")]),
    Variant("C02-m-instance-pred-other-label", "R02.5", "mutant", [(_I, "    pred_arr = prediction_arr == ref_idx", "    pred_arr = prediction_arr != 0")]),
    Variant("C02-t-rq-sum", "R02.2", "twin", [(_R, "res.tp / (res.tp + 0.5 * res.fp + 0.5 * res.fn)", "res.tp / (res.tp + (res.fp + res.fn) / 2)")]),
    Variant("C02-t-pq-order", "R02.2", "twin", [(_R, "    return res.sq_dsc * res.rq", "    return res.rq * res.sq_dsc")]),
    Variant("C02-t-rq-2tp", "R02.2", "twin", [(_R, "res.tp / (res.tp + 0.5 * res.fp + 0.5 * res.fn)", "2 * res.tp / (res.num_pred_instances + res.num_ref_instances)")]),
    Variant("C02-t-tp-len", "R02.1", "twin", [(_I, "        tp=tp,\n", "        tp=len(score_dict[eval_metrics[0]]),\n")]),
    Variant("C02-t-decision-flag", "R02.1", "twin", [(_I, "    for metric_dict in metric_dicts:\n        if decision_metric is None or (\n            decision_threshold is not None\n            and decision_metric.score_beats_threshold(\n                metric_dict[decision_metric], decision_threshold\n            )\n        ):", "    for metric_dict in metric_dicts:\n        accepted = True\n        if decision_metric is not None:\n            accepted = decision_metric.score_beats_threshold(\n                metric_dict[decision_metric], decision_threshold\n            )\n        if accepted:")]),
]
