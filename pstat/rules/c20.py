"""C20 - dataset summaries are the statistics of exactly the recorded finite values."""

from __future__ import annotations

import ast

from ..absval import Obj, Sym, Unknown
from ..model import AnchorMissing, Undecided, norm
from ..report import Ctx
from ..variants import Variant
from . import c18
from .evalrun import construct
from .fsrun import FS, FSInterp
from .resultrun import Tagged, reducer_verdict

INFO = {
    "explanation": "Rounds 4/5: (R20.6) a summary built by the caller from the list get() hands out leaves the stored column as recorded; a group with complete unsorted columns is part of the abstract table. Panoptica_Statistic is built by interpreting its constructor on a table with missing values, then its query methods are interpreted: (R20.1/R20.2) get_summary(group, metric) summarises exactly the non-missing values of that cell list, in order: avg = mean, std = population standard deviation, min/max = the extremes, each accessor returning its own field; (R20.3) the across-groups summary is the same statistics over the per-group averages of all groups; (R20.4) get_one_subject returns every list's entry at that subject's index; (R20.6) queries do not change the stored table (summaries are repeatable, order of queries irrelevant); (R20.5) non-finite and missing cells become missing at load time (delegated R18.4 round trip on the abstract file). Further delegated: R15.6 (the aggregator keeps no parsed copy of the file between calls). Round 8: (R20.7) at every construction site of the statistic object the subject list and the value lists follow the same row order: a value table that went through a re-ordering table operation (pivot, pivot_table, groupby, sort_values, sort_index, unstack, crosstab, value_counts - trusted model of pandas) must be put back into the subject list's order (reindex / .loc) or the subject list must come from that same table; built-in positive and negative examples. Round 9: R18.4 foreign spellings delegated.",
    "trusted_base": ["numpy reducers average/std/min/max", "Python semantics of the modelled AST subset"],
    "assumptions": ["at least one finite value per summarised cell list (the property's precondition)"],
    "not_decided": ["floating-point rounding of the reducers"],
}

SUBJ = ["a", "b", "c", "d"]
TABLE = {
    "g1": {"m": [1.0, None, 3.0, 8.0], "k": [None, 2.5, None, 4.5]},
    "g2": {"m": [10.0, 20.0, None, 5.0], "k": [7.0, None, None, None]},
    # columns without missing entries, not in ascending order: `get` hands out the stored list itself
    "g3": {"m": [9.0, 2.0, 7.0, 4.0], "k": [6.0, 5.0, 8.0, 1.0]},
}


class _ArrMeth:
    def __init__(self, vals, name):
        self.vals, self.name = vals, name


class _SortedSym:
    def __init__(self, items):
        self.items = items


class StatQ(FSInterp):
    def subscript_hook(self, base, idx, node):
        if isinstance(base, _SortedSym) and isinstance(idx, int):
            return Tagged("order-statistic", [tuple(base.items), idx])
        return super().subscript_hook(base, idx, node)

    def iterate(self, it, node):
        if isinstance(it, _SortedSym):
            return [Tagged("order-statistic", [tuple(it.items), i]) for i in range(len(it.items))]
        return super().iterate(it, node)

    def __init__(self, *a, **kw):
        super().__init__(*a, **kw)
        self.root.lists_are_arrays = True

    def get_attr(self, base, attr, node):
        # the value list after np.asarray(...): reductions as methods
        if isinstance(base, tuple) and attr in ("mean", "sum", "std", "var", "min", "max") and all(isinstance(x, (int, float)) for x in base):
            return _ArrMeth(base, attr)
        return super().get_attr(base, attr, node)

    def apply(self, fv, args, kwargs, node):
        if isinstance(fv, _ArrMeth):
            return Tagged("numpy." + fv.name, [fv.vals] + list(args), dict(kwargs))
        return super().apply(fv, args, kwargs, node)

    def external_call(self, name, args, kwargs, node):
        if name in ("float", "int") and args and isinstance(args[0], Tagged):
            return args[0]
        if name == "functools.reduce" and len(args) >= 2:
            fn, items = args[0], args[1]
            items = list(self.iterate(items, node))
            fname = fn.name if isinstance(fn, Sym) else ""
            if fname.split(".")[-1] in ("iadd", "add", "concat", "iconcat"):
                if len(args) > 2:
                    acc = args[2]
                elif items:
                    acc, items = items[0], items[1:]
                else:
                    return Unknown("reduce of empty")
                for x in items:
                    if isinstance(acc, list) and isinstance(x, list):
                        if fname.split(".")[-1] in ("iadd", "iconcat"):
                            acc += x  # in place, like the real operator
                        else:
                            acc = acc + x
                    else:
                        return Unknown("reduce")
                return acc
        if name in ("itertools.chain", "itertools.chain.from_iterable"):
            out = []
            src = args[0] if name.endswith("from_iterable") else args
            for a in src:
                out += list(self.iterate(a, node))
            return out
        return super().external_call(name, args, kwargs, node)

    def call_builtin(self, name, args, kwargs, node):
        if name == "float" and args and isinstance(args[0], Tagged):
            return args[0]
        if name == "sorted" and len(args) == 1 and not kwargs and isinstance(args[0], (list, tuple)) and any(isinstance(x, Tagged) for x in args[0]):
            return _SortedSym(list(args[0]))  # symbolic values: the order statistics stay opaque
        if name == "len" and args and isinstance(args[0], _SortedSym):
            return len(args[0].items)
        if name in ("min", "max") and args and isinstance(args[0], (list, tuple)) and args[0] and all(isinstance(x, Tagged) for x in args[0]):
            return Tagged(name, [tuple(args[0])])
        if name == "sum" and args and isinstance(args[0], list) and args[0] and all(isinstance(x, list) for x in args[0]):
            out = list(args[1]) if len(args) > 1 else []
            for x in args[0]:
                out = out + x
            return out
        return super().call_builtin(name, args, kwargs, node)


def build(ctx: Ctx):
    prog = ctx.prog
    cls = prog.cls("panoptica_statistics:Panoptica_Statistic")
    table = {g: {m: list(v) for m, v in d.items()} for g, d in TABLE.items()}
    st = construct(prog, cls, {"subj_names": list(SUBJ), "value_dict": table}, interp_cls=StatQ)
    return cls, st, table


def q(ctx, st, method, args):
    f = st.cls.lookup(method)
    if f is None:
        raise AnchorMissing(f"Panoptica_Statistic.{method}")
    names = [p.name for p in f.call_params]
    it = StatQ(ctx.prog, f, dict(zip(names, args)), self_obj=st)
    out = it.run()
    return f, out


def _summary_fields(ctx, vs: Obj):
    out = {}
    for acc in ("avg", "std", "min", "max"):
        m = vs.cls.lookup(acc)
        if m is None:
            raise AnchorMissing(f"ValueSummary.{acc}")
        it = StatQ(ctx.prog, m, {}, self_obj=vs)
        o = it.run()
        out[acc] = o.value if o.kind == "return" else o
    return out


def _check_summary(ctx, rule, f, construct_, fields, vals: tuple):
    ctx.decide(rule, f, f.node, construct_ + ":avg", "average is the mean of exactly the recorded finite values", reducer_verdict("AVG", fields["avg"], vals), {"got": repr(fields["avg"]), "values": repr(vals)})
    ctx.decide(rule, f, f.node, construct_ + ":std", "standard deviation is the population standard deviation of exactly those values", reducer_verdict("STD", fields["std"], vals), {"got": repr(fields["std"])})
    if all(isinstance(x, (int, float)) for x in vals):
        ctx.decide(rule, f, f.node, construct_ + ":min", "minimum of exactly those values", fields["min"] == min(vals), {"got": repr(fields["min"])})
        ctx.decide(rule, f, f.node, construct_ + ":max", "maximum of exactly those values", fields["max"] == max(vals), {"got": repr(fields["max"])})
    else:
        ctx.decide(rule, f, f.node, construct_ + ":min", "minimum of exactly those values", reducer_verdict("MIN", fields["min"], vals), {"got": repr(fields["min"])})
        ctx.decide(rule, f, f.node, construct_ + ":max", "maximum of exactly those values", reducer_verdict("MAX", fields["max"], vals), {"got": repr(fields["max"])})


def check_summaries(ctx: Ctx):
    cls, st, table = build(ctx)
    per_group_avg = {}
    for g, d in TABLE.items():
        for m, vals in d.items():
            f, out = q(ctx, st, "get_summary", [g, m])
            construct_ = f"{f.qual}:{g}/{m}"
            if out.kind != "return" or out.decisions or not isinstance(out.value, Obj):
                ctx.decide("R20.1", f, out.node, construct_, "summary of a cell list with at least one finite value is computed", False if (out.kind == "raise" and not out.decisions) else None, {"outcome": out.kind, "exc": out.exc})
                continue
            finite = tuple(v for v in vals if v is not None)
            fields = _summary_fields(ctx, out.value)
            _check_summary(ctx, "R20.1", f, construct_, fields, finite)
            per_group_avg[(g, m)] = fields["avg"]
    # across groups
    f, out = q(ctx, st, "get_summary_across_groups", [])
    if out.kind == "return" and not out.decisions and isinstance(out.value, dict):
        for m in ("m", "k"):
            vs = out.value.get(m)
            construct_ = f"{f.qual}:{m}"
            if not isinstance(vs, Obj):
                ctx.violated("R20.3", f, f.node, construct_, "across-groups summary misses a metric", {"got": repr(out.value)[:100]})
                continue
            want = tuple(per_group_avg.get((g, m)) for g in TABLE)
            fields = _summary_fields(ctx, vs)
            _check_summary(ctx, "R20.3", f, construct_, fields, want)
    else:
        ctx.decide("R20.3", f, out.node, f"{f.qual}", "across-groups summary is computed", False if (out.kind == "raise" and not out.decisions) else None, {"outcome": out.kind, "exc": out.exc})
    # one subject
    for i, s in enumerate(SUBJ):
        f, out = q(ctx, st, "get_one_subject", [s])
        want = {g: {m: TABLE[g][m][i] for m in TABLE[g]} for g in TABLE}
        ctx.decide("R20.4", f, f.node, f"{f.qual}:{s}", "per-subject lookup returns that subject's own values for every group and metric", out.kind == "return" and not out.decisions and out.value == want, {"got": repr(out.value)[:160], "want": repr(want)})
    # repeatability: queries (also get / get_across_groups) leave the table untouched
    f, out = q(ctx, st, "get_across_groups", ["m"])
    want_all = [v for g in TABLE for v in TABLE[g]["m"]]
    ctx.decide("R20.6", f, f.node, f"{f.qual}:value", "get_across_groups returns the values of all groups", out.kind == "return" and out.value == want_all, {"got": repr(out.value)})
    ctx.decide("R20.6", f, f.node, f"{f.qual}:table-unchanged", "queries do not modify the stored table (later summaries still cover exactly the recorded values)", table == TABLE, {"table": repr(table)[:200]})
    f2, out2 = q(ctx, st, "get", ["g1", "m"])
    f3, out3 = q(ctx, st, "get", ["g1", "m", True])
    ctx.decide("R20.1", f2, f2.node, f"{f2.qual}:remove_nones", "get(..., remove_nones=True) drops exactly the missing entries", out3.kind == "return" and out3.value == [v for v in TABLE["g1"]["m"] if v is not None] and out2.kind == "return" and out2.value == TABLE["g1"]["m"], {"got": repr(out3.value)})
    # a summary built by the caller from what `get` hands out (the stored list itself when nothing is
    # missing) must leave the table as it is: per-subject lookups afterwards still give each subject its own
    vcls = ctx.prog.cls("panoptica_statistics:ValueSummary")
    f4, out4 = q(ctx, st, "get", ["g3", "m"])
    if out4.kind == "return" and isinstance(out4.value, list):
        try:
            construct(ctx.prog, vcls, {vcls.lookup("__init__").call_params[0].name: out4.value}, interp_cls=StatQ)
            built = True
        except Undecided as e:
            built = False
            ctx.undecided("R20.6", vcls.lookup("__init__"), None, f"{vcls.qual}.__init__:caller-list", f"summary constructor not evaluable on the stored list: {e}")
        if built:
            ctx.decide("R20.6", vcls.lookup("__init__"), vcls.lookup("__init__").node, f"{vcls.qual}.__init__:caller-list", "summarising the list handed out by get() does not reorder or change the stored column", table["g3"]["m"] == TABLE["g3"]["m"], {"column_after": repr(table["g3"]["m"]), "recorded": repr(TABLE["g3"]["m"])})
            fo, oo = q(ctx, st, "get_one_subject", ["b"])
            want_b = {g: {m: TABLE[g][m][1] for m in TABLE[g]} for g in TABLE}
            ctx.decide("R20.4", fo, fo.node, f"{fo.qual}:b:after-summary", "per-subject lookup after a caller-built summary still returns that subject's own values", oo.kind == "return" and oo.value == want_b, {"got": repr(oo.value)[:200]})
    # second pass after all queries: still the same
    f, out = q(ctx, st, "get_summary", ["g1", "m"])
    if out.kind == "return" and isinstance(out.value, Obj):
        fields = _summary_fields(ctx, out.value)
        ctx.decide("R20.6", f, f.node, f"{f.qual}:repeatable", "a summary requested after other queries is unchanged", reducer_verdict("AVG", fields["avg"], (1.0, 3.0, 8.0)), {"got": repr(fields["avg"])})


# table operations that hand back their ROWS in an order of their own (sorted by key), not in the order they were
# given (trusted model of pandas).  sorted() / set() / np.unique are left out on purpose: the package uses them for
# lists of keys (group and metric names), whose order is not a row order.
_REORDERING = {"pivot", "pivot_table", "groupby", "sort_values", "sort_index", "unstack", "crosstab", "value_counts"}
_REALIGNING = {"reindex", "loc"}


def _constructor_sites(prog, cls):
    import ast

    out = []
    for f in prog.package_functions():
        for c in prog.calls_in(f):
            r = prog.resolve_class_expr(f.module, c.func) if isinstance(c.func, (ast.Name, ast.Attribute)) else None
            if r is cls or (isinstance(c.func, ast.Name) and c.func.id == "cls" and f.cls is cls):
                out.append((f, c))
    return out


def _reordered_names(fnode):
    """local names bound (directly, or through other locals / loops / item stores) to data that went through a
    re-ordering library operation without being put back into a given order (reindex / .loc[...]) -> the operation"""
    import ast

    def op_of(e):
        """the re-ordering operation an expression goes through last, unless realigned afterwards (outermost first)"""
        found = None
        for n in ast.walk(e):
            if isinstance(n, ast.Call):
                name = n.func.attr if isinstance(n.func, ast.Attribute) else n.func.id if isinstance(n.func, ast.Name) else None
                if name in _REORDERING:
                    found = found or (name, n)
        if found is None:
            return None
        # realigned: the re-ordering call sits inside the receiver of a reindex(...) / .loc[...]
        for n in ast.walk(e):
            if isinstance(n, ast.Call) and isinstance(n.func, ast.Attribute) and n.func.attr == "reindex" and any(m is found[1] for m in ast.walk(n.func.value)):
                return None
            if isinstance(n, ast.Subscript) and isinstance(n.value, ast.Attribute) and n.value.attr == "loc" and any(m is found[1] for m in ast.walk(n.value.value)):
                return None
        return found[0]

    taint = {}
    changed = True
    while changed:
        changed = False
        for st in ast.walk(fnode):
            tgt_val = []
            if isinstance(st, ast.Assign):
                tgt_val = [(t, st.value) for t in st.targets]
            elif isinstance(st, ast.AnnAssign) and st.value is not None:
                tgt_val = [(st.target, st.value)]
            elif isinstance(st, ast.For):
                tgt_val = [(st.target, st.iter)]
            elif isinstance(st, ast.comprehension):
                tgt_val = [(st.target, st.iter)]
            for t, v in tgt_val:
                op = op_of(v)
                if op is None:
                    used = [n.id for n in ast.walk(v) if isinstance(n, ast.Name) and n.id in taint]
                    # realignment of a tainted local
                    real = any((isinstance(n, ast.Call) and isinstance(n.func, ast.Attribute) and n.func.attr == "reindex") or (isinstance(n, ast.Subscript) and isinstance(n.value, ast.Attribute) and n.value.attr == "loc") for n in ast.walk(v))
                    op = taint[used[0]] if used and not real else None
                if op is None:
                    continue
                names = [n.id for n in ast.walk(t) if isinstance(n, ast.Name) and isinstance(n.ctx, ast.Store)]
                if isinstance(t, ast.Subscript):
                    root = t.value
                    while isinstance(root, ast.Subscript):
                        root = root.value
                    if isinstance(root, ast.Name):
                        names.append(root.id)
                for nm in names:
                    if nm not in taint:
                        taint[nm] = op
                        changed = True
    return taint


def check_row_alignment(ctx: Ctx):
    """R20.7: wherever a statistic object is built, its subject list and its value lists follow the same row order.
    A value table that went through a re-ordering library operation (pivot, groupby, sort, unique, set ...) must be
    put back into the subject list's order (reindex / .loc), or the subject list must come from that same table."""
    import ast

    prog = ctx.prog
    cls = prog.cls("panoptica_statistics:Panoptica_Statistic")
    init = cls.lookup("__init__")
    pn = [p.name for p in init.call_params]
    sp = next((x for x in pn if "subj" in x.lower() or "name" in x.lower()), None)
    vp = next((x for x in pn if "value" in x.lower() or "dict" in x.lower()), None)
    if sp is None or vp is None:
        raise AnchorMissing(f"{init.qual}: subject list / value table parameters not recognised in {pn}")
    probe = ast.parse("def f(df):\n    names = list(dict.fromkeys(df['s'].tolist()))\n    wide = df.pivot(index='s', columns='k', values='v')\n    vd = {}\n    for k in wide.columns:\n        vd[k] = wide[k].tolist()\n    return names, vd\n\ndef g(df):\n    names = list(dict.fromkeys(df['s'].tolist()))\n    wide = df.pivot(index='s', columns='k', values='v').reindex(names)\n    vd = {}\n    for k in wide.columns:\n        vd[k] = wide[k].tolist()\n    return names, vd\n")
    t0, t1 = _reordered_names(probe.body[0]), _reordered_names(probe.body[1])
    if t0.get("vd") != "pivot" or "names" in t0 or "vd" in t1:
        ctx.undecided("R20.7.floor", None, None, "floor:R20.7", f"the built-in examples are not judged as expected ({t0}, {t1}): rule broken")
        return
    sites = _constructor_sites(prog, cls)
    if not sites:
        raise AnchorMissing("no construction site of the statistic object")
    for f, c in sites:
        b = dict(zip(pn, c.args))
        b.update({k.arg: k.value for k in c.keywords if k.arg})
        se, ve = b.get(sp), b.get(vp)
        construct = f"{f.qual}:{norm(c)[:50]}"
        if se is None or ve is None:
            ctx.undecided("R20.7", f, c, construct, "subject list / value table argument not found at the construction site")
            continue
        taint = _reordered_names(f.node)
        vt = next((taint[n.id] for n in ast.walk(ve) if isinstance(n, ast.Name) and n.id in taint), None)
        st_ = next((taint[n.id] for n in ast.walk(se) if isinstance(n, ast.Name) and n.id in taint), None)
        ctx.decide("R20.7", f, c, construct, "subject list and value lists follow the same row order (no re-ordering library operation on one of them only)", not (vt is not None and st_ is None), {"values_went_through": vt, "subjects_went_through": st_} if vt or st_ else None)


def _run_rule(ctx, name, fn):
    """a sub-rule that cannot be evaluated is recorded as undecided; the remaining rules still run"""
    try:
        return fn(ctx)
    except (Undecided, AnchorMissing) as e:
        ctx.undecided(name, None, None, f"{name}:analysis", f"{type(e).__name__}: {e}")
        return 0


def check(ctx: Ctx):
    _run_rule(ctx, "check_summaries", check_summaries)
    _run_rule(ctx, "R20.7", check_row_alignment)
    _run_rule(ctx, "check_roundtrip", c18.check_roundtrip)  # R20.5 = R18.4: non-finite / missing cells become missing at load time
    _run_rule(ctx, "R18.4", c18.check_foreign_spellings)  # ... in whatever spelling float() accepts
    # "the recorded values": a statistic is made from the file as it is now - the aggregator keeps
    # no parsed copy between calls (other processes append rows it would never see, R15.6)
    from . import c03, c15

    c03._guarded(ctx, "R15.6", c15.check_state_writers)
    # the lists that fix the layout of rows and tables (group names, metric keys) are not handed to functions
    # that modify their list parameter in place (R15.6, through callees)
    c03._guarded(ctx, "R15.6", c15.check_state_through_callees)


_S = "panoptica/panoptica_statistics.py"

VARIANTS = [
    Variant("C20-m-keep-nones", "R20.1", "mutant", [(_S, "        values = self.get(group, metric, remove_nones=True)\n        return ValueSummary(values)", "        values = self.get(group, metric, remove_nones=False)\n        return ValueSummary(values)")], control=True),
    Variant("C20-m-min-max", "R20.1", "mutant", [(_S, "        self.__min = min(value_list)\n        self.__max = max(value_list)", "        self.__min = max(value_list)\n        self.__max = min(value_list)")]),
    Variant("C20-m-ddof", "R20.1", "mutant", [(_S, "        self.__std = float(np.std(value_list))", "        self.__std = float(np.std(value_list, ddof=1))")], control=True),
    Variant("C20-m-accessor-crossed", "R20.1", "mutant", [(_S, "    def std(self) -> float:\n        return self.__std", "    def std(self) -> float:\n        return self.__avg")]),
    Variant("C20-m-across-all-values", "R20.3", "mutant", [(_S, "            value_list = [self.get_summary(g, m).avg for g in self.__groupnames]", "            value_list = [v for v in self.get_across_groups(m) if v is not None]")]),
    Variant("C20-m-across-first-groups", "R20.3", "mutant", [(_S, "            value_list = [self.get_summary(g, m).avg for g in self.__groupnames]\n            assert len(value_list) == len(self.__groupnames)", "            value_list = [self.get_summary(g, m).avg for g in self.__groupnames[:-1]]")]),
    Variant("C20-m-subject-index", "R20.4", "mutant", [(_S, "        sidx = self.__subj_names.index(subjectname)", "        sidx = self.__subj_names.index(subjectname) - 1")]),
    Variant("C20-m-iadd", "R20.6", "mutant", [(_S, "        values = []\n        for g in self.__groupnames:\n            values += self.get(g, metric)\n        return values", "        import functools, operator\n        return functools.reduce(operator.iadd, (self.get(g, metric) for g in self.__groupnames))")]),
    Variant("C20-m-loader-minus-inf", "R18.4", "mutant", [(_S, "if value is not None and np.isfinite(value):", "if value is not None and not np.isnan(value) and value != np.inf:")], note="defect D15 of the original tree"),
    Variant("C20-t-mean", "R20.1", "twin", [(_S, "        self.__avg = float(np.average(value_list))", "        self.__avg = float(np.mean(value_list))")]),
    Variant("C20-t-inline-filter", "R20.1", "twin", [(_S, "        values = self.get(group, metric, remove_nones=True)\n        return ValueSummary(values)", "        values = [v for v in self.get(group, metric) if v is not None]\n        return ValueSummary(values)")]),
]
