"""C15 - evaluation is pure: no input mutation, no history, option or worker dependence."""

from __future__ import annotations

import ast
import re

from ..absval import Interp, Obj, RaiseSignal, Sym, Unknown
from ..model import AnchorMissing, Class, Func, Program, Undecided, dotted, norm, walk_no_nested
from ..report import Ctx
from ..variants import Variant
from .common import make_metric_objs
from .aggrun import KEYS, new_session
from .arrdom import AArr
from .c19 import deep_eq
from .evalrun import ARRAY_LABELS, CFG, EvalInterp, build_evaluator, build_groups, construct, run_evaluate, run_pipeline
from .fsrun import FS
from .resultrun import Tagged, metric_objs

INFO = {
    "explanation": "Rounds 4/5: (R15.9) a plain metric call after a call with per-call options hands the kernel the same arguments as on an untouched metric object; (R15.5) parallel map helpers are verified order preserving on 0..5 symbolic items for worker counts 1,2,3,5 and None with 1,2,3,16 cores; R15.3 compares the whole reachable state of evaluators; R15.6 is definite only for state derived from call arguments, the aggregator's cache-like state is decided by R16.8. (R15.1) ALIAS/EFFECT: evaluate (three input types, with and without class groups), panoptic_evaluate, the result constructor and the metric call are interpreted with abstract arrays that alias exactly like numpy arrays; every in-place sink (masked/sliced store, augmented assignment, out=, sort/fill/put/copyto) on a buffer that aliases a caller array is reported; (R15.2) evaluate is interpreted for every combination of the constructor's and the per-call save_group_times flag - no path reads an unassigned local; (R15.3) the evaluator's attributes are identical before and after evaluate, constructors do not modify list arguments (incl. shared default lists), default arguments are identical before and after all runs, and constructing an aggregator (with log_times) leaves the evaluator's advertised metric keys untouched; (R15.4) the arguments of the pipeline call are identical for every combination of result_all / save_group_times / log_times / verbose; (R15.5) worker pools are consumed through order-preserving map/starmap only; (R15.6) configuration objects write their attributes only in __init__ and the tabled setters; (R15.7) module globals written on evaluation paths are on an allow-list with reasons. Further: R15.8 (ALIAS/EFFECT as a flow-sensitive may-alias dataflow with return and written-parameter summaries; effects reported at the public boundary), R15.6 extended to the aggregator, R15.7 to module-level containers reached through aliases. Round 6: (R15.6, callees) fixpoint over the functions that modify a list/dict parameter in place (list/dict methods, +=, item stores, handing it on); no method hands a list attribute to one; (R15.3, constructors) no __init__ / dataclass __post_init__ modifies a container argument in place; (R15.7) warn-once registries (module containers whose every read only guards warnings/log calls/their own insertion) are recognised as report-only; R15.7 is the frame condition of every abstract run and is checked under every property; (R15.5) map helpers are found by how their parameters are used and are also verified with a pool that cannot be started. Round 7: (R15.3, shared defaults) a default argument that is an object made when the function is defined (literal or call) is not modified in place, also not through a component or an accessor that hands out self.<attr>. Round 8: item stores into a table the object keeps count as state writes; per-call scratch state (an attribute its owner method resets to an empty value before any read; private helpers included), editing methods that no evaluation / save / load path calls, and lookup tables filled on demand (the stored value is computed from what the key is computed from, never from the table's earlier content) do not; (R15.8) metric kernels and what they call do not write into the masks they receive. Round 9: (R15.10) an attribute computed from other attributes when the object is built is recomputed (or updated in place) by every later method that rewrites one of those; (R15.11) closures made in a loop and kept for later do not read the loop variable when called (message-only uses excepted); R15.6 follows a local alias of a container the object keeps (stored, or computed once by cached_property - a plain property builds anew) and scans the helper classes the aggregator instantiates; a settings object handed to the pipeline is read as the parameters it bundles, the mapping taken from the callee's own construction of the bundle. Round 10: (R15.12, every property, only when a run would otherwise end undecided) a private attribute read through self in the class the undecided construct sits in, which nothing that can act on such an object ever binds (no store in the class's ancestors or descendants or through a non-self name anywhere, no class-level name, no reflective access), is reported as the definite reason: AttributeError on every input reaching the read.",
    "trusted_base": ["numpy aliasing model of DESIGN appendix A.3 (copy/astype/comparisons fresh; basic slicing views)", "multiprocessing.Pool.map/starmap return results in input order", "cc3d/scipy/skimage do not write their input arrays"],
    "assumptions": [],
    "not_decided": ["OS-level nondeterminism of multiprocessing", "floating-point reproducibility of the kernels across worker processes"],
}

# Writers of object state outside __init__ that are accepted, by *form* (so that renaming them
# changes nothing) or, for public API names, by name with the reason:
#  - a pure setter: every statement is `self.<attr> = <parameter>` - the caller reconfigures
#    the object explicitly through the argument, nothing happens "through use";
SETTER_TABLE = {
    "panoptica_evaluator:Panoptica_Evaluator.resulting_metric_keys": "memo of a value determined by the configuration alone",
}
#  - module state: an insertion `L.append(v)` guarded by `if v not in L` is idempotent;
GLOBAL_TABLE = {
    "utils.citation_reminder:citation_reminder.<locals>.wrapper": "one-time banner flag in os.environ; printing only",
}


def _rooted_at_self(t: ast.expr, self_name: str) -> bool:
    """self.x  or  self.x.y ... (a field of the object or of a settings object it owns)"""
    if not isinstance(t, ast.Attribute):
        return False
    b = t.value
    while isinstance(b, ast.Attribute):
        b = b.value
    return isinstance(b, ast.Name) and b.id == self_name


def is_pure_setter(m: Func) -> bool:
    """def set_x(self, a, b): self.x = a; self.y = b   (docstring / bare return allowed)."""
    params = {p.name for p in m.params}
    body = [st for st in m.node.body if not (isinstance(st, ast.Expr) and isinstance(st.value, ast.Constant))]
    if not body:
        return False
    for st in body:
        if isinstance(st, ast.Return) and (st.value is None or (isinstance(st.value, ast.Constant) and st.value.value is None)):
            continue
        if isinstance(st, (ast.Assign, ast.AnnAssign)):
            tg = st.targets if isinstance(st, ast.Assign) else [st.target]
            val = st.value
            # self.x = <argument>   /   self.<table>["x"] = <argument>  (a setting kept in a table under a fixed key)
            def own(t):
                if isinstance(t, ast.Subscript) and isinstance(t.slice, ast.Constant):
                    return _rooted_at_self(t.value, m.self_name)
                return _rooted_at_self(t, m.self_name)

            if all(own(t) for t in tg) and isinstance(val, ast.Name) and val.id in params and val.id != m.self_name:
                continue
        return False
    return True


def _idempotent_insert(f: Func, call: ast.Call) -> bool:
    """`L.append(v)` / `L.add(v)` directly under `if v not in L:` with nothing else touching L."""
    if not (isinstance(call.func, ast.Attribute) and call.func.attr in ("append", "add") and len(call.args) == 1 and not call.keywords):
        return False
    cont, val = norm(call.func.value), norm(call.args[0])
    for node in walk_no_nested(f.node):
        if isinstance(node, ast.If) and not node.orelse:
            t = node.test
            if isinstance(t, ast.Compare) and len(t.ops) == 1 and isinstance(t.ops[0], ast.NotIn) and norm(t.left) == val and norm(t.comparators[0]) == cont:
                if len(node.body) == 1 and isinstance(node.body[0], ast.Expr) and node.body[0].value is call:
                    return True
    return False


_REPORT_CALLS = ("warnings.warn", "warn", "print", "logging.", "logger.", "log.", "_logger.", "LOGGER.")


def _is_report_stmt(st: ast.stmt, gname: str) -> bool:
    """A statement with no effect on values: a warning / log / print call, or an insertion into the registry itself."""
    if not (isinstance(st, ast.Expr) and isinstance(st.value, ast.Call)):
        return False
    d = dotted(st.value.func) or ""
    if d in (f"{gname}.add", f"{gname}.append"):
        return True
    return d in ("warnings.warn", "warn", "print") or d.split(".")[0] in ("logging", "logger", "log", "_logger", "LOGGER", "_log")


def _report_only_registry(prog, m, gname: str) -> bool:
    """The module-level container `gname` only decides whether something is *reported* (warn-once
    registries): every read of it in the package is either the insertion itself or the test of an `if`
    whose two continuations differ in nothing but report statements and insertions into it."""
    dump = lambda sts: [norm(x) for x in sts]
    n_reads = 0
    for f in prog.package_functions():
        if prog.resolve_name(f.module, gname) != ("global", m, gname) and f.module is not m:
            continue
        parents = {}
        for node in ast.walk(f.node):
            for ch in ast.iter_child_nodes(node):
                parents[ch] = node
        for node in ast.walk(f.node):
            if not (isinstance(node, ast.Name) and node.id == gname and isinstance(node.ctx, ast.Load)):
                continue
            if f.module is not m and prog.resolve_name(f.module, gname) != ("global", m, gname):
                continue
            n_reads += 1
            par = parents.get(node)
            # receiver of the insertion
            if isinstance(par, ast.Attribute) and par.attr in ("add", "append") and isinstance(parents.get(par), ast.Call) and parents[par].func is par and isinstance(parents.get(parents[par]), ast.Expr):
                continue
            # inside the test of an if
            cur, test_of = node, None
            while cur in parents:
                up = parents[cur]
                if isinstance(up, ast.If) and cur is up.test:
                    test_of = up
                    break
                if isinstance(up, ast.stmt):
                    break
                cur = up
            if test_of is None:
                return False
            body = [st for st in test_of.body if not _is_report_stmt(st, gname)]
            orelse = [st for st in test_of.orelse if not _is_report_stmt(st, gname)]
            if not body and not orelse:
                continue
            holder = parents.get(test_of)
            blk = None
            for fld in ("body", "orelse", "finalbody"):
                b = getattr(holder, fld, None)
                if isinstance(b, list) and test_of in b:
                    blk = b
            if blk is None:
                return False
            rest = [st for st in blk[blk.index(test_of) + 1 :] if not _is_report_stmt(st, gname)]
            term = (ast.Return, ast.Continue, ast.Break, ast.Raise)
            if body and not orelse and isinstance(body[-1], term) and dump(body) == dump(rest[: len(body)]):
                continue
            if orelse and not body and isinstance(orelse[-1], term) and dump(orelse) == dump(rest[: len(orelse)]):
                continue
            return False
    return n_reads > 0


def _bad_stores(it):
    return [(n, b, how) for (n, b, how, v, fresh) in it.root.stores if not fresh]


def check_no_input_mutation(ctx: Ctx):
    prog = ctx.prog
    n = 0
    for it_name in ("SEMANTIC", "UNMATCHED_INSTANCE", "MATCHED_INSTANCE"):
        for grouped in (True, False):
            g = build_groups(prog)[0] if grouped else None
            ev = build_evaluator(prog, it_name, g)
            before = {k: v for k, v in ev.attrs.items()}
            snapshot = _freeze(ev)
            f, runs = run_evaluate(prog, ev)
            base = f"{f.qual}:input={it_name},groups={grouped}"
            for out, (it, pred, ref) in runs:
                n += 1
                dtxt = "; ".join(f"{norm(nd) if isinstance(nd, ast.AST) else '?'}={d}" for nd, v, d in out.decisions)
                bad = _bad_stores(it)
                for node, arr, how in bad:
                    ctx.violated("R15.1", f, node, base + f":{arr.side}:{norm(node)[:60]}", f"in-place write reaches the caller's {arr.side.lower()} array (no copy on this path)", {"store": norm(node)[:100], "path": dtxt})
                if not bad:
                    ctx.ok("R15.1", f, f.node, base + (f"[{dtxt}]" if dtxt else ""), "no in-place sink reaches a buffer aliasing the caller's arrays", None)
                if out.kind == "raise":
                    ctx.violated("R15.2", f, out.node, base, f"evaluation raises {out.exc} ({out.value})", {"path": dtxt})
                same = _freeze(ev) == snapshot
                ctx.decide("R15.3", f, f.node, base + ":evaluator-unchanged", "the evaluator's settings and advertised keys are identical before and after evaluate", same, None if same else {"before": snapshot[:200], "after": _freeze(ev)[:200]})
    for cls in ("SemanticPair", "UnmatchedInstancePair", "MatchedInstancePair"):
        f, runs = run_pipeline(prog, cls)
        for out, (it, pair) in runs:
            bad = _bad_stores(it)
            ctx.decide("R15.1", f, f.node, f"{f.qual}:input={cls}", "no in-place sink reaches the input pair's arrays", not bad, {"stores": [norm(n_)[:80] for n_, _, _ in bad]})
    if n < 6:
        ctx.undecided("R15.1.floor", None, None, "floor:R15.1", f"{n} evaluate runs inspected")


def _freeze(o, depth=0) -> str:
    if depth > 6:
        return "..."
    if isinstance(o, Obj):
        return f"{o.cls.name}{{" + ",".join(f"{k}={_freeze(v, depth + 1)}" for k, v in sorted(o.attrs.items())) + "}"
    if isinstance(o, dict):
        return "{" + ",".join(f"{_freeze(k, depth + 1)}:{_freeze(v, depth + 1)}" for k, v in o.items()) + "}"
    if isinstance(o, (list, tuple)):
        return "[" + ",".join(_freeze(x, depth + 1) for x in o) + "]"
    return repr(o)


def _call_desc(kw: dict) -> dict:
    out = {}
    for k, v in kw.items():
        if k in ("result_all", "log_times", "verbose", "verbose_calc"):
            continue
        if isinstance(v, Obj) and "_prediction_arr" in v.attrs:
            pa, ra = v.attrs["_prediction_arr"], v.attrs["_reference_arr"]
            out[k] = (v.cls.name, pa.describe() if isinstance(pa, AArr) else repr(pa), ra.describe() if isinstance(ra, AArr) else repr(ra))
        else:
            out[k] = repr(v)
    return out


def check_options(ctx: Ctx):
    """R15.2 + R15.4: option combinations."""
    prog = ctx.prog
    g = build_groups(prog)[0]
    ref_desc = None
    n = 0
    for ctor_flag in (False, True):
        ev = build_evaluator(prog, "UNMATCHED_INSTANCE", g, save_group_times=ctor_flag)
        for call_flag in (None, True, False):
            for result_all in (True, False):
                for lt, vb in ((None, None), (True, True), (False, True), (True, False)):
                    kw = {"result_all": result_all, "save_group_times": call_flag, "log_times": lt, "verbose": vb}
                    f, runs = run_evaluate(prog, ev, call_kwargs=kw)
                    base = f"{f.qual}:ctor_save_group_times={ctor_flag},call={call_flag},result_all={result_all},log_times={lt},verbose={vb}"
                    for out, (it, pred, ref) in runs:
                        n += 1
                        if out.kind == "raise":
                            ctx.violated("R15.2", f, out.node, base, f"evaluate raises {out.exc}" + (f" (local '{out.value}' read before assignment)" if out.exc == "UnboundLocalError" else ""), None)
                            continue
                        # splits on facts about the inputs' dtypes (fast paths) are input classes, each
                        # checked like any other; anything else is an unmodelled condition
                        if any(not (isinstance(v_, Unknown) and v_.tag.startswith("dtype-fact")) for _, v_, _ in out.decisions):
                            ctx.undecided("R15.2", f, out.node, base, "evaluation splits on an unmodelled condition")
                            continue
                        desc = [_call_desc(k_) for k_, _ in it.root.pipeline_calls]
                        if ref_desc is None:
                            ref_desc = desc
                        ctx.decide("R15.4", f, f.node, base, "the pipeline receives the same arrays and configuration whatever the logging/timing/result options are", desc == ref_desc, None if desc == ref_desc else {"got": repr(desc)[:200], "reference": repr(ref_desc)[:200]}, nontrivial=False)
                        want_time = call_flag if call_flag is not None else ctor_flag
                        def _first(v):
                            if isinstance(v, (tuple, list)) and v:
                                return v[0]
                            if isinstance(v, Obj) and isinstance(v.attrs.get("_fields"), tuple) and v.attrs["_fields"]:
                                return v.attrs.get(v.attrs["_fields"][0])
                            return None

                        firsts = [_first(v) for v in out.value.values()] if isinstance(out.value, dict) else []
                        times = [v.attrs.get("computation_time") for v in firsts if isinstance(v, Obj)] if all(isinstance(v, Obj) for v in firsts) else []
                        ctx.decide("R15.2", f, f.node, base + ":timing", "group times are recorded exactly when the effective save_group_times flag is set", all((t is not None) == bool(want_time) for t in times) and bool(times), {"times": repr(times)[:80]}, nontrivial=False)
    if n < 40:
        ctx.undecided("R15.2.floor", None, None, "floor:R15.2", f"{n} option combinations evaluated")


def check_constructor_args(ctx: Ctx):
    """R15.3: constructors do not modify list/dict arguments or shared defaults."""
    prog = ctx.prog
    ms = metric_objs(prog)
    by = {m.attrs["_name_"]: m for m in ms}
    cls = prog.cls("panoptica_evaluator:Panoptica_Evaluator")
    init = cls.lookup("__init__")
    it_cls = prog.cls("utils.processing_pair:InputType")
    mc = prog.resolve_class_expr(it_cls.module, it_cls.class_assigns()["MATCHED_INSTANCE"])
    member = Obj(it_cls, {"value": mc, "_value_": mc, "name": "MATCHED_INSTANCE", "_name_": "MATCHED_INSTANCE"})
    inst, glob = [by["DSC"], by["IOU"]], [by["DSC"]]
    # explicit list arguments
    o = Obj(cls, {})
    it = EvalInterp(prog, init, {"expected_input": member, "instance_metrics": inst, "global_metrics": glob, "decision_metric": by["clDSC"], "decision_threshold": 0.5}, self_obj=o, metrics=ms)
    it.root.no_inline = set()
    out = it.run()
    ctx.decide("R15.3", init, init.node, f"{init.qual}:list-arguments", "the constructor leaves the caller's metric lists unchanged", out.kind != "raise" and len(inst) == 2 and len(glob) == 1, {"instance_metrics": len(inst), "global_metrics": len(glob), "outcome": out.kind})
    # defaults: construct twice in one interpreter root (shared default objects), second one with default lists
    o1, o2 = Obj(cls, {}), Obj(cls, {})
    it2 = EvalInterp(prog, init, {"expected_input": member, "decision_metric": by["clDSC"], "decision_threshold": 0.5}, self_obj=o1, metrics=ms)
    it2.root.no_inline = set()
    out1 = it2.run()
    it2.call_func(init, [], {"expected_input": member}, None, self_obj=o2)
    fresh = Obj(cls, {})
    it3 = EvalInterp(prog, init, {"expected_input": member}, self_obj=fresh, metrics=ms)
    it3.root.no_inline = set()
    it3.run()
    def mname(x):
        return x.attrs.get("_name_") if isinstance(x, Obj) else getattr(x, "member", repr(x))

    def state(x, depth=0, seen=None):
        """the object's state as nested plain data, wherever it keeps it (own attributes, a settings
        object, a dict): metric members by name, containers by content"""
        seen = seen if seen is not None else set()
        if isinstance(x, Obj):
            if "_name_" in x.attrs:
                return ("member", x.cls.name, x.attrs["_name_"])
            if id(x) in seen or depth > 4:
                return ("obj", x.cls.name)
            seen = seen | {id(x)}
            return ("obj", x.cls.name, tuple(sorted((k, state(v, depth + 1, seen)) for k, v in x.attrs.items())))
        if isinstance(x, (list, tuple)):
            return (type(x).__name__, tuple(state(v, depth + 1, seen) for v in x))
        if isinstance(x, dict):
            return ("dict", tuple(sorted((repr(k), state(v, depth + 1, seen)) for k, v in x.items())))
        return repr(x)

    sa, sb = state(o2), state(fresh)
    lists_a = [m for m in repr(sa).split("'list'")]
    has_lists = len(lists_a) > 1
    unknown = "Unknown(" in repr(sa) or "Unknown(" in repr(sb)
    same = (sa == sb) if has_lists and not unknown else (None if unknown or not has_lists else False)
    diff = None
    if same is False:
        fa, fb = dict(sa[2]) if len(sa) > 2 else {}, dict(sb[2]) if len(sb) > 2 else {}
        diff = {k: {"after_history": repr(fa.get(k))[:160], "fresh": repr(fb.get(k))[:160]} for k in sorted(set(fa) | set(fb)) if fa.get(k) != fb.get(k)}
    ctx.decide("R15.3", init, init.node, f"{init.qual}:shared-defaults", "an evaluator built with default metric lists is the same whatever was constructed before (default lists are not modified)", same, diff if diff else ({"state": "no list-valued state found / unmodelled value in the state"} if same is None else None))
    # aggregator must not extend the evaluator's advertised keys
    keys = list(KEYS)
    fs = FS()
    agg, outa, ita = new_session(prog, fs, "/d/out.tsv", log_times=True, ev_keys=keys)
    af = prog.cls("panoptica_aggregator:Panoptica_Aggregator").lookup("__init__")
    ctx.decide("R15.3", af, af.node, f"{af.qual}:evaluator-keys", "constructing an aggregator (log_times=True) does not change the evaluator's advertised metric keys", keys == list(KEYS) and agg is not None, {"keys_after": keys})


def check_mutable_defaults(ctx: Ctx):
    """R15.3b: parameters with mutable defaults are never mutated in place (syntactic, whole package)."""
    prog = ctx.prog
    n = 0
    MUT = {"append", "extend", "insert", "pop", "remove", "clear", "update", "setdefault", "sort", "reverse", "add", "discard", "popitem"}
    for f in prog.package_functions():
        for p in f.params:
            d = p.default
            if d is None or not isinstance(d, (ast.List, ast.Dict, ast.Set, ast.Call, ast.ListComp, ast.DictComp)):
                continue
            if isinstance(d, ast.Call) and dotted(d.func) not in ("list", "dict", "set"):
                continue
            n += 1
            # aliases: the parameter itself and self attributes it is stored into (in this function)
            aliases = {p.name}
            attr_alias = set()
            for node in walk_no_nested(f.node):
                if isinstance(node, ast.Assign) and isinstance(node.value, ast.Name) and node.value.id == p.name:
                    for t in node.targets:
                        if isinstance(t, ast.Attribute) and isinstance(t.value, ast.Name):
                            attr_alias.add(dotted(t))
                        elif isinstance(t, ast.Name):
                            aliases.add(t.id)
            hits = []
            for node in walk_no_nested(f.node):
                if isinstance(node, ast.Call) and isinstance(node.func, ast.Attribute) and node.func.attr in MUT:
                    d_ = dotted(node.func.value)
                    if d_ in aliases or d_ in attr_alias:
                        hits.append(node)
                tg = node.targets if isinstance(node, ast.Assign) else [node.target] if isinstance(node, ast.AugAssign) else []
                for t in tg:
                    if isinstance(t, ast.Subscript) and dotted(t.value) in (aliases | attr_alias):
                        hits.append(node)
                    if isinstance(node, ast.AugAssign) and dotted(t) in (aliases | attr_alias):
                        hits.append(node)
            ctx.decide("R15.3", f, hits[0] if hits else f.node, f"{f.qual}:default:{p.name}", "a parameter with a mutable default value is not modified in place", not hits, {"sites": [norm(h)[:80] for h in hits]}, nontrivial=False)
    if n < 6:
        ctx.undecided("R15.3.floor", None, None, "floor:R15.3", f"{n} mutable default parameters found, confirmed floor is 6")


def check_pools(ctx: Ctx):
    prog = ctx.prog
    n = 0
    helpers = verified_map_helpers(prog)
    for f in prog.package_functions():
        # names bound to a pool: `with Pool() as p`, `p = Pool()`
        pool_vars = set()
        for node in walk_no_nested(f.node):
            if isinstance(node, ast.With):
                for it in node.items:
                    ce = it.context_expr
                    if isinstance(ce, ast.Call) and (dotted(ce.func) or "").split(".")[-1] in _POOLS and isinstance(it.optional_vars, ast.Name):
                        pool_vars.add(it.optional_vars.id)
            if isinstance(node, ast.Assign) and isinstance(node.value, ast.Call) and (dotted(node.value.func) or "").split(".")[-1] in _POOLS:
                pool_vars |= {t.id for t in node.targets if isinstance(t, ast.Name)}
        for c in walk_no_nested(f.node):
            if isinstance(c, ast.Call) and isinstance(c.func, ast.Attribute) and isinstance(c.func.value, ast.Name) and c.func.value.id in pool_vars and c.func.attr in _MAPS:
                n += 1
                ok = c.func.attr in ("starmap", "map")
                ctx.decide("R15.5", f, c, f"{f.qual}:{c.func.value.id}.{c.func.attr}", "pool results are collected through an order-preserving API and paired with inputs by position", ok if ok or c.func.attr in ("imap_unordered", "apply_async", "map_async", "starmap_async") else None, {"method": c.func.attr}, nontrivial=False)
            elif isinstance(c, ast.Call) and helpers and f.qual not in helpers:
                tg = prog.resolve_dotted(f.module, c.func) if isinstance(c.func, (ast.Name, ast.Attribute)) else None
                if isinstance(tg, Func) and tg.qual in helpers:
                    n += 1  # work handed to a helper verified order preserving (check_map_helpers)
    if n < 2:
        ctx.undecided("R15.5.floor", None, None, "floor:R15.5", f"{n} pool calls found, confirmed floor is 2")


class _AppFn:
    """the worker function of a parallel map helper: records what it is applied to"""


class _MapHelperInterp(Interp):
    def __init__(self, *a, cpu=4, **kw):
        super().__init__(*a, **kw)
        self.root.cpu = cpu

    def external_call(self, name, args, kwargs, node):
        if name.split(".")[-1] in ("Pool", "NonDaemonicPool", "ThreadPool"):
            if getattr(self.root, "pool_fails", None):
                raise RaiseSignal(self.root.pool_fails, node)
            return Sym("pool")
        if name in ("os.cpu_count", "multiprocessing.cpu_count"):
            return self.root.cpu
        if name.endswith(".starmap") and len(args) == 2 and isinstance(args[1], (list, tuple)):
            return [self.apply(args[0], list(t), {}, node) for t in args[1]]
        if name.endswith(".map") and len(args) == 2 and isinstance(args[1], (list, tuple)):
            return [self.apply(args[0], [t], {}, node) for t in args[1]]
        return super().external_call(name, args, kwargs, node)

    def get_attr(self, base, attr, node):
        if isinstance(base, Sym) and base.name == "pool" and attr in ("starmap", "map"):
            return Sym("pool." + attr)
        return super().get_attr(base, attr, node)

    def apply(self, fv, args, kwargs, node):
        if isinstance(fv, _AppFn):
            return Tagged("app", list(args))
        return super().apply(fv, args, kwargs, node)


_POOLS = ("Pool", "NonDaemonicPool", "ThreadPool", "ProcessPoolExecutor", "ThreadPoolExecutor")
_MAPS = ("starmap", "map", "imap", "imap_unordered", "apply_async", "starmap_async", "map_async", "apply", "submit")


def parallel_map_helpers(prog) -> dict:
    """Package functions that take a worker function and run it over items through a Pool:
    {qual: (Func, func-param, shared-param | None, items-param, workers-param | None)}.
    The roles are read from how the parameters are used (the one that is called or handed to a pool
    method first is the worker function, the one that is iterated is the items), names only break ties."""
    out = {}
    for f in prog.package_functions():
        if f.cls is not None:
            continue
        uses_pool = any(isinstance(n, ast.Call) and (dotted(n.func) or "").split(".")[-1] in _POOLS for n in walk_no_nested(f.node))
        if not uses_pool:
            continue
        names = [p.name for p in f.call_params]
        called, iterated = [], []
        for n in walk_no_nested(f.node):
            if isinstance(n, ast.Call):
                if isinstance(n.func, ast.Name) and n.func.id in names:
                    called.append(n.func.id)
                if isinstance(n.func, ast.Attribute) and n.func.attr in _MAPS and n.args:
                    if isinstance(n.args[0], ast.Name) and n.args[0].id in names:
                        called.append(n.args[0].id)
                    if len(n.args) > 1 and isinstance(n.args[1], ast.Name) and n.args[1].id in names:
                        iterated.append(n.args[1].id)
                if isinstance(n.func, ast.Name) and n.func.id in ("list", "tuple", "enumerate", "zip", "len", "iter") and n.args and isinstance(n.args[0], ast.Name) and n.args[0].id in names:
                    iterated.append(n.args[0].id)
            its = [n.iter] if isinstance(n, ast.For) else [g.iter for g in n.generators] if isinstance(n, (ast.ListComp, ast.GeneratorExp, ast.SetComp, ast.DictComp)) else []
            for it in its:
                if isinstance(it, ast.Name) and it.id in names:
                    iterated.append(it.id)
        # (a helper may pass both on to further helpers: then the conventional names decide)
        fp = next((n for n in names if n.lower() in ("func", "fn", "function", "f", "worker", "callback")), None) or next((n for n in names if n in called), None)
        sp = next((n for n in names if "shared" in n.lower() or n.lower() in ("common_args", "fixed_args")), None)
        wp = next((n for n in names if ("worker" in n.lower() and n != fp) or n.lower() in ("processes", "n_jobs", "n_procs")), None)
        ip = next((n for n in names if n.lower() in ("items", "iterable", "args_list", "tasks", "arguments", "argument_list", "jobs") and n not in (fp, sp, wp)), None) or next((n for n in names if n in iterated and n not in (fp, sp, wp)), None)
        if fp is None or ip is None:
            continue
        out[f.qual] = (f, fp, sp, ip, wp)
    return out


def verify_map_helper(prog, spec):
    """(ok, witness): the helper returns [func(*shared, *item) for item in items], in item order, for
    every worker count (explicit 1, 2, 3, 5 and None with 1, 2, 3 or 16 cores) and 0..5 items."""
    f, fp, sp, ip, wp = spec
    A, B = Sym("SHARED_A"), Sym("SHARED_B")
    for n_items in range(0, 6):
        items = [(Sym(f"x{k}"), Sym(f"y{k}")) for k in range(n_items)]
        want = [Tagged("app", ([A, B] if sp else []) + list(t)) for t in items]
        configs = [(w, 4) for w in (1, 2, 3, 5)] + [(None, c) for c in (1, 2, 3, 16)] if wp else [(None, c) for c in (1, 2, 3, 16)]
        for w, cpu in configs:
            args = {fp: _AppFn(), ip: list(items)}
            if sp:
                args[sp] = (A, B)
            if wp:
                args[wp] = w
            # a helper that guards the start of the pool is also run with a pool that cannot be started
            guarded = any(isinstance(t, ast.Try) and any(isinstance(c, ast.Call) and (dotted(c.func) or "").split(".")[-1] in _POOLS for b in t.body for c in ast.walk(b)) for t in walk_no_nested(f.node))
            for fails in ((None, "OSError") if guarded else (None,)):
                it = _MapHelperInterp(prog, f, dict(args), cpu=cpu)
                it.root.pool_fails = fails
                out = it.run()
                wit0 = {"items": n_items, "workers": w, "cpu_count": cpu, **({"pool_start": fails} if fails else {})}
                if out.kind != "return" or out.decisions:
                    return None, {**wit0, "outcome": f"{out.kind} {out.exc or ''}"}
                got = out.value
                if not (isinstance(got, list) and [repr(x) for x in got] == [repr(x) for x in want]):
                    return False, {**wit0, "got_order": [repr(x.args[-2]) if isinstance(x, Tagged) and len(x.args) >= 2 else repr(x) for x in got] if isinstance(got, list) else repr(got), "want_order": [repr(t[0]) for t in items]}
    return True, None


def verified_map_helpers(prog) -> dict:
    cache = prog.__dict__.get("_verified_map_helpers")
    if cache is None:
        cache = {}
        for q, spec in parallel_map_helpers(prog).items():
            try:
                ok, _ = verify_map_helper(prog, spec)
            except (Undecided, AnchorMissing):
                ok = None
            if ok is True:
                cache[q] = spec
        prog.__dict__["_verified_map_helpers"] = cache
    return cache


def check_map_helpers(ctx: Ctx):
    """R15.5 (helpers): a function that distributes calls over a pool itself (batches, chunks) hands
    the results back in the order of its items, for every number of workers."""
    prog = ctx.prog
    for q, spec in sorted(parallel_map_helpers(prog).items()):
        f = spec[0]
        try:
            ok, wit = verify_map_helper(prog, spec)
        except (Undecided, AnchorMissing) as e:
            ok, wit = None, {"error": str(e)}
        ctx.decide("R15.5", f, f.node, f"{q}:order", "results come back one per item and in item order, whatever the number of worker processes (metrics do not depend on how the work is distributed)", ok, wit)


_LIST_MUT = ("append", "extend", "insert", "remove", "pop", "clear", "sort", "reverse", "update", "setdefault", "popitem")


def _container_ann(ann: str, default=None) -> bool:
    return ann.startswith(("list", "List", "typing.List", "dict", "Dict", "typing.Dict", "Optional[list", "Optional[dict")) or "list[" in ann or "dict[" in ann or isinstance(default, (ast.List, ast.Dict))


def _list_like(p) -> bool:
    # (a default built by a call - InstanceLabelMap(), dict(), defaultdict(list) - is one object made when the
    # function is defined and shared by every call that leaves the parameter out)
    return _container_ann(norm(p.annotation) if p.annotation is not None else "", p.default) or isinstance(p.default, ast.Call)


def _dataclass_fields(cls) -> list:
    """[(name, annotation text)] of a dataclass's fields in declaration order ([] for other classes)"""
    if not any((dotted(d) or (dotted(d.func) if isinstance(d, ast.Call) else "") or "").split(".")[-1] == "dataclass" for d in cls.node.decorator_list):
        return []
    return [(st.target.id, norm(st.annotation)) for st in cls.node.body if isinstance(st, ast.AnnAssign) and isinstance(st.target, ast.Name)]


def list_param_writers(prog) -> dict:
    """{function qual: {parameter name: (site text, site node)}}: list / dict parameters a function modifies in
    place - by a list method, an augmented assignment, an item store - directly, through a local name (or attribute of self)
    bound to the parameter itself (not to a copy), or by handing it to a parameter another function of
    the package modifies.  Flow-sensitive over straight-line code, union at joins; fixpoint over calls."""
    cache = prog.__dict__.get("_list_param_writers")
    if cache is not None:
        return cache
    funcs = [f for f in prog.package_functions() if f.parent is None]
    written: dict = {f.qual: {} for f in funcs}

    def analyse(f):
        found = {}
        alias0 = {p.name: {p.name} for p in f.call_params if _list_like(p)}
        if f.name == "__post_init__" and f.cls is not None and f.self_name:
            # the fields of a dataclass hold the very objects its generated constructor received
            for fn_, ann in _dataclass_fields(f.cls):
                if _container_ann(ann):
                    alias0["self." + fn_] = {fn_}
        if not alias0:
            return found

        def origins(e, alias):
            # the parameters `e` may be (the very object of)
            if isinstance(e, ast.Name):
                return set(alias.get(e.id, ()))
            if isinstance(e, ast.Attribute) and isinstance(e.value, ast.Name) and e.value.id == f.self_name:
                return set(alias.get("self." + e.attr, ()))
            if isinstance(e, ast.Attribute):
                return origins(e.value, alias)  # a component of the object: writing into it changes the object
            if isinstance(e, ast.Call) and isinstance(e.func, ast.Attribute) and not e.args and not e.keywords and origins(e.func.value, alias):
                # an accessor that hands out a component of the object itself (`return self.<attr>`)
                for g in prog.resolve_call(f, e):
                    if isinstance(g, Func) and g.self_name:
                        body = [st for st in g.node.body if not (isinstance(st, ast.Expr) and isinstance(st.value, ast.Constant))]
                        if len(body) == 1 and isinstance(body[0], ast.Return) and isinstance(body[0].value, ast.Attribute) and isinstance(body[0].value.value, ast.Name) and body[0].value.value.id == g.self_name:
                            return origins(e.func.value, alias)
            if isinstance(e, ast.IfExp):
                return origins(e.body, alias) | origins(e.orelse, alias)
            if isinstance(e, ast.NamedExpr):
                return origins(e.value, alias)
            return set()

        def hit(node, e, alias, how):
            for pn in origins(e, alias):
                found.setdefault(pn, (f"{f.loc(node)}: {norm(node)[:70]} ({how})", node))

        def scan(node, alias):
            for c in ast.walk(node):
                if isinstance(c, ast.Call):
                    if isinstance(c.func, ast.Attribute) and c.func.attr in _LIST_MUT:
                        hit(c, c.func.value, alias, "." + c.func.attr + "()")
                    for g in prog.resolve_call(f, c) if any(origins(a, alias) for a in list(c.args) + [k.value for k in c.keywords]) else []:
                        gp = None
                        if isinstance(g, Class):
                            # a dataclass: the generated constructor binds the fields, __post_init__ works on them
                            pi, flds = g.lookup("__post_init__"), _dataclass_fields(g)
                            if g.lookup("__init__") is None and pi is not None and flds:
                                class _P:
                                    def __init__(self, n):
                                        self.name = n
                                g, gp = pi, [_P(n) for n, _ in flds]
                        if not isinstance(g, Func) or g.qual == f.qual:
                            continue
                        gp = gp or g.call_params
                        for pn, (site, _) in written.get(g.qual, {}).items():
                            i = next((k for k, q in enumerate(gp) if q.name == pn), None)
                            actual = None
                            if i is not None and i < len(c.args) and not any(isinstance(a, ast.Starred) for a in c.args[: i + 1]):
                                actual = c.args[i]
                            else:
                                actual = next((k.value for k in c.keywords if k.arg == pn), None)
                            if actual is not None:
                                hit(c, actual, alias, f"handed to {g.qual}({pn}), modified at {site}")

        def block(stmts, alias):
            for st in stmts:
                if isinstance(st, (ast.FunctionDef, ast.AsyncFunctionDef, ast.ClassDef)):
                    continue
                if isinstance(st, ast.Assign):
                    scan(st.value, alias)
                    for t in st.targets:
                        key = t.id if isinstance(t, ast.Name) else ("self." + t.attr) if (isinstance(t, ast.Attribute) and isinstance(t.value, ast.Name) and t.value.id == f.self_name) else None
                        if key is not None:
                            o = origins(st.value, alias)
                            if o:
                                alias[key] = o
                            else:
                                alias.pop(key, None)
                        elif isinstance(t, ast.Subscript):
                            hit(st, t.value, alias, "item store")
                elif isinstance(st, ast.AugAssign):
                    scan(st.value, alias)
                    if isinstance(st.target, ast.Name) and isinstance(st.op, (ast.Add, ast.Mult)):
                        hit(st, st.target, alias, "augmented assignment extends the list in place")
                    elif isinstance(st.target, ast.Subscript):
                        hit(st, st.target.value, alias, "item store")
                elif isinstance(st, ast.Delete):
                    for t in st.targets:
                        if isinstance(t, ast.Subscript):
                            hit(st, t.value, alias, "del item")
                elif isinstance(st, (ast.If, ast.For, ast.While, ast.With, ast.Try)):
                    for fld in ("test", "iter"):
                        if getattr(st, fld, None) is not None:
                            scan(getattr(st, fld), alias)
                    if isinstance(st, ast.With):
                        for it in st.items:
                            scan(it.context_expr, alias)
                    branches = [getattr(st, "body", []), getattr(st, "orelse", []), getattr(st, "finalbody", [])] + [h.body for h in getattr(st, "handlers", [])]
                    outs = []
                    for b in branches:
                        a2 = {k: set(v) for k, v in alias.items()}
                        for _ in range(2 if isinstance(st, (ast.For, ast.While)) else 1):
                            block(b, a2)
                        outs.append(a2)
                    for a2 in outs:
                        for k, v in a2.items():
                            alias.setdefault(k, set()).update(v)
                else:
                    scan(st, alias)

        block(f.node.body, {k: set(v) for k, v in alias0.items()})
        return found

    for _ in range(8):
        changed = False
        for f in funcs:
            w = analyse(f)
            if set(w) != set(written[f.qual]):
                written[f.qual] = w
                changed = True
        if not changed:
            break
    prog.__dict__["_list_param_writers"] = written
    return written


def check_ctor_purity(ctx: Ctx):
    """R15.3 (constructors, whole package): building an object does not modify a list or dict it is given -
    neither in __init__ nor in a dataclass's __post_init__, directly or through the functions they call.
    (What is handed in stays the caller's: per-instance score dicts are read again after records are built
    from them, metric lists are shared between evaluators.)"""
    prog = ctx.prog
    written = list_param_writers(prog)
    n = 0
    for f in prog.package_functions():
        if f.parent is not None or f.cls is None or f.name not in ("__init__", "__post_init__"):
            continue
        n += 1
        for pn, (site, node) in sorted(written.get(f.qual, {}).items()):
            ctx.violated("R15.3", f, node, f"{f.qual}:{pn}:in-place", "a constructor does not modify a list / dict argument in place", {"argument": pn, "modified_at": site})
    ctx.ok("R15.3", None, None, "constructor-purity:package", f"{n} constructors: none modifies a container argument in place", None, nontrivial=False)
    if n < 20:
        ctx.undecided("R15.3.floor", None, None, "floor:R15.3c", f"{n} constructors analysed, confirmed floor is 20")


def check_kernel_purity(ctx: Ctx):
    """R15.8 (kernels): the functions registered as metric kernels (and the helpers they call) do not write in place
    into the masks they receive.  They are called through the registry (an indirect call the effect analysis of
    R15.8 cannot follow), several metrics are computed on one pair of masks, and the global metrics share one
    binarised copy: a kernel that modifies its argument changes what the next metric sees."""
    from .aliasflow import AliasFlow
    from .common import metric_registry

    prog = ctx.prog
    af = prog.__dict__.get("_aliasflow")
    if af is None:
        af = prog.__dict__["_aliasflow"] = AliasFlow(prog)
    n = 0
    for member, rec in sorted(metric_registry(prog).items()):
        k = rec.get("kernel")
        if k is None:
            continue
        n += 1
        # the kernel itself and the package functions it calls (wrapper -> core function)
        fam, work = {k.qual: k}, [k]
        for _ in range(2):
            nxt = []
            for g in work:
                for c in prog.calls_in(g):
                    for h in prog.resolve_call(g, c):
                        if isinstance(h, Func) and h.qual not in fam and h.module.rel.startswith("metrics"):
                            fam[h.qual] = h
                            nxt.append(h)
            work = nxt
        for q, g in sorted(fam.items()):
            wr = af.written.get(q, {})
            names = [p.name for p in g.call_params]
            for i, root in sorted(wr.items()):
                ctx.violated("R15.8", g, g.node, f"Metric.{member}:{q}:{names[i] if i < len(names) else i}:in-place", "a metric kernel does not write into the mask it is given", {"written_at": root[0] if root else None})
    if n:
        ctx.ok("R15.8", None, None, "metric-kernels:pure", f"{n} registered kernels: none writes into a mask it receives", None, nontrivial=False)


def check_shared_defaults(ctx: Ctx):
    """R15.3 (shared defaults): a default argument that is an object - a list / dict / set literal or something
    built by a call, made once when the function is defined - is not modified in place, neither directly nor
    through a component an accessor hands out nor by a function it is passed to (it would carry one call's
    data into the next: what is evaluated later would depend on what was evaluated before)."""
    prog = ctx.prog
    written = list_param_writers(prog)
    n = 0
    for f in prog.package_functions():
        if f.parent is not None:
            continue
        for prm in f.call_params:
            if not isinstance(prm.default, (ast.List, ast.Dict, ast.Set, ast.Call, ast.ListComp, ast.DictComp)):
                continue
            n += 1
            w = written.get(f.qual, {}).get(prm.name)
            if w is not None:
                ctx.violated("R15.3", f, w[1], f"{f.qual}:default:{prm.name}:shared-object", "a default argument that is an object shared by all calls is not modified in place", {"default": norm(prm.default)[:60], "modified_at": w[0]})
    ctx.ok("R15.3", None, None, "shared-defaults:package", f"{n} object-valued default arguments: none is modified in place", None, nontrivial=False)


def check_state_through_callees(ctx: Ctx):
    """R15.6 (callees): a method other than the constructor does not hand a list it keeps in an attribute -
    the evaluator's metric lists, its groups - to a function that modifies that parameter in place (the
    list is the object's configuration; with default arguments it is shared by every object of the process)."""
    prog = ctx.prog
    written = list_param_writers(prog)
    n_writers = sum(1 for w in written.values() if w)
    n = 0
    for f in prog.package_functions():
        if f.parent is not None or f.cls is None or not f.self_name or f.name == "__init__":
            continue
        # local names bound to an attribute of self
        selfattr = {}
        for node in walk_no_nested(f.node):
            if isinstance(node, ast.Assign) and isinstance(node.value, ast.Attribute) and isinstance(node.value.value, ast.Name) and node.value.value.id == f.self_name:
                for t in node.targets:
                    if isinstance(t, ast.Name):
                        selfattr[t.id] = node.value.attr
        for c in walk_no_nested(f.node):
            if not isinstance(c, ast.Call):
                continue
            acts = [(i, a, None) for i, a in enumerate(c.args)] + [(None, k.value, k.arg) for k in c.keywords if k.arg]
            state = [(i, a, kw, (a.attr if isinstance(a, ast.Attribute) else selfattr.get(a.id))) for i, a, kw in acts if (isinstance(a, ast.Attribute) and isinstance(a.value, ast.Name) and a.value.id == f.self_name) or (isinstance(a, ast.Name) and a.id in selfattr)]
            if not state:
                continue
            for g in prog.resolve_call(f, c):
                if not isinstance(g, Func) or not written.get(g.qual):
                    continue
                gp = g.call_params
                for i, a, kw, attr in state:
                    pn = kw if kw else (gp[i].name if i is not None and i < len(gp) else None)
                    if pn in written[g.qual]:
                        n += 1
                        ctx.violated("R15.6", f, c, f"{f.qual}:{attr}->{g.qual}({pn})", "a list kept in an attribute is not handed to a function that modifies it in place (the evaluator's metric lists and saved configuration do not change through use)", {"attribute": attr, "modified_at": written[g.qual][pn][0]})
    ctx.ok("R15.6", None, None, "state-through-callees:package", f"no method hands a list attribute to one of the {n_writers} functions that modify a list parameter in place", {"list_writers": sorted(q for q, w in written.items() if w)[:12]}, nontrivial=False)


def _use_reachable(prog) -> set:
    """quals of the functions reachable (resolved calls, transitively) from what 'use' of the package runs:
    evaluation entry points, matching / approximation, the aggregator's methods, statistics queries, saving and
    loading of configurations.  Constructors are not roots: what a constructor (and the private helpers only it and
    editing methods call) writes is the object being built; what building one object does to ANOTHER is decided
    by R15.3 on abstract runs."""
    cache = prog.__dict__.get("_use_reachable")
    if cache is not None:
        return cache
    roots = []
    for f in prog.package_functions():
        if f.parent is not None:
            continue
        n = f.name
        if n in ("__call__",) or n.startswith(("evaluate", "panoptic_evaluate", "match_instances", "_match_instances", "approximate_instances", "_approximate_instances", "make_statistic", "get", "calculate", "to_dict", "save_to_config", "load_from_config", "_yaml_repr", "to_yaml", "from_yaml", "print_summary", "make_curve", "make_autc")) or (f.cls is None and not n.startswith("_")):
            roots.append(f)
    seen = {f.qual for f in roots}
    work = list(roots)
    while work:
        g = work.pop()
        for c in prog.calls_in(g):
            try:
                hs = prog.resolve_call(g, c)
            except Exception:
                hs = []
            for h in hs:
                if isinstance(h, Func) and h.qual not in seen:
                    seen.add(h.qual)
                    work.append(h)
    prog.__dict__["_use_reachable"] = seen
    return seen


def _is_keyed_memo(m, node) -> bool:
    """self.<table>[key] = value where the value is computed from nothing but what the key is computed from (and
    never from the table's own earlier content): a lookup table filled on demand.  A counter or an accumulator
    (value derived from the table itself) is not one."""
    if not (isinstance(node, ast.Assign) and len(node.targets) == 1 and isinstance(node.targets[0], ast.Subscript)):
        return False
    t = node.targets[0]
    if not (isinstance(t.value, ast.Attribute) and isinstance(t.value.value, ast.Name) and t.value.value.id == m.self_name):
        return False
    table = t.value.attr
    defs = {}
    for st in walk_no_nested(m.node):
        if isinstance(st, ast.Assign) and len(st.targets) == 1 and isinstance(st.targets[0], ast.Name):
            defs.setdefault(st.targets[0].id, []).append(st.value)

    def reads_table(e):
        return any(isinstance(x, ast.Attribute) and x.attr == table and isinstance(x.value, ast.Name) and x.value.id == m.self_name for x in ast.walk(e))

    def local_uses(e):
        return {x.id for x in ast.walk(e) if isinstance(x, ast.Name) and (x.id in defs or x.id in {p.name for p in m.params}) and x.id != m.self_name}

    def self_reads(e):
        return {x.attr for x in ast.walk(e) if isinstance(x, ast.Attribute) and isinstance(x.value, ast.Name) and x.value.id == m.self_name and x.attr != table}

    key_uses, key_self = set(local_uses(t.slice)), set(self_reads(t.slice))
    for _ in range(3):
        for n_ in list(key_uses):
            for d in defs.get(n_, []):
                key_uses |= local_uses(d)
                key_self |= self_reads(d)
    # the value: through its local definitions, lookups of the same table (the miss that precedes the store) aside
    val_uses, val_self = set(), set()
    todo = [node.value]
    seen = set()
    while todo:
        e = todo.pop()
        if reads_table(e):
            if isinstance(e, ast.Call) and isinstance(e.func, ast.Attribute) and e.func.attr == "get" and reads_table(e.func.value) and len(e.args) == 1:
                continue  # `v = self.table.get(key)`: the lookup whose miss leads here
            return False
        val_self |= self_reads(e)
        for n_ in local_uses(e):
            if n_ in seen:
                continue
            seen.add(n_)
            if n_ in key_uses:
                val_uses.add(n_)
                continue
            ds = defs.get(n_)
            if not ds:
                return False  # a parameter (or loop variable) the key does not capture
            todo.extend(ds)
    return val_self <= key_self


def _stale_derived_state(cnode) -> list:
    """(method name, written attribute, stale attribute, statement) for a class body: an attribute the constructor
    (or a method it calls) derives from other attributes of the object, and a later method that rewrites one of those
    without recomputing the derived one"""
    methods = {n.name: n for n in cnode.body if isinstance(n, (ast.FunctionDef, ast.AsyncFunctionDef))}

    def selfname(fn):
        a = fn.args.posonlyargs + fn.args.args
        return a[0].arg if a else None

    def self_calls(fn):
        sn = selfname(fn)
        return {c.func.attr for c in ast.walk(fn) if isinstance(c, ast.Call) and isinstance(c.func, ast.Attribute) and isinstance(c.func.value, ast.Name) and c.func.value.id == sn and c.func.attr in methods}

    def closure(names):
        seen, todo = set(), list(names)
        while todo:
            m = todo.pop()
            if m in seen or m not in methods:
                continue
            seen.add(m)
            todo += list(self_calls(methods[m]))
        return seen

    def writes(fn):
        sn = selfname(fn)
        out = []
        for st in ast.walk(fn):
            if isinstance(st, (ast.Assign, ast.AnnAssign)):
                for t in st.targets if isinstance(st, ast.Assign) else [st.target]:
                    if isinstance(t, ast.Attribute) and isinstance(t.value, ast.Name) and t.value.id == sn and getattr(st, "value", None) is not None:
                        out.append((t.attr, st))
        return out

    if "__init__" not in methods:
        return []
    init_side = closure(["__init__"])
    # derived attributes and what they are computed from, with the methods that compute them
    dep, computed_in = {}, {}
    for m in init_side:
        fn = methods[m]
        sn = selfname(fn)
        for attr, st in writes(fn):
            reads = {x.attr for x in ast.walk(st.value) if isinstance(x, ast.Attribute) and isinstance(x.value, ast.Name) and x.value.id == sn and isinstance(x.ctx, ast.Load) and x.attr != attr and x.attr not in methods}
            if reads:
                dep.setdefault(attr, set()).update(reads)
                computed_in.setdefault(attr, set()).add(m)
    out = []
    for m, fn in methods.items():
        if m in init_side:
            continue
        reach = closure([m])
        written_here = {a for k in reach for a, _ in writes(methods[k])}
        # an entry of the derived container updated in place counts as keeping it current
        for k in reach:
            sn_ = selfname(methods[k])
            for x in ast.walk(methods[k]):
                if isinstance(x, ast.Subscript) and isinstance(x.ctx, ast.Store) and isinstance(x.value, ast.Attribute) and isinstance(x.value.value, ast.Name) and x.value.value.id == sn_:
                    written_here.add(x.value.attr)
                if isinstance(x, ast.Call) and isinstance(x.func, ast.Attribute) and x.func.attr in ("update", "setdefault", "append", "extend", "insert", "clear", "pop") and isinstance(x.func.value, ast.Attribute) and isinstance(x.func.value.value, ast.Name) and x.func.value.value.id == sn_:
                    written_here.add(x.func.value.attr)
        for attr, st in writes(fn):
            for b, srcs in dep.items():
                if attr in srcs and b not in written_here and not (computed_in[b] & reach):
                    out.append((m, attr, b, st))
    return out


def check_derived_state(ctx: Ctx):
    """R15.10: an attribute computed from other attributes when the object is built (bound argument sets, lookup
    tables, ...) is recomputed by every method that later rewrites one of those attributes - otherwise what the
    object does and what it saves (its settings) drift apart."""
    prog = ctx.prog
    probe = ast.parse("class A:\n    def __init__(self, x):\n        self._x = x\n        self._bind()\n    def _bind(self):\n        self._kw = {'x': self._x}\n    def set_x(self, x):\n        self._x = x\n        self._bind()\n    def old_set_x(self, x):\n        self._x = x\n")
    got = [(m, a, b) for m, a, b, _ in _stale_derived_state(probe.body[0])]
    if got != [("old_set_x", "_x", "_kw")]:
        ctx.undecided("R15.10.floor", None, None, "floor:R15.10", f"the built-in example gives {got}: rule broken")
        return
    n = hits = 0
    for c in sorted(prog.classes.values(), key=lambda c: c.qual):
        n += 1
        for m, attr, b, st in _stale_derived_state(c.node):
            hits += 1
            f = c.methods.get(m)
            ctx.violated("R15.10", f, st, f"{c.qual}.{m}:self.{attr}->{b}", f"self.{b} is computed from self.{attr} when the object is built; this method rewrites self.{attr} without recomputing it (the object goes on using the old value while its settings show the new one)", {"stmt": norm(st)[:80]})
    if hits == 0:
        ctx.ok("R15.10", None, None, "package:derived-state", f"{n} classes scanned: every rewrite of an attribute recomputes what was derived from it", None, nontrivial=False)


def _late_binding_closures(tree) -> list:
    """(closure node, loop variable, loop node): a lambda / nested def made in the body of a for loop that reads the loop
    variable when it is CALLED (no default argument binds it) and is kept for later - stored, appended, returned - so
    that every closure made by the loop sees the last item.  Closures in which the loop variable only reaches the
    text of an exception / message are left out (they misreport, they do not misbehave)."""
    out = []
    for loop in ast.walk(tree):
        if not isinstance(loop, (ast.For, ast.AsyncFor)):
            continue
        lvars = {n.id for n in ast.walk(loop.target) if isinstance(n, ast.Name)}
        if not lvars:
            continue
        parents = {}
        for st in loop.body:
            for n in ast.walk(st):
                for ch in ast.iter_child_nodes(n):
                    parents[id(ch)] = n
        for st in loop.body:
            for fn in ast.walk(st):
                if not isinstance(fn, (ast.Lambda, ast.FunctionDef)):
                    continue
                a = fn.args
                own = {x.arg for x in a.posonlyargs + a.args + a.kwonlyargs} | ({a.vararg.arg} if a.vararg else set()) | ({a.kwarg.arg} if a.kwarg else set())
                body_nodes = [fn.body] if isinstance(fn, ast.Lambda) else fn.body
                reads = []
                for b in body_nodes:
                    for n in ast.walk(b):
                        if isinstance(n, ast.Name) and isinstance(n.ctx, ast.Load) and n.id in lvars and n.id not in own:
                            reads.append(n)
                if not reads:
                    continue

                def only_in_message(n):
                    cur = n
                    inner = {}
                    for b in body_nodes:
                        for x in ast.walk(b):
                            for ch in ast.iter_child_nodes(x):
                                inner[id(ch)] = x
                    while id(cur) in inner:
                        cur = inner[id(cur)]
                        if isinstance(cur, ast.JoinedStr):
                            return True
                        if isinstance(cur, ast.Call) and (dotted(cur.func) or "").split(".")[-1].endswith(("Exception", "Error", "Warning", "warn")):
                            return True
                    return False

                if all(only_in_message(n) for n in reads):
                    continue
                # kept for later?  a lambda that is an argument of a call made right here (sorted(key=...), map, max) is used up
                par = parents.get(id(fn))
                if isinstance(fn, ast.Lambda):
                    kept = False
                    cur, p_ = fn, par
                    while p_ is not None:
                        if isinstance(p_, ast.Call) and cur is not p_.func:
                            callee = (dotted(p_.func) or "").split(".")[-1]
                            kept = callee in ("partial", "append", "setdefault", "update", "add", "insert", "register")
                            if not kept:
                                break
                        if isinstance(p_, (ast.Assign, ast.AnnAssign, ast.Return, ast.Yield, ast.Dict, ast.List, ast.Tuple)) and not isinstance(p_, ast.Call):
                            if isinstance(p_, (ast.Assign, ast.AnnAssign, ast.Return, ast.Yield)):
                                kept = True
                                break
                        cur, p_ = p_, parents.get(id(p_))
                    if not kept:
                        continue
                else:
                    # a nested def: kept if its name is used other than by calling it in the loop body
                    uses = [n for st2 in loop.body for n in ast.walk(st2) if isinstance(n, ast.Name) and n.id == fn.name and isinstance(n.ctx, ast.Load)]
                    if not any(not (isinstance(parents.get(id(u)), ast.Call) and parents[id(u)].func is u) for u in uses):
                        continue
                out.append((fn, sorted({n.id for n in reads})[0], loop))
    return out


def check_late_binding(ctx: Ctx):
    """R15.11 (frame condition of every rule that reads a function table or alias table off the source): closures made
    in a loop and kept for later bind the loop variable when called - all of them then act on the last item."""
    prog = ctx.prog
    probe = ast.parse("def f(table, ns):\n    for old, func in table.items():\n        ns[old] = lambda *a, **k: func(*a, **k)\n\ndef g(table, ns):\n    for old, func in table.items():\n        ns[old] = lambda *a, _f=func, **k: _f(*a, **k)\n\ndef h(ms, out):\n    for m in ms:\n        out[m] = lambda r: KeyError(f'{m} not set')\n        xs = sorted(ms, key=lambda x: x == m)\n")
    got = [len(_late_binding_closures(fn)) for fn in probe.body]
    if got != [1, 0, 0]:
        ctx.undecided("R15.11.floor", None, None, "floor:R15.11", f"the built-in examples give {got}: rule broken")
        return
    hits = 0
    n_mod = 0
    for m in prog.modules.values():
        n_mod += 1
        for fn, var, loop in _late_binding_closures(m.tree):
            hits += 1
            f = next((x for x in prog.functions.values() if x.module is m and x.node.lineno <= fn.lineno <= getattr(x.node, "end_lineno", x.node.lineno)), None)
            ctx.violated("R15.11", f, fn, f"{m.name}:{getattr(fn, 'lineno', 0)}:{var}", f"a closure made in a loop and kept for later reads the loop variable `{var}` when it is called: every closure the loop made acts on the last item", {"closure": norm(fn)[:100]})
    if hits == 0:
        ctx.ok("R15.11", None, None, "package:late-binding-closures", f"{n_mod} modules scanned: no stored closure reads a loop variable late", None, nontrivial=False)


def check_state_writers(ctx: Ctx):
    prog = ctx.prog
    roots = [prog.cls("utils.config:SupportsConfig")]
    classes = []
    for r in roots:
        classes += r.all_subclasses()
    # the aggregator is shared by worker threads and re-created in worker processes: whatever it
    # would remember between calls is per process and stale in every other one
    agg_ = prog.cls("panoptica_aggregator:Panoptica_Aggregator")
    classes.append(agg_)
    # ... and so are the helper objects it keeps (classes of its own module that it instantiates)
    made = {(dotted(c_.func) or "").split(".")[-1] for m_ in agg_.methods.values() for c_ in ast.walk(m_.node) if isinstance(c_, ast.Call)}
    classes += [k for k in prog.classes.values() if k.module is agg_.module and k is not agg_ and k.name in made and k not in classes]
    n = 0
    agg_cache = False
    def _scratch_of(m):
        """attributes the method binds to a fresh empty value (at its top level) before it reads them: per-call
        scratch state - whatever an earlier call left there is gone before it could matter"""
        scratch, seen_read = set(), set()
        for st in m.node.body:
            if isinstance(st, (ast.Assign, ast.AnnAssign)) and getattr(st, "value", None) is not None:
                v_ = st.value
                fresh = (isinstance(v_, (ast.Dict, ast.List, ast.Set, ast.Tuple)) and not (getattr(v_, "keys", None) or getattr(v_, "elts", None))) or (isinstance(v_, ast.Constant) and v_.value in (None, 0, False, "")) or (isinstance(v_, ast.Call) and not v_.args and not v_.keywords and dotted(v_.func) in ("dict", "list", "set", "defaultdict", "collections.defaultdict", "OrderedDict"))
                tg_ = st.targets if isinstance(st, ast.Assign) else [st.target]
                for t_ in tg_:
                    if fresh and isinstance(t_, ast.Attribute) and isinstance(t_.value, ast.Name) and t_.value.id == m.self_name and t_.attr not in seen_read:
                        scratch.add(t_.attr)
            for x_ in ast.walk(st):
                if isinstance(x_, ast.Attribute) and isinstance(x_.value, ast.Name) and x_.value.id == m.self_name and isinstance(x_.ctx, ast.Load):
                    seen_read.add(x_.attr)
        return scratch

    for c in sorted(set(classes), key=lambda c: c.qual):
        # scratch attributes of the class: reset first by one method (the owner); its private helpers work on them too
        class_scratch = {}
        for m0 in c.methods.values():
            if m0.name != "__init__" and m0.self_name:
                helpers = {n.func.attr for n in ast.walk(m0.node) if isinstance(n, ast.Call) and isinstance(n.func, ast.Attribute) and isinstance(n.func.value, ast.Name) and n.func.value.id == m0.self_name and n.func.attr.startswith("_")}
                for a_ in _scratch_of(m0):
                    class_scratch.setdefault(a_, set()).update({m0.name} | helpers)
        for m in c.methods.values():
            if m.name == "__init__" or not m.self_name:
                continue
            scratch = {a_ for a_, users in class_scratch.items() if m.name in users}
            # local names for a container the object keeps: `row = self.<attr>` where <attr> is stored on the object or
            # computed once (cached_property) - a plain property builds its value anew on every read
            kept_alias = {}
            for st_ in walk_no_nested(m.node):
                if isinstance(st_, ast.Assign) and len(st_.targets) == 1 and isinstance(st_.targets[0], ast.Name) and isinstance(st_.value, ast.Attribute) and isinstance(st_.value.value, ast.Name) and st_.value.value.id == m.self_name:
                    meth = c.lookup(st_.value.attr)
                    if meth is None or getattr(meth, "is_cached_property", False):
                        kept_alias[st_.targets[0].id] = st_.value
            for nm_ in list(kept_alias):
                if sum(1 for st_ in walk_no_nested(m.node) if isinstance(st_, (ast.Assign, ast.AugAssign, ast.AnnAssign, ast.For)) and any(isinstance(x, ast.Name) and x.id == nm_ and isinstance(x.ctx, ast.Store) for x in ast.walk(st_.targets[0] if isinstance(st_, ast.Assign) else st_.target))) != 1:
                    del kept_alias[nm_]  # rebound elsewhere: not tracked
            for node in walk_no_nested(m.node):
                tgts = node.targets if isinstance(node, ast.Assign) else [node.target] if isinstance(node, (ast.AugAssign, ast.AnnAssign)) else []
                hit = None
                for t in tgts:
                    if isinstance(t, ast.Subscript) and isinstance(t.value, ast.Name) and t.value.id in kept_alias:
                        hit = kept_alias[t.value.id]  # <alias>[key] = ...: an entry of a container the object keeps
                    for x in ast.walk(t):
                        if isinstance(x, ast.Attribute) and isinstance(x.value, ast.Name) and x.value.id == m.self_name and isinstance(x.ctx, ast.Store):
                            hit = x
                    if hit is None and isinstance(t, ast.Attribute) and _rooted_at_self(t, m.self_name):
                        hit = t  # self.<settings>.<field> = ...: state of an object this one owns
                    if hit is None and isinstance(t, ast.Subscript) and isinstance(t.value, ast.Attribute) and isinstance(t.value.value, ast.Name) and t.value.value.id == m.self_name:
                        hit = t.value  # self.<table>[key] = ...: an entry of a table the object keeps
                if isinstance(node, ast.Call) and isinstance(node.func, ast.Attribute) and node.func.attr in ("append", "extend", "update", "clear", "pop", "insert", "remove", "setdefault") and isinstance(node.func.value, ast.Attribute) and isinstance(node.func.value.value, ast.Name) and node.func.value.value.id == m.self_name:
                    hit = node.func.value
                if isinstance(node, ast.Call) and isinstance(node.func, ast.Attribute) and node.func.attr in ("append", "extend", "update", "clear", "pop", "insert", "remove", "setdefault", "sort", "reverse") and isinstance(node.func.value, ast.Name) and node.func.value.id in kept_alias:
                    hit = kept_alias[node.func.value.id]
                if hit is not None and (hit.attr if isinstance(hit, ast.Attribute) and isinstance(hit.value, ast.Name) else None) in scratch:
                    n += 1
                    continue
                if hit is not None and m.qual not in _use_reachable(prog) and m.qual not in SETTER_TABLE and not is_pure_setter(m):
                    # an editing method of the object's public interface (or its private helper) that no evaluation,
                    # matching, saving or loading path calls: changing the object is what it is for - "through use"
                    # (evaluating, constructing other objects, saving) nothing calls it
                    n += 1
                    ctx.ok("R15.6", m, node, f"{m.qual}:self.{hit.attr}", "state is changed only by the constructor, setters, and editing methods that no evaluation / save / load path calls", {"stmt": norm(node)[:80], "reason": "editing method outside every evaluation path"}, nontrivial=False)
                    continue
                if hit is not None and _is_keyed_memo(m, node):
                    n += 1
                    ctx.ok("R15.6", m, node, f"{m.qual}:self.{hit.attr}", "a lookup table filled on demand: the stored value is computed from what its key is computed from, never from the table's earlier content", {"stmt": norm(node)[:80], "reason": "keyed memo"}, nontrivial=False)
                    continue
                if hit is not None:
                    n += 1
                    ok = m.qual in SETTER_TABLE or is_pure_setter(m)
                    verdict = True if ok else False
                    why = None
                    if not ok:
                        # definite only if what is remembered comes from the call's own arguments (then a
                        # later call can see an earlier call's input); a cache of constants / file state /
                        # fresh objects may be coherent - that is not decided here
                        params = {p.name for p in m.params} - {m.self_name}
                        tainted = set(params)
                        for _ in range(3):
                            for st in walk_no_nested(m.node):
                                if isinstance(st, ast.Assign) and any(isinstance(x, ast.Name) and x.id in tainted for x in ast.walk(st.value)):
                                    for t in st.targets:
                                        for x in ast.walk(t):
                                            if isinstance(x, ast.Name):
                                                tainted.add(x.id)
                        val = node.value if isinstance(node, (ast.Assign, ast.AugAssign, ast.AnnAssign)) else node
                        uses = {x.id for x in ast.walk(val) if isinstance(x, ast.Name)} if val is not None else set()
                        if not (uses & tainted):
                            verdict = None
                            why = "state written outside __init__ that does not come from the call's arguments (a cache?): whether later calls and other processes see it coherently is not decided"
                            if c.name == "Panoptica_Aggregator":
                                # for the aggregator exactly that question is decided on histories of
                                # worker copies (R16.8), which is run below whenever such state exists
                                verdict = True
                                why = "cache-like state of the aggregator: coherence across worker copies decided by R16.8"
                                agg_cache = True
                    ctx.decide("R15.6", m, node, f"{m.qual}:self.{hit.attr}", "configuration objects change their state only in __init__, in pure setters (self.x = <argument>) and in the tabled memo", verdict, {"stmt": norm(node)[:80], "reason": SETTER_TABLE.get(m.qual) or ("pure setter" if ok else why)}, nontrivial=False)
    if agg_cache:
        from . import c16 as _c16

        try:
            _c16.check_worker_copies(ctx)
        except (Undecided, AnchorMissing) as e:
            ctx.undecided("R16.8", None, None, "R16.8:check_worker_copies", f"{type(e).__name__}: {e}")
    if n < 4:
        ctx.undecided("R15.6.floor", None, None, "floor:R15.6", f"{n} attribute writers outside __init__ found, confirmed floor is 4 (the tabled setters)")


ALIAS_TABLE: dict = {
    # "<function qual>:<name>": reason  - in-place writes that are part of the function's contract
}


def check_param_aliasing(ctx: Ctx):
    """R15.8 (ALIAS/EFFECT as dataflow): no function of the package writes in place into an
    array that may be (a view of) one it received from its caller - neither by a subscript
    store, an augmented assignment, out=..., np.copyto/put/place, nor .sort()/.fill()/....
    May-alias facts are propagated flow-sensitively through assignments, views
    (slices, .T, reshape, np.asarray, astype(copy=False), attributes of a received object) and,
    with return summaries, through calls of package functions."""
    from .aliasflow import AliasFlow

    af = AliasFlow(ctx.prog)
    n_funcs = 0
    for f in ctx.prog.package_functions():
        if f.parent is not None or f.module.rel.startswith("panoptica_statistics"):
            continue
        n_funcs += 1
        for node, name, how, org, root in af.effects.get(f.qual, []):
            key = f"{f.qual}:{name}"
            ok = key in ALIAS_TABLE
            params = [p.name for p in f.call_params]
            src = [params[i] if 0 <= i < len(params) else ("module-level state" if i == -2 else "self") for i in org]
            if -2 in org:
                ctx.decide("R15.7", f, node, f"{f.qual}:{name}:{how}", "no in-place write into a module-level container (it is shared by every object of the process)", ok or f.qual in GLOBAL_TABLE, {"statement": norm(node)[:90], "aliases": src})
                continue
            ctx.decide("R15.8", f, node, f"{f.qual}:{name}:{how[:60]}", "no in-place write into an array that may be the caller's", ok, {"statement": norm(node)[:90], "may_alias_parameter": src, "written_at": root[0] if root else None, "reason": ALIAS_TABLE.get(key)})
    ctx.ok("R15.8", None, None, "alias-effect:package", f"may-alias/effect analysis of {n_funcs} functions: no unlisted in-place write into a received array", {"functions": n_funcs, "return_summaries": sum(1 for v in af.summary.values() if v)}, nontrivial=False)
    if n_funcs < 100:
        ctx.undecided("R15.8.floor", None, None, "floor:R15.8", f"{n_funcs} functions analysed, confirmed floor is 100")


def check_globals(ctx: Ctx):
    prog = ctx.prog
    n = 0
    for f in prog.package_functions():
        if f.module.rel.startswith("panoptica_statistics"):
            continue
        m = f.module
        for node in walk_no_nested(f.node):
            hit = None
            idem = False
            if isinstance(node, (ast.Assign, ast.AugAssign, ast.AnnAssign)):
                # rebinding a module-level name declared global in this function
                gl = {n for g in walk_no_nested(f.node) if isinstance(g, ast.Global) for n in g.names}
                tgs = node.targets if isinstance(node, ast.Assign) else [node.target]
                for t in tgs:
                    if isinstance(t, ast.Name) and t.id in gl:
                        hit = norm(node)[:60]
            if isinstance(node, ast.Call) and isinstance(node.func, ast.Attribute) and node.func.attr in ("append", "extend", "update", "clear", "pop", "insert", "remove", "setdefault", "add") and isinstance(node.func.value, ast.Name) and node.func.value.id in m.assigns and node.func.value.id not in {p.name for p in f.params}:
                hit = norm(node)[:60]
                idem = _idempotent_insert(f, node)
            tg = node.targets if isinstance(node, ast.Assign) else []
            for t in tg:
                if isinstance(t, ast.Subscript) and dotted(t.value) in ("os.environ",):
                    hit = norm(node)[:60]
                if isinstance(t, ast.Subscript) and isinstance(t.value, ast.Name) and t.value.id in m.assigns and t.value.id not in _locals(f):
                    hit = norm(node)[:60]
            if hit and not idem and isinstance(node, ast.Call) and node.func.attr in ("add", "append"):
                # a registry that only decides whether a warning is repeated carries no value into any result
                if _report_only_registry(prog, m, node.func.value.id):
                    idem = True
            if hit:
                n += 1
                ok = f.qual in GLOBAL_TABLE or idem
                ctx.decide("R15.7", f, node, f"{f.qual}:{hit}", "module-level state is written at run time only by idempotent insertions (`if v not in L: L.append(v)`) or tabled sites", ok, {"reason": GLOBAL_TABLE.get(f.qual) or ("idempotent insertion" if idem else None)}, nontrivial=False)
    if n < 2:
        ctx.undecided("R15.7.floor", None, None, "floor:R15.7", f"{n} global writes found, confirmed floor is 2")


def _locals(f: Func) -> set:
    return {n.id for n in walk_no_nested(f.node) if isinstance(n, ast.Name) and isinstance(n.ctx, ast.Store)} | {p.name for p in f.params}


def check_metric_call_history(ctx: Ctx):
    """R15.9: the metric objects are module-level singletons shared by every evaluation in the process.
    A call with per-call options must leave nothing behind: the arguments a later plain call hands to
    the metric's kernel are those a plain call on an untouched metric object hands over."""
    from .arrdom import AArr
    from .c06 import SelInterp

    prog = ctx.prog
    mcall = prog.func("metrics.metrics:_Metric.__call__")
    mv_cls = mcall.cls
    has_varkw = mcall.node.args.kwarg is not None

    def plain_args():
        args = {}
        for p in mcall.call_params:
            n = p.name.lower()
            if n.startswith("ref") and "idx" not in n:
                args[p.name] = AArr("REF", False)
            elif n.startswith("pred") and "idx" not in n:
                args[p.name] = AArr("PRED", False)
            elif n.startswith("ref"):
                args[p.name] = 5
            elif n.startswith("pred"):
                args[p.name] = 7
        return args

    def run(mv, extra):
        a = plain_args()
        it = SelInterp(prog, mcall, a, self_obj=mv)
        if extra:
            it.env.update({})
        # keyword options travel in the **kwargs parameter
        if has_varkw:
            it.env[mcall.node.args.kwarg.arg] = dict(extra)
        if mcall.node.args.vararg is not None:
            it.env[mcall.node.args.vararg.arg] = ()
        out = it.run()
        calls = it.root.inner_calls
        if out.kind != "return" or len(calls) != 1:
            return None
        _, b, _ = calls[0]
        return {k: repr(v) for k, v in b.items() if k not in ("reference", "prediction")}

    def fresh():
        return make_metric_objs(prog, False)[0]

    base = run(fresh(), {})
    mv = fresh()
    first = run(mv, {"connectivity": 2, "voxelspacing": Sym("SPACING")}) if has_varkw else run(mv, {})
    second = run(mv, {})
    if base is None or first is None or second is None:
        ctx.undecided("R15.9", mcall, mcall.node, f"{mcall.qual}:history", "metric call not evaluable")
        return
    ctx.decide("R15.9", mcall, mcall.node, f"{mcall.qual}:history", "a plain metric call after a call with per-call options hands the kernel the same arguments as a plain call on an untouched metric (nothing of the earlier call's options is remembered)", second == base, {"plain_call_on_fresh_metric": base, "plain_call_after_a_call_with_options": second})


def check_result_purity(ctx: Ctx):
    from . import c13
    from .resultrun import build_edge_case_handler

    prog = ctx.prog
    metrics = metric_objs(prog)
    ech, _ = build_edge_case_handler(prog, metrics)
    init = prog.cls("panoptica_result:PanopticaResult").lookup("__init__")
    for out, o, pred, ref, it in c13.run_constructor(ctx, metrics, ech, [metrics[0]], 0, {}):
        bad = _bad_stores(it)
        dtxt = "; ".join(f"{getattr(v, 'tag', '?')}={d}" for nd, v, d in out.decisions)
        ctx.decide("R15.1", init, init.node, f"{init.qual}[{dtxt}]", "the result constructor binarises copies, never the arrays it was given", not bad, {"stores": [norm(n_)[:80] for n_, _, _ in bad]})


def _guard(ctx, rule, fn):
    try:
        fn(ctx)
    except (Undecided, AnchorMissing) as e:
        ctx.undecided(rule, None, None, f"{rule}:{fn.__name__}", f"{type(e).__name__}: {e}")


def _run_rule(ctx, name, fn):
    """a sub-rule that cannot be evaluated is recorded as undecided; the remaining rules still run"""
    try:
        return fn(ctx)
    except (Undecided, AnchorMissing) as e:
        ctx.undecided(name, None, None, f"{name}:analysis", f"{type(e).__name__}: {e}")
        return 0


def check(ctx: Ctx):
    _guard(ctx, "R15.3", check_constructor_args)
    _guard(ctx, "R15.3", check_mutable_defaults)
    _guard(ctx, "R15.1", check_result_purity)
    _guard(ctx, "R15.1", check_no_input_mutation)
    _guard(ctx, "R15.2", check_options)
    _run_rule(ctx, "check_pools", check_pools)
    _run_rule(ctx, "R15.5", check_map_helpers)
    _run_rule(ctx, "check_state_writers", check_state_writers)
    _run_rule(ctx, "R15.10", check_derived_state)
    _run_rule(ctx, "R15.11", check_late_binding)
    _run_rule(ctx, "check_globals", check_globals)
    _run_rule(ctx, "check_state_through_callees", check_state_through_callees)
    _run_rule(ctx, "check_ctor_purity", check_ctor_purity)
    _run_rule(ctx, "check_shared_defaults", check_shared_defaults)
    _run_rule(ctx, "check_kernel_purity", check_kernel_purity)
    _run_rule(ctx, "R15.9", check_metric_call_history)
    _guard(ctx, "R15.8", check_param_aliasing)


_E = "panoptica/panoptica_evaluator.py"
_L = "panoptica/utils/label_group.py"
_A = "panoptica/panoptica_aggregator.py"
_R = "panoptica/panoptica_result.py"
_F = "panoptica/_functionals.py"
_I = "panoptica/instance_evaluator.py"

VARIANTS = [
    Variant("C15-m-d7a", "R15.2", "mutant", [(_E, "        assert isinstance(label_group, LabelGroup)\n        if save_group_times:", "        assert isinstance(label_group, LabelGroup)\n        if self.__save_group_times:")], control=True, note="defect D7a of the original tree"),
    Variant("C15-m-d7b", "R15.3", "mutant", [(_A, "self.__evaluation_metrics = list(panoptica_evaluator.resulting_metric_keys)", "self.__evaluation_metrics = panoptica_evaluator.resulting_metric_keys")], control=True, note="defect D7b"),
    Variant("C15-m-extract-nocopy", "R15.1", "mutant", [(_L, "        array = array.copy()\n        array[np.isin(array, self.value_labels, invert=True)] = 0", "        array[np.isin(array, self.value_labels, invert=True)] = 0")]),
    Variant("C15-m-copy-when-needed", "R15.1", "mutant", [(_L, "        array = array.copy()\n        array[np.isin(array, self.value_labels, invert=True)] = 0", "        foreign = np.isin(array, self.value_labels, invert=True) & (array != 0)\n        if foreign.any():\n            array = array.copy()\n            array[foreign] = 0")]),
    Variant("C15-m-result-nocopy", "R15.1", "mutant", [(_R, "            ref_binary = reference_arr.copy()\n            pred_binary[pred_binary != 0] = 1\n            ref_binary[ref_binary != 0] = 1\n            arrays_present = True", "            ref_binary = reference_arr\n            pred_binary[pred_binary != 0] = 1\n            ref_binary[ref_binary != 0] = 1\n            arrays_present = True")], note="caught by the pipeline-independent result run of C13 as well"),
    Variant("C15-m-any-nocopy", "R15.1", "mutant", [(_L, "        array = array.copy()\n        return array\n", "        array[array < 0] = 0\n        return array\n")]),
    Variant("C15-m-ctor-append", "R15.3", "mutant", [(_E, "        self.__log_times = log_times\n        self.__verbose = verbose\n", "        self.__log_times = log_times\n        self.__verbose = verbose\n        if self.__decision_metric is not None and self.__decision_metric not in self.__eval_metrics:\n            self.__eval_metrics.append(self.__decision_metric)\n")]),
    Variant("C15-m-verbose-as-result-all", "R15.4", "mutant", [(_E, "            decision_threshold=decision_threshold,\n            result_all=result_all,", "            decision_threshold=decision_threshold if result_all else None,\n            result_all=result_all,")]),
    Variant("C15-m-unordered-pool", "R15.5", "mutant", [(_I, "        metric_dicts: list[dict[Metric, float]] = pool.starmap(\n            _evaluate_instance, instance_pairs\n        )", "        metric_dicts: list[dict[Metric, float]] = list(pool.imap_unordered(\n            lambda a: _evaluate_instance(*a), instance_pairs\n        ))")]),
    Variant("C15-m-stateful-evaluate", "R15.6", "mutant", [(_E, "        processing_pair = self.__expected_input(prediction_arr, reference_arr)\n", "        processing_pair = self.__expected_input(prediction_arr, reference_arr)\n        self.__last_shape = prediction_arr.shape\n")]),
    # a module-level list that is appended to and READ (how many calls so far): history reaches a value
    Variant("C15-m-global-counter", "R15.7", "mutant", [(_F, "def _round_to_n(", "_CALLS = []\n\n\ndef _count_call():\n    _CALLS.append(1)\n    return len(_CALLS)\n\n\ndef _round_to_n(")]),
    # the same list only ever appended to (never read anywhere): carries nothing into any result
    Variant("C15-t-global-write-only", "R15.7", "twin", [(_F, "def _round_to_n(", "_CALLS = []\n\n\ndef _count_call():\n    _CALLS.append(1)\n\n\ndef _round_to_n(")]),
    Variant("C15-t-group-any-nocopy", "R15.1", "twin", [(_L, "        array = array.copy()\n        return array\n", "        return array\n")], note="harmless: every later write is preceded by a copy/astype"),
    Variant("C15-t-list-slice", "R15.3", "twin", [(_A, "self.__evaluation_metrics = list(panoptica_evaluator.resulting_metric_keys)", "self.__evaluation_metrics = panoptica_evaluator.resulting_metric_keys[:]")]),
    Variant("C15-t-np-array", "R15.1", "twin", [(_L, "        array = array.copy()\n        array[np.isin(array, self.value_labels, invert=True)] = 0", "        array = np.array(array)\n        array[np.isin(array, self.value_labels, invert=True)] = 0")]),
]


_OPAQUE_BASES_OK = {"object", "ABC", "abc.ABC", "Enum", "enum.Enum", "Generic", "Protocol", "ABCMeta"}
_REFLECTIVE_NAMES = {"setattr", "vars", "delattr"}
_REFLECTIVE_ATTRS = {"__dict__", "__setattr__", "__setstate__"}
_REFLECTIVE_METHODS = {"__getattr__", "__setattr__", "__setstate__", "__getattribute__"}


def unbound_private_attrs(prog, classes, trace=None) -> list:
    """R15.12: private attributes `self._x` that a method of one of `classes` reads although nothing that could act on
    an instance of the class ever binds an attribute of that name: no `<obj>._x` store / augmented / annotated / loop /
    with / del target anywhere in the package except `self._x` stores inside classes outside the class's family (those
    bind the other class's attribute), no class-level name, method or property of that name in the ancestors or
    descendants; and nothing could bind it reflectively: no `__getattr__` / `__setattr__` / `__setstate__` /
    `__getattribute__` in the family, no `setattr` / `vars` / `__dict__` inside a family class or in any module-level
    function of the package, the name never spelt as a string, every base class resolved or a plain library base, no
    `try` in the reading method.  Such a read raises AttributeError for every input that reaches it.
    Returns [(class, method Func, ast.Attribute)]."""
    strings = set()
    stores = []
    in_class: dict[int, Class] = {}
    for k in prog.classes.values():
        for y in ast.walk(k.node):
            in_class.setdefault(id(y), k)
    reflective_free = False  # reflective access outside any class (module-level helpers may act on any object)
    reflective_classes = set()
    for m in prog.modules.values():
        for x in ast.walk(m.tree):
            if isinstance(x, ast.Attribute) and isinstance(x.ctx, (ast.Store, ast.Del)):
                stores.append(x)
            elif isinstance(x, ast.Constant) and isinstance(x.value, str):
                strings.add(x.value)
            if (isinstance(x, ast.Name) and x.id in _REFLECTIVE_NAMES) or (isinstance(x, ast.Attribute) and x.attr in _REFLECTIVE_ATTRS):
                k = in_class.get(id(x))
                if k is None:
                    reflective_free = True
                else:
                    reflective_classes.add(k.qual)
    out = []
    if reflective_free:
        if trace is not None:
            trace.append("reflective access at module level")
        return out
    for c in classes:
        family = list(c.mro()) + list(c.all_subclasses())
        fq = {k.qual for k in family}
        if any(prog.resolve_class_expr(k.module, b) is None and (dotted(b) or "?") not in _OPAQUE_BASES_OK for k in family for b in k.base_exprs):
            if trace is not None:
                trace.append(f"{c.qual}: unresolved base")
            continue
        if fq & reflective_classes or any(n in k.methods for k in family for n in _REFLECTIVE_METHODS):
            if trace is not None:
                trace.append(f"{c.qual}: reflective family")
            continue
        stored = set()
        for x in stores:
            k = in_class.get(id(x))
            if k is not None and k.qual not in fq and isinstance(x.value, ast.Name):
                f_ = next((mm for mm in k.methods.values() if mm.self_name == x.value.id and any(y is x for y in ast.walk(mm.node))), None)
                if f_ is not None:
                    continue  # `self._x = ...` of an unrelated class
            stored.add(x.attr)
        class_names = set()
        for k in family:
            class_names |= set(k.methods)
            for st in ast.walk(k.node):
                if isinstance(st, ast.Name) and isinstance(st.ctx, ast.Store):
                    class_names.add(st.id)
        for meth in c.methods.values():
            me = meth.self_name
            if not me or meth.is_classmethod:
                continue
            if any(isinstance(t, ast.Try) for t in ast.walk(meth.node)):
                continue
            for x in ast.walk(meth.node):
                if isinstance(x, ast.Attribute) and isinstance(x.ctx, ast.Load) and isinstance(x.value, ast.Name) and x.value.id == me and x.attr.startswith("_") and not x.attr.endswith("__"):
                    a = x.attr
                    if a in stored or c.mangle(a) in stored or a in class_names or a in strings:
                        continue
                    out.append((c, meth, x))
    return out


def diagnose_undecided(ctx: Ctx):
    """Run only when a check would otherwise end undecided: if the class an undecided obligation sits in reads a private
    attribute that nothing ever binds (R15.12), the run could not be modelled *because* the code cannot run - a definite
    violation (AttributeError on every input reaching the read), not a modelling gap."""
    prog = ctx.prog
    src_bad = "class A:\n    def __init__(self, m, t):\n        self._t = t\n    def run(self, x):\n        return self._m.f(x, self._t)\n\nclass B:\n    def __init__(self, m):\n        self._m = m\n"
    src_ok = src_bad.replace("        self._t = t\n", "        self._t = t\n        self._m = m\n", 1)
    got = []
    for src in (src_bad, src_ok):
        p_ = Program({"panoptica/__init__.py": "", "panoptica/p.py": src})
        got.append(sorted((c.name, x.attr) for c, _m, x in unbound_private_attrs(p_, list(p_.classes.values()))))
    if got != [[("A", "_m")], []]:
        return  # the built-in examples do not behave: the diagnosis is not used (the check stays undecided)
    classes = []
    for o in ctx.undecideds:
        qual = o.where.split(" ", 1)[1] if " " in o.where else ""
        tail = qual.split(":")[-1]
        c = prog.try_cls(qual.rsplit(".", 1)[0]) if "." in tail else None
        if c is not None and c not in classes:
            classes.append(c)
        # ... or the interpreter names the object whose attribute it could not find
        m_ = re.search(r"attribute \w+ of (\w+) object unknown", o.desc or "")
        if m_:
            for k in prog.classes.values():
                if k.name == m_.group(1) and k not in classes:
                    classes.append(k)
    seen = set()
    for c, meth, x in unbound_private_attrs(prog, classes):
        if (c.qual, x.attr) in seen:
            continue
        seen.add((c.qual, x.attr))
        ctx.violated("R15.12", meth, x, f"{c.qual}.{x.attr}", f"`self.{x.attr}` is read by {c.name}.{meth.name} but nothing ever binds an attribute of that name on such an object: AttributeError for every input that reaches the read", {"class": c.qual, "attribute": x.attr})
