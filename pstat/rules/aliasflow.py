"""ALIAS/EFFECT as a dataflow analysis (may-alias, flow-sensitive, with return summaries).

Fact per program point: the set of local names that MAY refer to (a view of) an array the
function received from its caller.  Transfer:
  - parameters start as caller-owned (array-like ones: annotated ndarray or named like one);
  - x = y, y[...], y.T, y.view()/reshape()/ravel()/squeeze()/flatten? (no: copy), np.asarray(y),
    np.atleast_1d(y), np.squeeze(y), y.astype(T, copy=False), p.attr of a caller-owned object,
    and calls of package functions whose summary says "may return (a view of) argument i"
    propagate the fact;
  - every other expression (y.copy(), y.astype(T), arithmetic, comparisons, np.zeros/where/...,
    unknown calls) yields a fresh value and kills the fact for the assigned name;
  - branches join by union, loops are iterated to a fixpoint.
Effects reported: a store x[...] = v, an augmented assignment on x, out=x, np.copyto(x, ...),
x.sort()/fill()/put()/... where x may be caller-owned.
"""

from __future__ import annotations

import ast
from typing import Optional

from ..model import Func, Program, dotted, norm, walk_no_nested

VIEW_METHODS = {"view", "reshape", "ravel", "squeeze", "swapaxes", "transpose", "__getitem__", "diagonal"}
VIEW_FUNCS = {"numpy.asarray", "numpy.asanyarray", "numpy.atleast_1d", "numpy.atleast_2d", "numpy.atleast_3d", "numpy.squeeze", "numpy.ravel", "numpy.reshape", "numpy.transpose", "numpy.ascontiguousarray", "numpy.moveaxis", "numpy.swapaxes", "numpy.expand_dims", "numpy.broadcast_to", "numpy.flip", "numpy.flipud", "numpy.fliplr"}
INPLACE_METHODS = {"sort", "fill", "put", "itemset", "resize", "partition", "setfield", "byteswap"}
INPLACE_FUNCS = {"numpy.copyto", "numpy.put", "numpy.place", "numpy.putmask", "numpy.fill_diagonal", "numpy.put_along_axis"}
ARRAY_HINT = ("arr", "array", "mask", "img", "image", "prediction", "reference", "volume", "labels_map", "label_map_arr")


def array_like_param(p) -> bool:
    ann = norm(p.annotation) if p.annotation is not None else ""
    if "ndarray" in ann or "NDArray" in ann:
        return True
    if "Pair" in ann or p.name.lower().endswith("_pair") or p.name.lower() in ("pair", "processing_pair", "input_pair"):
        return True  # an object holding the caller's arrays
    n = p.name.lower()
    if ann and not ("ndarray" in ann) and any(t in ann for t in ("int", "str", "bool", "float", "dict", "Path")) and "ndarray" not in ann:
        return False
    return any(h in n for h in ARRAY_HINT) and not n.endswith(("_idx", "_label", "_labels"))


class AliasFlow:
    def __init__(self, prog: Program):
        self.prog = prog
        self.summary: dict[str, set[int]] = {}  # func qual -> indices of call params that may be returned
        self.written: dict[str, dict[int, tuple]] = {}  # func qual -> {param index: (site text, function) of the innermost write}
        self.effects: dict[str, list] = {}
        self._rc: dict = {}
        self._solve()

    def _resolve(self, f: Func, call: ast.Call) -> list:
        k = (f.qual, id(call))
        if k not in self._rc:
            try:
                self._rc[k] = list(self.prog.resolve_call(f, call))
            except Exception:
                self._rc[k] = []
        return self._rc[k]

    # -- expression: may it evaluate to (a view of) a caller-owned array? ------------------------
    def may_alias(self, f: Func, e: ast.expr, owned: set[str]) -> bool:
        if isinstance(e, ast.Name):
            return e.id in owned
        if isinstance(e, ast.Starred):
            return self.may_alias(f, e.value, owned)
        if isinstance(e, ast.Subscript):
            return self.may_alias(f, e.value, owned)  # slices are views; masks copy, but may-analysis
        if isinstance(e, ast.Attribute):
            if e.attr in ("T", "real", "imag", "flat"):
                return self.may_alias(f, e.value, owned)
            # attribute / property of a caller-owned object: the object's arrays are the caller's
            if not self.may_alias(f, e.value, owned) or e.attr in ("shape", "dtype", "ndim", "size", "name", "value"):
                return False
            # a property of a package class: what it returns is known from its summary / annotation
            props = [m for m in self.prog.methods_named(e.attr) if getattr(m, "is_property", False)]
            if props and not any(isinstance(c, ast.AST) for c in ()):
                def scalar(m):
                    r = m.node.returns
                    txt = norm(r) if r is not None else ""
                    return txt in ("int", "bool", "float", "str") or txt.startswith(("tuple[int", "list[int", "list[str", "tuple[str"))

                if all(scalar(m) or (-1 not in self.summary.get(m.qual, {-1})) for m in props):
                    return False
            return True
        if isinstance(e, ast.IfExp):
            return self.may_alias(f, e.body, owned) or self.may_alias(f, e.orelse, owned)
        if isinstance(e, (ast.Tuple, ast.List)):
            return any(self.may_alias(f, x, owned) for x in e.elts)
        if isinstance(e, ast.NamedExpr):
            return self.may_alias(f, e.value, owned)
        if isinstance(e, ast.Call):
            fn = e.func
            if isinstance(fn, ast.Attribute):
                if fn.attr == "astype":
                    cp = next((k.value for k in e.keywords if k.arg == "copy"), None)
                    if cp is not None and not (isinstance(cp, ast.Constant) and cp.value is True):
                        return self.may_alias(f, fn.value, owned)
                    return False
                if fn.attr in VIEW_METHODS:
                    return self.may_alias(f, fn.value, owned)
            d = self._ext_name(f, fn)
            if d in VIEW_FUNCS:
                return any(self.may_alias(f, a, owned) for a in e.args[:1])
            if d == "numpy.array":
                cp = next((k.value for k in e.keywords if k.arg == "copy"), None)
                if cp is not None and not (isinstance(cp, ast.Constant) and cp.value is True):
                    return any(self.may_alias(f, a, owned) for a in e.args[:1])
                return False
            # package callee with a summary
            resolved = self._resolve(f, e)
            callees = [c for c in resolved if isinstance(c, Func)]
            # building an object from received arrays: the object holds (views of) them
            is_ctor = any(getattr(c, "name", "") == "__init__" for c in callees) or (isinstance(fn, ast.Call) and dotted(fn.func) == "type")
            if is_ctor and any(self.may_alias(f, a, owned) for a in list(e.args) + [k.value for k in e.keywords]):
                return True
            for c in callees:
                idxs = self.summary.get(c.qual, set())
                params = c.call_params
                recv = fn.value if isinstance(fn, ast.Attribute) else None
                for i in idxs:
                    if i == -1:
                        if recv is not None and self.may_alias(f, recv, owned):
                            return True
                        continue
                    if i < 0:
                        continue
                    if i < len(e.args) and self.may_alias(f, e.args[i], owned):
                        return True
                    if i < len(params):
                        for k in e.keywords:
                            if k.arg == params[i].name and self.may_alias(f, k.value, owned):
                                return True
            return False
        return False

    def _ext_name(self, f: Func, fn: ast.expr) -> Optional[str]:
        d = dotted(fn)
        if not d:
            return None
        head, _, rest = d.partition(".")
        imp = f.module.imports.get(head)
        if imp:
            base = imp[0] if imp[1] is None else f"{imp[0]}.{imp[1]}"
            return base + ("." + rest if rest else "")
        return d

    # -- statements -------------------------------------------------------------------------------
    def run(self, f: Func, collect: Optional[list] = None) -> set[int]:
        params = f.call_params
        owned0 = {p.name for p in params if array_like_param(p)}
        # module-level mutable containers are shared by every caller in the process
        mod_owned = {n for n, v in f.module.assigns.items() if isinstance(v, (ast.Dict, ast.List, ast.Set)) or (isinstance(v, ast.Call) and dotted(v.func) in ("dict", "list", "set", "defaultdict", "collections.defaultdict", "OrderedDict"))}
        local_stores = {n.id for n in walk_no_nested(f.node) if isinstance(n, ast.Name) and isinstance(n.ctx, ast.Store)} | {p.name for p in params}
        mod_owned -= local_stores
        owned0 |= mod_owned
        if f.self_name:
            owned0.add(f.self_name)  # the object's own arrays are owned by whoever built it
        returned: set[int] = set()
        wrote: dict[int, tuple] = {}
        pidx = {p.name: i for i, p in enumerate(params)}

        def origin(e, owned, origins):
            # which parameter indices may flow into e
            out = set()
            for n in ast.walk(e):
                if isinstance(n, ast.Name) and n.id in origins:
                    out |= origins[n.id]
            return out

        def assign(t, val, owned, origins):
            al = self.may_alias(f, val, owned) if val is not None else False
            org = origin(val, owned, origins) if (val is not None and al) else set()
            for x in ([t] if not isinstance(t, (ast.Tuple, ast.List)) else t.elts):
                if isinstance(x, ast.Starred):
                    x = x.value
                if isinstance(x, ast.Name):
                    if isinstance(t, (ast.Tuple, ast.List)) and isinstance(val, (ast.Tuple, ast.List)) and len(val.elts) == len(t.elts):
                        v2 = val.elts[list(t.elts).index(x) if x in t.elts else 0]
                        a2 = self.may_alias(f, v2, owned)
                        o2 = origin(v2, owned, origins) if a2 else set()
                    else:
                        a2, o2 = al, org
                    if a2:
                        owned.add(x.id)
                        origins[x.id] = set(o2)
                    else:
                        owned.discard(x.id)
                        origins.pop(x.id, None)

        def effect(node, name, how, owned, origins, root=None):
            if name in owned and name != f.self_name:
                org = sorted(origins.get(name, set()))
                for i in org:
                    if i >= 0:
                        wrote.setdefault(i, root or (f"{f.qual}:{getattr(node, 'lineno', 0)}: {norm(node)[:70]}", f.qual))
                if collect is not None:
                    collect.append((node, name, how, org, root))

        def callee_writes(c, owned, origins):
            """passing a received array into a parameter the callee writes in place"""
            fn = c.func
            callees = [x for x in self._resolve(f, c) if isinstance(x, Func)]
            for g in callees:
                if g.qual == f.qual:
                    continue
                wr = self.written.get(g.qual, {})
                if not wr:
                    continue
                gp = g.call_params
                for i, root in wr.items():
                    actual = None
                    if i < len(c.args) and not any(isinstance(a, ast.Starred) for a in c.args[: i + 1]):
                        actual = c.args[i]
                    elif i < len(gp):
                        actual = next((k.value for k in c.keywords if k.arg == gp[i].name), None)
                    if actual is None:
                        continue
                    if self.may_alias(f, actual, owned):
                        names = [n.id for n in ast.walk(actual) if isinstance(n, ast.Name) and n.id in owned]
                        for nm in names[:1]:
                            effect(c, nm, f"passed to {g.qual} (parameter {gp[i].name if i < len(gp) else i}), which writes it in place", owned, origins, root=root)

        def scan_calls(st, owned, origins):
            for c in ast.walk(st):
                if not isinstance(c, ast.Call):
                    continue
                callee_writes(c, owned, origins)
                for k in c.keywords:
                    if k.arg == "out" and isinstance(k.value, ast.Name):
                        effect(c, k.value.id, "out=", owned, origins)
                d = self._ext_name(f, c.func)
                if d in INPLACE_FUNCS and c.args and isinstance(c.args[0], ast.Name):
                    effect(c, c.args[0].id, d, owned, origins)
                if d and d.startswith("numpy.") and len(c.args) == 3 and d.split(".")[-1] in ("multiply", "add", "subtract", "divide", "maximum", "minimum", "logical_or", "logical_and", "square", "sqrt", "power") and isinstance(c.args[2], ast.Name):
                    effect(c, c.args[2].id, "out (positional)", owned, origins)
                if isinstance(c.func, ast.Attribute) and c.func.attr in INPLACE_METHODS and isinstance(c.func.value, ast.Name):
                    effect(c, c.func.value.id, "." + c.func.attr + "()", owned, origins)

        def block(stmts, owned, origins):
            for st in stmts:
                if isinstance(st, (ast.FunctionDef, ast.AsyncFunctionDef, ast.ClassDef)):
                    continue
                if isinstance(st, ast.Assign):
                    scan_calls(st.value, owned, origins)
                    for t in st.targets:
                        for x in ast.walk(t):
                            if isinstance(x, ast.Subscript) and isinstance(x.value, ast.Name):
                                effect(st, x.value.id, "store", owned, origins)
                        if not isinstance(t, (ast.Subscript, ast.Attribute)):
                            assign(t, st.value, owned, origins)
                elif isinstance(st, ast.AnnAssign):
                    if st.value is not None:
                        scan_calls(st.value, owned, origins)
                        if isinstance(st.target, ast.Name):
                            assign(st.target, st.value, owned, origins)
                elif isinstance(st, ast.AugAssign):
                    scan_calls(st.value, owned, origins)
                    t = st.target
                    if isinstance(t, ast.Name):
                        effect(st, t.id, "augmented assignment", owned, origins)
                    elif isinstance(t, ast.Subscript) and isinstance(t.value, ast.Name):
                        effect(st, t.value.id, "store", owned, origins)
                elif isinstance(st, ast.Return):
                    if st.value is not None:
                        scan_calls(st.value, owned, origins)
                        if self.may_alias(f, st.value, owned):
                            o = origin(st.value, owned, origins)
                            returned.update(o)
                            if f.self_name and any(isinstance(n, ast.Name) and n.id == f.self_name for n in ast.walk(st.value)):
                                returned.add(-1)
                elif isinstance(st, ast.If):
                    scan_calls(st.test, owned, origins)
                    o1, g1 = set(owned), {k: set(v) for k, v in origins.items()}
                    o2, g2 = set(owned), {k: set(v) for k, v in origins.items()}
                    block(st.body, o1, g1)
                    block(st.orelse, o2, g2)
                    from ..flow import leaves

                    l1, l2 = leaves(st.body), bool(st.orelse) and leaves(st.orelse)
                    owned.clear()
                    origins.clear()
                    for o_, g_, lv in ((o1, g1, l1), (o2, g2, l2)):
                        if lv:
                            continue
                        owned |= o_
                        for k, v in g_.items():
                            origins.setdefault(k, set()).update(v)
                elif isinstance(st, (ast.For, ast.While)):
                    if isinstance(st, ast.For):
                        scan_calls(st.iter, owned, origins)
                        # iterating over a caller-owned container yields caller-owned elements
                        assign(st.target, st.iter, owned, origins)
                    for _ in range(3):
                        before = (set(owned), {k: set(v) for k, v in origins.items()})
                        o1, g1 = set(owned), {k: set(v) for k, v in origins.items()}
                        block(st.body, o1, g1)
                        owned |= o1
                        for k, v in g1.items():
                            origins.setdefault(k, set()).update(v)
                        if (owned, origins) == before:
                            break
                    block(st.orelse, owned, origins)
                elif isinstance(st, ast.With):
                    for it in st.items:
                        scan_calls(it.context_expr, owned, origins)
                        if it.optional_vars is not None:
                            assign(it.optional_vars, it.context_expr, owned, origins)
                    block(st.body, owned, origins)
                elif isinstance(st, ast.Try):
                    block(st.body, owned, origins)
                    for h in st.handlers:
                        block(h.body, owned, origins)
                    block(st.orelse, owned, origins)
                    block(st.finalbody, owned, origins)
                else:
                    scan_calls(st, owned, origins)

        origins0 = {p.name: {pidx[p.name]} for p in params if p.name in owned0}
        for n in mod_owned:
            origins0[n] = {-2}  # -2: module-level state
        if f.self_name:
            origins0[f.self_name] = {-1}
        block(f.node.body, set(owned0), origins0)
        self._last_wrote = wrote
        return returned

    @staticmethod
    def is_public(f: Func) -> bool:
        """A function callers outside the package can hand their own arrays to."""
        n = f.name
        return not n.startswith("_") or (n.startswith("__") and n.endswith("__"))

    def _solve(self):
        funcs = [f for f in self.prog.functions.values() if f.parent is None]
        for f in funcs:
            self.summary[f.qual] = set()
            self.written[f.qual] = {}
        for _ in range(8):
            changed = False
            for f in funcs:
                r = self.run(f)
                w = dict(self._last_wrote)
                if r != self.summary[f.qual]:
                    self.summary[f.qual] = r
                    changed = True
                if set(w) != set(self.written[f.qual]):
                    self.written[f.qual] = w
                    changed = True
            if not changed:
                break
        # a write into a received array is an effect on the *caller's* data where the receiving
        # function is public (or the container is module-level state); private helpers that
        # write into a parameter only pass the obligation on to their callers (summary `written`)
        for f in funcs:
            eff: list = []
            self.run(f, collect=eff)
            keep = [e for e in eff if (-2 in e[3]) or (self.is_public(f) and any(i >= 0 for i in e[3]))]
            if keep:
                self.effects[f.qual] = keep
